------------------------------- MODULE Kernel -------------------------------
(***************************************************************************)
(* The operating-system interface the shell depends on, written from       *)
(* POSIX.1-2024 XSH (open, close, dup, dup2 / fcntl F_DUPFD, pipe, read,   *)
(* write, lseek, fcntl F_GETFD / F_SETFD / F_GETFL / F_SETFL(O_NONBLOCK),  *)
(* fstat, fstatat, umask, chdir, getcwd, opendir/readdir, sigaction,       *)
(* sigprocmask, sigpending, kill to self and to the child, fork, _exit,     *)
(* waitpid) and from                                                       *)
(* the doc comments of the system                                          *)
(* traits in yash-env/src/system/*.rs where those deliberately differ from *)
(* the system call (Close::close returns Ok for a closed descriptor).      *)
(* It is NOT a transcription of yash-env/src/system/virtual.rs.            *)
(*                                                                         *)
(* Property C19: RealSystem and VirtualSystem must both behave as this     *)
(* module says, hence agree.  The whole kernel state of ONE process is the *)
(* record S; Apply(S, c) is the abstract result of call c that the shell   *)
(* observes together with the successor state.  A call whose outcome POSIX *)
(* leaves unspecified / implementation-defined, that would block a single  *)
(* process forever, or that leaves the modelled universe has the result    *)
(* kind "undef": it is never judged against this module (the harness still *)
(* compares the two implementations with each other) and never extended.   *)
(*                                                                         *)
(* Uses: P1/P2 (MC_Kernel_<theme>_<tier>.cfg: TLC enumerates every distinct  *)
(* state reachable by <= MaxH calls of a theme's alphabet, checks the      *)
(* model's own invariants there and prints, per state, the history leading *)
(* to it and the result of EVERY call of the alphabet in that state; the   *)
(* harness runs history+call on both systems), P3 (Trace_Kernel.tla:       *)
(* random long call sequences recorded on both systems are validated call  *)
(* by call), and KernelScript.tla (the script catalogue) builds on Apply.   *)
(***************************************************************************)
EXTENDS Integers, Sequences, FiniteSets, TLC, Json, Bitwise

CONSTANTS Theme,     \* which alphabet of calls is enumerated (see Calls)
          MaxFd,     \* descriptors 0 .. MaxFd
          MaxLen,    \* bound on file length / pipe fill (a bound of the model, not of POSIX)
          MaxPipe,   \* number of anonymous pipes alive at a time
          MaxH       \* bound on the history length (generator configs)

VARIABLES S,         \* the kernel state of the process (a record, see Init0)
          h          \* history: sequence of [c |-> call, r |-> result]  (hidden by VIEW)

vars == <<S, h>>
view == S

---------------------------------------------------------------------------
(* Universe                                                                *)

FdRange == 0 .. MaxFd
MaxOfd  == MaxFd + 1
OfdIds  == 1 .. MaxOfd
PipeIds == 0 .. MaxPipe      \* 0 is the named FIFO "p"; the others anonymous pipes
AllSigs == {"USR1", "PIPE", "CHLD"}
DefIgn(sig) == sig = "CHLD"  \* default action "ignore" (XBD signal.h); others terminate

\* Absolute paths (below the scratch root) of every node that can exist.
Universe == { <<>>, <<"f">>, <<"d">>, <<"d", "g">>, <<"d", "n">>, <<"n">>, <<"g">>, <<"j">>,
              <<"l">>, <<"ld">>, <<"lx">>, <<"p">> }

NodeNone          == [k |-> "none", data |-> <<>>, perm |-> 0,   to |-> <<>>]
NodeReg(d, perm)  == [k |-> "reg",  data |-> d,    perm |-> perm, to |-> <<>>]
NodeDir(perm)     == [k |-> "dir",  data |-> <<>>, perm |-> perm, to |-> <<>>]
NodeLnk(to)       == [k |-> "lnk",  data |-> <<>>, perm |-> 0,   to |-> to]
NodeFifo(perm)    == [k |-> "fifo", data |-> <<>>, perm |-> perm, to |-> <<>>]

\* The initial tree.  Octal: 0644 = 420, 0755 = 493, 0600 = 384.
Tree0 == [p \in Universe |->
           CASE p = <<>>          -> NodeDir(493)
             [] p = <<"f">>       -> NodeReg(<<1, 2, 3>>, 420)
             [] p = <<"d">>       -> NodeDir(493)
             [] p = <<"d", "g">>  -> NodeReg(<<7, 8>>, 384)
             [] p = <<"l">>       -> NodeLnk(<<"f">>)
             [] p = <<"ld">>      -> NodeLnk(<<"d">>)
             [] p = <<"lx">>      -> NodeLnk(<<"n">>)
             [] p = <<"p">>       -> NodeFifo(420)
             [] OTHER             -> NodeNone]

FreeOfd == [t |-> "free", path |-> <<>>, pi |-> -1, r |-> FALSE, w |-> FALSE,
            app |-> FALSE, nb |-> FALSE, off |-> 0, data |-> <<>>]
StdOfd  == [FreeOfd EXCEPT !.t = "std", !.r = TRUE, !.w = TRUE]
ClosedFd == [o |-> 0, cx |-> FALSE]

\* The per-process part of the state of the (at most one) child process
\* created by fork: st is "none" (no child yet), "run", "exited" (a zombie with
\* exit status code), "signaled" (a zombie killed by signal sig) or "reaped"
\* (the parent has waited for it: its lifetime has ended and its process ID no
\* longer names a process; everything else is as in NoKid).  The file tree,
\* the open file descriptions and the pipes are shared with the parent.
NoKid == [ st |-> "none", code |-> 0, sig |-> "",
           fds |-> [x \in FdRange |-> ClosedFd], cwd |-> <<>>, lim |-> -1, um |-> 0,
           disp |-> [s \in AllSigs |-> "D"], mask |-> {}, pend |-> {}, caught |-> {} ]
Reaped == [NoKid EXCEPT !.st = "reaped"]

Init0 == [ node   |-> Tree0,
           fds    |-> [x \in FdRange |-> IF x <= 2 THEN [o |-> x + 1, cx |-> FALSE] ELSE ClosedFd],
           ofd    |-> [i \in OfdIds |-> IF i <= 3 THEN StdOfd ELSE FreeOfd],
           pipe   |-> [q \in PipeIds |-> <<>>],
           cwd    |-> <<>>,
           lim    |-> -1,
           um     |-> 18,                         \* 022
           disp   |-> [s \in AllSigs |-> "D"],
           mask   |-> {},
           pend   |-> {},
           caught |-> {},
           alive  |-> TRUE,
           kid    |-> NoKid ]

---------------------------------------------------------------------------
(* Results: one uniform record shape, so that every field is mono-typed    *)
(* per kind k.                                                             *)

R(k, n, s, d) == [k |-> k, n |-> n, s |-> s, d |-> d]
ROk          == R("ok", 0, "", <<>>)
RErr(e)      == R("err", 0, e, <<>>)
RFd(n)       == R("fd", n, "", <<>>)
RCnt(n)      == R("cnt", n, "", <<>>)
RData(d)     == R("data", Len(d), "", d)
ROff(n)      == R("off", n, "", <<>>)
RFlag(b)     == R("flag", IF b THEN 1 ELSE 0, "", <<>>)
RAcc(a)      == R("acc", 0, a, <<>>)
RStat(kind, size, perm) == R("stat", size, kind, <<perm>>)
RMode(m)     == R("mode", m, "", <<>>)
RCwd(p)      == R("cwd", 0, "", p)
RDisp(d)     == R("disp", 0, d, <<>>)
RSigs(set)   == R("sigs", 0, "", set)
RPipe(r, w)  == R("pipe", r, "", <<w>>)
RKilled(sig) == R("killed", 0, sig, <<>>)
REnts(set)   == R("ents", 0, "", set)
RUndef(why)  == R("undef", 0, why, <<>>)

Out(r, s) == [r |-> r, s |-> s]

---------------------------------------------------------------------------
(* Pathname resolution (XBD 4.16).  A path is a sequence of components;    *)
(* a first component "/" makes it absolute (relative to the scratch root). *)

Parent(p) == SubSeq(p, 1, Len(p) - 1)

RECURSIVE Walk(_, _, _, _, _)
\* cur: absolute path of an existing directory.  Returns [st, p] with st in
\* "ok" (p exists), "missing" (p does not exist, its parent directory does),
\* "ENOENT", "ENOTDIR", "ELOOP", "out" (left the modelled universe).
Walk(node, cur, comps, follow, budget) ==
  IF comps = <<>> THEN [st |-> "ok", p |-> cur]
  ELSE LET c == Head(comps)  rest == Tail(comps) IN
    IF c = "." THEN Walk(node, cur, rest, follow, budget)
    ELSE IF c = ".." THEN
      IF cur = <<>> THEN [st |-> "out", p |-> <<>>]
      ELSE Walk(node, Parent(cur), rest, follow, budget)
    ELSE LET child == Append(cur, c) IN
      IF child \notin Universe THEN [st |-> "out", p |-> <<>>]
      ELSE LET k == node[child].k IN
        IF k = "none" THEN
          IF rest = <<>> THEN [st |-> "missing", p |-> child] ELSE [st |-> "ENOENT", p |-> <<>>]
        ELSE IF k = "lnk" THEN
          IF rest = <<>> /\ ~follow THEN [st |-> "ok", p |-> child]
          ELSE IF budget = 0 THEN [st |-> "ELOOP", p |-> <<>>]
          ELSE Walk(node, cur, node[child].to \o rest, follow, budget - 1)
        ELSE IF k = "dir" THEN Walk(node, child, rest, follow, budget)
        ELSE IF rest = <<>> THEN [st |-> "ok", p |-> child]
        ELSE [st |-> "ENOTDIR", p |-> <<>>]

Resolve(St, path, follow) ==
  IF path = <<>> THEN [st |-> "ENOENT", p |-> <<>>]          \* empty pathname
  ELSE IF Head(path) = "/" THEN Walk(St.node, <<>>, Tail(path), follow, 8)
  ELSE Walk(St.node, St.cwd, path, follow, 8)

---------------------------------------------------------------------------
(* Descriptor table and open file descriptions                             *)

IsOpen(St, fd) == fd \in FdRange /\ St.fds[fd].o # 0
OfdOf(St, fd)  == St.ofd[St.fds[fd].o]

\* RLIMIT_NOFILE (soft): "one greater than the maximum value that the system
\* may assign to a newly-created descriptor" (XSH getrlimit); -1 = never set
\* by the sequence (then only the bound MaxFd of the model applies).
LimSet(St)    == St.lim # -1
Within(St, x) == St.lim = -1 \/ x < St.lim

\* the lowest free descriptor >= min; -2: none below the limit (EMFILE: a
\* failing call allocates nothing); -1: none within the bound of the model
LowestFree(St, min) ==
  LET free == {x \in FdRange : x >= min /\ St.fds[x].o = 0 /\ Within(St, x)}
  IN IF free # {} THEN CHOOSE x \in free : \A y \in free : x <= y
     ELSE IF LimSet(St) /\ St.lim <= MaxFd + 1 THEN -2 ELSE -1

FreeOfdId(St) ==
  LET free == {i \in OfdIds : St.ofd[i].t = "free"}
  IN IF free = {} THEN 0 ELSE CHOOSE i \in free : \A j \in free : i <= j

FreePipeId(St) ==
  LET used == {St.ofd[i].pi : i \in {j \in OfdIds : St.ofd[j].t = "pipe"}}
      free == (PipeIds \ {0}) \ used
  IN IF free = {} THEN 0 ELSE CHOOSE i \in free : \A j \in free : i <= j

\* pipe id of an open file description that is one end of a pipe or of the FIFO
IsPipeOfd(St, o) == o.t = "pipe" \/ (o.t = "file" /\ St.node[o.path].k = "fifo")
PipeOf(o)        == IF o.t = "pipe" THEN o.pi ELSE 0

LiveOfds(St)   == {i \in OfdIds : St.ofd[i].t # "free"}
Readers(St, q) == \E i \in LiveOfds(St) : IsPipeOfd(St, St.ofd[i]) /\ PipeOf(St.ofd[i]) = q /\ St.ofd[i].r
Writers(St, q) == \E i \in LiveOfds(St) : IsPipeOfd(St, St.ofd[i]) /\ PipeOf(St.ofd[i]) = q /\ St.ofd[i].w

\* After the descriptor table changed: an open file description without a
\* descriptor is gone; "when all file descriptors associated with a pipe or
\* FIFO special file are closed, any data remaining in the pipe or FIFO
\* shall be discarded" (XSH close).
\* the open file descriptions the other process (the child while the parent
\* runs, the parent while the child runs: see Swap) holds
KidLive(St) == IF St.kid.st = "run" THEN {St.kid.fds[x].o : x \in FdRange} ELSE {}

GC(St) ==
  LET live == ({St.fds[x].o : x \in FdRange} \cup KidLive(St)) \ {0}
      ofd2 == [i \in OfdIds |-> IF i \in live THEN St.ofd[i] ELSE FreeOfd]
      St2  == [St EXCEPT !.ofd = ofd2]
      pipe2 == [q \in PipeIds |-> IF Readers(St2, q) \/ Writers(St2, q) THEN St.pipe[q] ELSE <<>>]
  IN [St2 EXCEPT !.pipe = pipe2]

---------------------------------------------------------------------------
(* Signals (XSH 2.4, kill, sigaction, sigprocmask)                         *)

Ignored(St, sig) == St.disp[sig] = "I" \/ (St.disp[sig] = "D" /\ DefIgn(sig))

\* Delivery of an unblocked signal: returns the new state.
Deliver(St, sig) ==
  CASE St.disp[sig] = "C" -> [St EXCEPT !.caught = @ \cup {sig}]
    [] St.disp[sig] = "I" -> St
    [] OTHER -> IF DefIgn(sig) THEN St ELSE [St EXCEPT !.alive = FALSE]

\* Generation of a signal for the process itself.  "und" marks the case
\* POSIX leaves open: a blocked signal whose action is to ignore it may or
\* may not be discarded on generation (XSH 2.4.1).
Generate(St, sig) ==
  IF sig \in St.mask THEN
    IF Ignored(St, sig) THEN [und |-> TRUE, s |-> St]
    ELSE [und |-> FALSE, s |-> [St EXCEPT !.pend = @ \cup {sig}]]
  ELSE [und |-> FALSE, s |-> Deliver(St, sig)]

---------------------------------------------------------------------------
(* The calls.  Each Ap*(St, c) returns [r |-> result, s |-> successor].    *)

\* open(path, access, flags, 0666).  Flags: C O_CREAT, X O_EXCL, T O_TRUNC,
\* A O_APPEND, E O_CLOEXEC, N O_NONBLOCK, D O_DIRECTORY, F O_NOFOLLOW.
NewFile(St, c, p, fd, oid) ==
  [St EXCEPT !.ofd[oid] = [FreeOfd EXCEPT !.t = "file", !.path = p,
                              !.r = c.acc \in {"R", "RW"}, !.w = c.acc \in {"W", "RW"},
                              !.app = "A" \in c.fl, !.nb = "N" \in c.fl],
             !.fds[fd] = [o |-> oid, cx |-> "E" \in c.fl]]

ApOpen0(St, c) ==
  LET excl   == {"C", "X"} \subseteq c.fl
      follow == ~("F" \in c.fl) /\ ~excl
      w      == Resolve(St, c.path, follow)
      fd     == LowestFree(St, 0)
      oid    == FreeOfdId(St)
  IN
  IF "T" \in c.fl /\ c.acc = "R" THEN Out(RUndef("O_TRUNC with O_RDONLY"), St)
  ELSE IF w.st \in {"ENOENT", "ENOTDIR", "ELOOP"} THEN Out(RErr(w.st), St)
  ELSE IF w.st = "out" THEN Out(RUndef("outside the universe"), St)
  ELSE IF w.st = "missing" THEN
    IF "C" \notin c.fl THEN Out(RErr("ENOENT"), St)
    ELSE IF "D" \in c.fl THEN Out(RUndef("O_CREAT with O_DIRECTORY"), St)
    ELSE IF fd = -2 THEN Out(RErr("EMFILE"), St)              \* and no file is created
    ELSE IF fd = -1 \/ oid = 0 THEN Out(RUndef("descriptor bound"), St)
    ELSE LET St1 == [St EXCEPT !.node[w.p] = NodeReg(<<>>, 438 & (511 - St.um))]
         IN Out(RFd(fd), NewFile(St1, c, w.p, fd, oid))
  ELSE \* the file exists
    LET n == St.node[w.p] IN
    IF excl THEN Out(RErr("EEXIST"), St)
    ELSE IF n.k = "lnk" THEN Out(RErr("ELOOP"), St)                \* only with O_NOFOLLOW
    ELSE IF "D" \in c.fl /\ n.k # "dir" THEN Out(RErr("ENOTDIR"), St)
    ELSE IF n.k = "dir" /\ (c.acc \in {"W", "RW"} \/ ("C" \in c.fl /\ "D" \notin c.fl))
      THEN Out(RErr("EISDIR"), St)
    ELSE IF n.k = "fifo" /\ c.acc = "RW" THEN Out(RUndef("O_RDWR on a FIFO"), St)
    ELSE IF n.k = "fifo" /\ "N" \in c.fl /\ c.acc = "W" /\ ~Readers(St, 0) THEN Out(RErr("ENXIO"), St)
    ELSE IF n.k = "fifo" /\ "N" \notin c.fl /\ c.acc = "R" /\ ~Writers(St, 0)
      THEN Out(RUndef("blocks: FIFO without writer"), St)
    ELSE IF n.k = "fifo" /\ "N" \notin c.fl /\ c.acc = "W" /\ ~Readers(St, 0)
      THEN Out(RUndef("blocks: FIFO without reader"), St)
    ELSE IF fd = -2 THEN Out(RErr("EMFILE"), St)              \* and nothing is truncated
    ELSE IF fd = -1 \/ oid = 0 THEN Out(RUndef("descriptor bound"), St)
    ELSE LET St1 == IF "T" \in c.fl /\ n.k = "reg" THEN [St EXCEPT !.node[w.p].data = <<>>] ELSE St
         IN Out(RFd(fd), NewFile(St1, c, w.p, fd, oid))

\* POSIX does not order error conditions: with no descriptor available AND
\* another reason to fail, which errno is reported is not determined
ApOpen(St, c) ==
  LET a == ApOpen0(St, c) IN
  IF LowestFree(St, 0) = -2 /\ a.r.k = "err" /\ a.r.s # "EMFILE"
    THEN Out(RUndef("no descriptor available and another error"), St)
  ELSE a

\* Close::close: "returns Ok(()) when the FD is already closed".
ApClose(St, c) ==
  IF ~IsOpen(St, c.fd) THEN Out(ROk, St)
  ELSE Out(ROk, GC([St EXCEPT !.fds[c.fd] = ClosedFd]))

\* fcntl(F_DUPFD / F_DUPFD_CLOEXEC)
ApDup(St, c) ==
  IF ~IsOpen(St, c.fd) /\ LimSet(St) /\ (c.min >= St.lim \/ LowestFree(St, c.min) = -2)
    THEN Out(RUndef("bad descriptor and no descriptor available"), St)   \* errors are not ordered
  ELSE IF ~IsOpen(St, c.fd) THEN Out(RErr("EBADF"), St)
  \* "[EINVAL] cmd is F_DUPFD and arg is ... greater than or equal to {OPEN_MAX}"
  ELSE IF LimSet(St) /\ c.min >= St.lim THEN Out(RErr("EINVAL"), St)
  ELSE LET fd == LowestFree(St, c.min) IN
    IF fd = -2 THEN Out(RErr("EMFILE"), St)
    ELSE IF fd = -1 THEN Out(RUndef("descriptor bound"), St)
    ELSE Out(RFd(fd), [St EXCEPT !.fds[fd] = [o |-> St.fds[c.fd].o, cx |-> c.cx]])

\* dup2: "If fildes is a valid file descriptor and is equal to fildes2, dup2()
\* shall return fildes2 without closing it."; FD_CLOEXEC of the copy is clear.
ApDup2(St, c) ==
  IF ~IsOpen(St, c.fd) THEN Out(RErr("EBADF"), St)
  ELSE IF c.fd = c.to THEN Out(RFd(c.to), St)
  \* "[EBADF] ... fildes2 is negative or greater than or equal to {OPEN_MAX}"
  ELSE IF LimSet(St) /\ c.to >= St.lim THEN Out(RErr("EBADF"), St)
  ELSE Out(RFd(c.to), GC([St EXCEPT !.fds[c.to] = [o |-> St.fds[c.fd].o, cx |-> FALSE]]))

\* pipe: the two lowest available descriptors; O_NONBLOCK and FD_CLOEXEC clear.
ApPipe(St, c) ==
  LET r   == LowestFree(St, 0)
      w   == IF r < 0 THEN r ELSE LowestFree(St, r + 1)
      o1  == FreeOfdId(St)
      o2  == IF o1 = 0 THEN 0
             ELSE LET free == {i \in OfdIds : St.ofd[i].t = "free" /\ i # o1}
                  IN IF free = {} THEN 0 ELSE CHOOSE i \in free : \A j \in free : i <= j
      q   == FreePipeId(St)
  IN IF r = -2 \/ w = -2 THEN Out(RErr("EMFILE"), St)           \* two are needed; none is kept
     ELSE IF r = -1 \/ w = -1 \/ o1 = 0 \/ o2 = 0 \/ q = 0 THEN Out(RUndef("descriptor bound"), St)
     ELSE Out(RPipe(r, w),
              [St EXCEPT !.ofd[o1] = [FreeOfd EXCEPT !.t = "pipe", !.pi = q, !.r = TRUE],
                         !.ofd[o2] = [FreeOfd EXCEPT !.t = "pipe", !.pi = q, !.w = TRUE],
                         !.fds[r] = [o |-> o1, cx |-> FALSE],
                         !.fds[w] = [o |-> o2, cx |-> FALSE],
                         !.pipe[q] = <<>>])

\* open_tmpfile: an anonymous regular file open for reading and writing.
ApTmp(St, c) ==
  LET fd == LowestFree(St, 0)  oid == FreeOfdId(St) IN
  IF fd = -2 THEN Out(RErr("EMFILE"), St)
  ELSE IF fd = -1 \/ oid = 0 THEN Out(RUndef("descriptor bound"), St)
  ELSE Out(RFd(fd), [St EXCEPT !.ofd[oid] = [FreeOfd EXCEPT !.t = "tmp", !.r = TRUE, !.w = TRUE],
                               !.fds[fd] = [o |-> oid, cx |-> FALSE]])

Take(seq, from, n) == SubSeq(seq, from + 1, IF from + n > Len(seq) THEN Len(seq) ELSE from + n)

ApRead(St, c) ==
  IF ~IsOpen(St, c.fd) THEN Out(RErr("EBADF"), St)
  ELSE LET oid == St.fds[c.fd].o  o == St.ofd[oid] IN
    IF o.t = "std" THEN Out(RUndef("standard descriptor"), St)
    ELSE IF ~o.r THEN Out(RErr("EBADF"), St)
    ELSE IF IsPipeOfd(St, o) THEN
      LET q == PipeOf(o)  buf == St.pipe[q] IN
      IF buf # <<>> THEN
        LET d == Take(buf, 0, c.n) IN
        Out(RData(d), [St EXCEPT !.pipe[q] = SubSeq(buf, Len(d) + 1, Len(buf))])
      ELSE IF ~Writers(St, q) THEN Out(RData(<<>>), St)                   \* end of file
      ELSE IF o.nb THEN Out(RErr("EAGAIN"), St)
      ELSE Out(RUndef("blocks: empty pipe with a writer"), St)
    ELSE IF o.t = "tmp" THEN
      LET d == Take(o.data, o.off, c.n) IN
      Out(RData(d), [St EXCEPT !.ofd[oid].off = @ + Len(d)])
    ELSE \* "file"
      LET n == St.node[o.path] IN
      IF n.k = "dir" THEN Out(RUndef("read on a directory: EISDIR is optional"), St)
      ELSE LET d == Take(n.data, o.off, c.n) IN
        Out(RData(d), [St EXCEPT !.ofd[oid].off = @ + Len(d)])

\* content after writing bytes at position pos (a hole reads as zero bytes)
Overwrite(old, pos, bytes) ==
  LET padded == IF pos > Len(old) THEN old \o [i \in 1 .. (pos - Len(old)) |-> 0] ELSE old
      endp   == pos + Len(bytes)
  IN SubSeq(padded, 1, pos) \o bytes \o SubSeq(padded, endp + 1, Len(padded))

ApWrite(St, c) ==
  IF ~IsOpen(St, c.fd) THEN Out(RErr("EBADF"), St)
  ELSE LET oid == St.fds[c.fd].o  o == St.ofd[oid]  n == Len(c.data) IN
    IF o.t = "std" THEN Out(RUndef("standard descriptor"), St)
    ELSE IF ~o.w THEN Out(RErr("EBADF"), St)
    ELSE IF IsPipeOfd(St, o) THEN
      LET q == PipeOf(o) IN
      IF ~Readers(St, q) THEN
        \* "[EPIPE] ... A SIGPIPE signal shall also be sent to the thread."
        LET g == Generate(St, "PIPE") IN
        IF g.und THEN Out(RUndef("blocked ignored signal"), St)
        ELSE IF ~g.s.alive THEN Out(RKilled("PIPE"), g.s)
        ELSE Out(RErr("EPIPE"), g.s)
      ELSE IF Len(St.pipe[q]) + n > MaxLen THEN Out(RUndef("pipe fill bound"), St)
      ELSE Out(RCnt(n), [St EXCEPT !.pipe[q] = @ \o c.data])
    ELSE IF o.t = "tmp" THEN
      IF o.off + n > MaxLen THEN Out(RUndef("length bound"), St)
      ELSE Out(RCnt(n), [St EXCEPT !.ofd[oid].data = Overwrite(@, o.off, c.data),
                                   !.ofd[oid].off = o.off + n])
    ELSE
      LET nd  == St.node[o.path]
          pos == IF o.app THEN Len(nd.data) ELSE o.off IN
      IF nd.k # "reg" THEN Out(RUndef("write on a non-regular file"), St)
      ELSE IF pos + n > MaxLen THEN Out(RUndef("length bound"), St)
      ELSE Out(RCnt(n), [St EXCEPT !.node[o.path].data = Overwrite(@, pos, c.data),
                                   !.ofd[oid].off = pos + n])

\* lseek(fd, off, whence)   whence in "SET", "CUR", "END"
ApSeek(St, c) ==
  IF ~IsOpen(St, c.fd) THEN Out(RErr("EBADF"), St)
  ELSE LET oid == St.fds[c.fd].o  o == St.ofd[oid] IN
    IF o.t = "std" THEN Out(RUndef("standard descriptor"), St)
    ELSE IF IsPipeOfd(St, o) THEN Out(RErr("ESPIPE"), St)
    ELSE IF o.t = "file" /\ St.node[o.path].k # "reg" THEN Out(RUndef("lseek on a directory"), St)
    ELSE LET len  == IF o.t = "tmp" THEN Len(o.data) ELSE Len(St.node[o.path].data)
             base == CASE c.wh = "SET" -> 0 [] c.wh = "CUR" -> o.off [] OTHER -> len
             new  == base + c.off
         IN IF new < 0 THEN Out(RErr("EINVAL"), St)
            ELSE IF new > MaxLen THEN Out(RUndef("length bound"), St)
            ELSE Out(ROff(new), [St EXCEPT !.ofd[oid].off = new])

ApGetFd(St, c) ==
  IF ~IsOpen(St, c.fd) THEN Out(RErr("EBADF"), St) ELSE Out(RFlag(St.fds[c.fd].cx), St)

ApSetFd(St, c) ==
  IF ~IsOpen(St, c.fd) THEN Out(RErr("EBADF"), St)
  ELSE Out(ROk, [St EXCEPT !.fds[c.fd].cx = c.cx])

\* fcntl(F_GETFL) & O_ACCMODE
ApAccess(St, c) ==
  IF ~IsOpen(St, c.fd) THEN Out(RErr("EBADF"), St)
  ELSE LET o == OfdOf(St, c.fd) IN
    IF o.t = "std" THEN Out(RUndef("standard descriptor"), St)
    ELSE Out(RAcc(IF o.r /\ o.w THEN "RW" ELSE IF o.r THEN "R" ELSE "W"), St)

\* get_and_set_nonblocking: fcntl(F_GETFL) then fcntl(F_SETFL) of O_NONBLOCK
ApSetNb(St, c) ==
  IF ~IsOpen(St, c.fd) THEN Out(RErr("EBADF"), St)
  ELSE LET oid == St.fds[c.fd].o  o == St.ofd[oid] IN
    IF o.t = "std" THEN Out(RUndef("standard descriptor"), St)
    ELSE Out(RFlag(o.nb), [St EXCEPT !.ofd[oid].nb = c.nb])

\* what stat() reports about a node: kind, size (regular files only) and the
\* permission bits (unspecified for symbolic links)
StatOf(n) == RStat(n.k, IF n.k = "reg" THEN Len(n.data) ELSE -1, IF n.k = "lnk" THEN -1 ELSE n.perm)

ApFstat(St, c) ==
  IF ~IsOpen(St, c.fd) THEN Out(RErr("EBADF"), St)
  ELSE LET o == OfdOf(St, c.fd) IN
    CASE o.t = "std"  -> Out(RUndef("standard descriptor"), St)
      [] o.t = "tmp"  -> Out(RStat("reg", Len(o.data), -1), St)
      [] o.t = "pipe" -> Out(RStat("fifo", -1, -1), St)
      [] OTHER        -> Out(StatOf(St.node[o.path]), St)

\* fstatat(AT_FDCWD, path, 0 / AT_SYMLINK_NOFOLLOW)
ApStatAt(St, c) ==
  LET w == Resolve(St, c.path, c.follow) IN
  CASE w.st \in {"ENOENT", "ENOTDIR", "ELOOP"} -> Out(RErr(w.st), St)
    [] w.st = "missing" -> Out(RErr("ENOENT"), St)
    [] w.st = "out"     -> Out(RUndef("outside the universe"), St)
    [] OTHER            -> Out(StatOf(St.node[w.p]), St)

\* setrlimit(RLIMIT_NOFILE, soft = n, hard unchanged) / getrlimit: open
\* descriptors at or above the new limit stay open
ApSetrlimit(St, c) == Out(ROk, [St EXCEPT !.lim = c.n])
ApGetrlimit(St, c) == IF LimSet(St) THEN Out(R("lim", St.lim, "", <<>>), St)
                      ELSE Out(RUndef("limit of the environment"), St)

ApUmask(St, c) == Out(RMode(St.um), [St EXCEPT !.um = c.m])

ApChdir(St, c) ==
  LET w == Resolve(St, c.path, TRUE) IN
  CASE w.st \in {"ENOENT", "ENOTDIR", "ELOOP"} -> Out(RErr(w.st), St)
    [] w.st = "missing" -> Out(RErr("ENOENT"), St)
    [] w.st = "out"     -> Out(RUndef("outside the universe"), St)
    [] OTHER -> IF St.node[w.p].k # "dir" THEN Out(RErr("ENOTDIR"), St)
                ELSE Out(ROk, [St EXCEPT !.cwd = w.p])

\* getcwd: "an absolute pathname ... shall contain no components that are dot
\* or dot-dot, or are symbolic links" - reported relative to the scratch root.
ApGetcwd(St, c) == Out(RCwd(St.cwd), St)

\* opendir + readdir to the end: the set of names (dot and dot-dot, whose
\* presence is implementation-defined, are dropped by the harness)
ApOpendir(St, c) ==
  LET w == Resolve(St, c.path, TRUE) IN
  \* opendir "may fail" with EMFILE when no descriptor is available
  IF LowestFree(St, 0) = -2 THEN Out(RUndef("opendir without a free descriptor"), St) ELSE
  CASE w.st \in {"ENOENT", "ENOTDIR", "ELOOP"} -> Out(RErr(w.st), St)
    [] w.st = "missing" -> Out(RErr("ENOENT"), St)
    [] w.st = "out"     -> Out(RUndef("outside the universe"), St)
    [] OTHER -> IF St.node[w.p].k # "dir" THEN Out(RErr("ENOTDIR"), St)
                ELSE Out(REnts({p[Len(p)] : p \in {q \in Universe : q # <<>> /\ Parent(q) = w.p
                                                                   /\ St.node[q].k # "none"}}), St)

\* sigaction(sig, disposition) -> previous disposition.  "Setting a signal
\* action to SIG_IGN for a signal that is pending shall cause the pending
\* signal to be discarded, whether or not it is blocked"; likewise SIG_DFL
\* for a signal whose default action is to ignore it (XSH 2.4.3).
ApSigaction(St, c) ==
  LET St1 == [St EXCEPT !.disp[c.sig] = c.d]
      St2 == IF Ignored(St1, c.sig) THEN [St1 EXCEPT !.pend = @ \ {c.sig}] ELSE St1
  IN Out(RDisp(St.disp[c.sig]), St2)

ApGetSigaction(St, c) == Out(RDisp(St.disp[c.sig]), St)

\* sigprocmask(how, set) -> previous mask.  "If there are any pending
\* unblocked signals after the call, at least one of those signals shall be
\* delivered before the call returns": with more than one the observable
\* outcome is not determined.
ApSigmask(St, c) ==
  LET m2  == CASE c.how = "ADD" -> St.mask \cup c.set
               [] c.how = "DEL" -> St.mask \ c.set
               [] OTHER         -> c.set
      due == St.pend \ m2
  IN IF Cardinality(due) > 1 THEN Out(RUndef("several pending signals unblocked"), St)
     ELSE IF due = {} THEN Out(RSigs(St.mask), [St EXCEPT !.mask = m2])
     ELSE LET sig == CHOOSE x \in due : TRUE
              St1 == Deliver([St EXCEPT !.mask = m2, !.pend = @ \ {sig}], sig)
          IN IF St1.alive THEN Out(RSigs(St.mask), St1) ELSE Out(RKilled(sig), St1)

\* kill(getpid(), sig) / raise(sig); sig = "0" is the null signal.
ApKill(St, c) ==
  IF c.sig = "0" THEN Out(ROk, St)
  ELSE LET g == Generate(St, c.sig) IN
    IF g.und THEN Out(RUndef("blocked ignored signal"), St)
    ELSE IF ~g.s.alive THEN Out(RKilled(c.sig), g.s)
    ELSE Out(ROk, g.s)

\* CaughtSignals::caught_signals: returns and clears the caught signals
ApCaught(St, c) == Out(RSigs(St.caught), [St EXCEPT !.caught = {}])

\* sigpending(): the signals that are blocked and pending
ApPending(St, c) == Out(RSigs(St.pend), St)

---------------------------------------------------------------------------
(* fork, _exit, waitpid (XSH fork, _Exit, wait).  One child at a time.  The *)
(* child is "a new process ... an exact copy of the calling process except *)
(* ...": its own process ID; "the child process shall have its own copy of *)
(* the parent's file descriptors, each [referring] to the same open file   *)
(* description"; "the set of signals pending for the child process shall   *)
(* be initialized to the empty set"; signal actions, signal mask, file     *)
(* mode creation mask, working directory and resource limits are among     *)
(* the attributes that are not listed as exceptions, hence inherited.  The  *)
(* parent's state does not change.                                         *)
(* CaughtSignals (a list in the memory of the process, not kernel state)   *)
(* is copied by a real fork with the rest of the memory; the shell has     *)
(* always collected it before it forks: a fork with uncollected caught     *)
(* signals is not predicted.                                               *)

ApFork(St, c) ==
  IF St.kid.st \notin {"none", "reaped"} THEN Out(RUndef("one child at a time"), St)
  ELSE IF St.caught # {} THEN Out(RUndef("fork with uncollected caught signals"), St)
  ELSE Out(ROk, [St EXCEPT !.kid = [NoKid EXCEPT !.st = "run", !.fds = St.fds, !.cwd = St.cwd, !.lim = St.lim,
                                                 !.um = St.um, !.disp = St.disp, !.mask = St.mask]])

\* Exchanges the roles of the two processes: the per-process fields of the
\* child become the current ones and the parent's are parked in kid (with
\* st = "run": the parent keeps its descriptors, see KidLive), so that every
\* Ap* operator applies unchanged to a call made by the child.
Swap(St) ==
  [St EXCEPT !.fds = St.kid.fds, !.cwd = St.kid.cwd, !.lim = St.kid.lim, !.um = St.kid.um, !.disp = St.kid.disp,
             !.mask = St.kid.mask, !.pend = St.kid.pend, !.caught = St.kid.caught,
             !.kid = [St.kid EXCEPT !.fds = St.fds, !.cwd = St.cwd, !.lim = St.lim, !.um = St.um, !.disp = St.disp,
                                    !.mask = St.mask, !.pend = St.pend, !.caught = St.caught]]

\* The child (current in the swapped state Sw) terminates: "all of the file
\* descriptors ... open in the calling process shall be closed"; it becomes
\* a zombie until the parent waits for it; "a SIGCHLD shall be sent to the
\* parent process".  Returns [und, s] like Generate, s with the parent current.
KidGone(Sw, st, code, sig) ==
  LET closed == GC([Sw EXCEPT !.fds = [x \in FdRange |-> ClosedFd]])
      back   == [Swap(closed) EXCEPT !.alive = TRUE, !.kid.st = st, !.kid.code = code, !.kid.sig = sig]
      g      == Generate(back, "CHLD")
  IN [und |-> g.und, s |-> g.s]

RECURSIVE Apply(_, _)

\* [op |-> "kid", c |-> call]: the call is made by the child; [op |-> "exit",
\* n |-> status] is _exit(n).  With SIGCHLD ignored explicitly no zombie is
\* left (XSI): not predicted.
ApKid(St, c) ==
  IF St.kid.st # "run" THEN Out(RUndef("no running child"), St)
  ELSE IF c.c.op \in {"fork", "kid", "wait"} THEN Out(RUndef("grandchildren are not modelled"), St)
  ELSE LET Sw == Swap(St) IN
    IF c.c.op = "exit" THEN
      LET t == KidGone(Sw, "exited", c.c.n, "") IN
      IF St.disp["CHLD"] = "I" THEN Out(RUndef("SIGCHLD ignored: no zombie"), St)
      ELSE IF t.und THEN Out(RUndef("blocked ignored signal"), St)
      ELSE Out(R("exited", c.c.n, "", <<>>), t.s)
    ELSE LET a == Apply(Sw, c.c) IN
      IF a.r.k = "undef" THEN Out(a.r, St)
      ELSE IF ~a.s.alive THEN
        LET t == KidGone(a.s, "signaled", 0, a.r.s) IN
        IF St.disp["CHLD"] = "I" THEN Out(RUndef("SIGCHLD ignored: no zombie"), St)
        ELSE IF t.und THEN Out(RUndef("blocked ignored signal"), St)
        ELSE Out(a.r, t.s)
      ELSE Out(a.r, Swap(a.s))

\* Wait::wait = waitpid(child, WNOHANG | ...): the changed state of the child,
\* reported once (the zombie is then gone)
ApWait(St, c) ==
  CASE St.kid.st \in {"none", "reaped"} -> Out(RErr("ECHILD"), St)
    [] St.kid.st = "run"    -> Out(R("nochange", 0, "", <<>>), St)
    [] St.kid.st = "exited" -> Out(R("exited", St.kid.code, "", <<>>), [St EXCEPT !.kid = Reaped])
    [] OTHER                -> Out(R("signaled", 0, St.kid.sig, <<>>), [St EXCEPT !.kid = Reaped])

\* [op |-> "killkid", sig |-> s]: kill(pid of the child, s) called by the
\* parent; s = "0" is the null signal, "KILL" is SIGKILL (it "cannot be caught
\* or ignored" and cannot be blocked: XBD signal.h, XSH sigprocmask), any other
\* s is a member of AllSigs.
\*  - The child runs: the signal is generated for it and handled by ITS
\*    actions and mask (Generate on the swapped state); a child that is
\*    terminated by it becomes a zombie "signaled" and SIGCHLD is sent to the
\*    parent, exactly as when it terminates by a call of its own (KidGone).
\*  - The child has terminated and has not been waited for: it is still
\*    within its lifetime (XBD 3.x Process Lifetime: "... after [termination]
\*    the process is inactive ... until its parent waits"), so the process ID
\*    names a process and kill() succeeds (XSH kill, RATIONALE: "Since the
\*    definition of process lifetime ... covers inactive processes, the
\*    [ESRCH] error as described is inappropriate in this case"); an inactive
\*    process takes no action on a signal and its status, once "made
\*    available to the parent" by _exit / by the terminating signal, is what
\*    wait reports: NO effect.
\*  - The child has been waited for: its lifetime has ended; "[ESRCH] No
\*    process or process group can be found corresponding to that specified
\*    by pid" (no other process is created in this universe, so the process ID
\*    has not been given to a new process).
\*  - Before the first fork there is no process ID to name: not predicted.
ApKillKid(St, c) ==
  CASE St.kid.st = "none"   -> Out(RUndef("no child yet"), St)
    [] St.kid.st = "reaped" -> Out(RErr("ESRCH"), St)
    [] St.kid.st \in {"exited", "signaled"} -> Out(ROk, St)
    [] OTHER ->
       IF c.sig = "0" THEN Out(ROk, St)
       ELSE LET Sw == Swap(St)
                g  == IF c.sig = "KILL" THEN [und |-> FALSE, s |-> [Sw EXCEPT !.alive = FALSE]]
                      ELSE Generate(Sw, c.sig)
            IN IF g.und THEN Out(RUndef("blocked ignored signal"), St)
               ELSE IF g.s.alive THEN Out(ROk, Swap(g.s))
               ELSE LET t == KidGone(g.s, "signaled", 0, c.sig) IN
                    IF St.disp["CHLD"] = "I" THEN Out(RUndef("SIGCHLD ignored: no zombie"), St)
                    ELSE IF t.und THEN Out(RUndef("blocked ignored signal"), St)
                    ELSE Out(ROk, t.s)

Apply(St, c) ==
  CASE c.op = "open"    -> ApOpen(St, c)
    [] c.op = "close"   -> ApClose(St, c)
    [] c.op = "dup"     -> ApDup(St, c)
    [] c.op = "dup2"    -> ApDup2(St, c)
    [] c.op = "pipe"    -> ApPipe(St, c)
    [] c.op = "tmp"     -> ApTmp(St, c)
    [] c.op = "read"    -> ApRead(St, c)
    [] c.op = "write"   -> ApWrite(St, c)
    [] c.op = "lseek"   -> ApSeek(St, c)
    [] c.op = "getfd"   -> ApGetFd(St, c)
    [] c.op = "setfd"   -> ApSetFd(St, c)
    [] c.op = "access"  -> ApAccess(St, c)
    [] c.op = "setnb"   -> ApSetNb(St, c)
    [] c.op = "fstat"   -> ApFstat(St, c)
    [] c.op = "statat"  -> ApStatAt(St, c)
    [] c.op = "umask"   -> ApUmask(St, c)
    [] c.op = "chdir"   -> ApChdir(St, c)
    [] c.op = "getcwd"  -> ApGetcwd(St, c)
    [] c.op = "opendir" -> ApOpendir(St, c)
    [] c.op = "sigaction"    -> ApSigaction(St, c)
    [] c.op = "getsigaction" -> ApGetSigaction(St, c)
    [] c.op = "sigmask" -> ApSigmask(St, c)
    [] c.op = "kill"    -> ApKill(St, c)
    [] c.op = "caught"  -> ApCaught(St, c)
    [] c.op = "setrlimit" -> ApSetrlimit(St, c)
    [] c.op = "getrlimit" -> ApGetrlimit(St, c)
    [] c.op = "pending" -> ApPending(St, c)
    [] c.op = "fork"    -> ApFork(St, c)
    [] c.op = "kid"     -> ApKid(St, c)
    [] c.op = "wait"    -> ApWait(St, c)
    [] c.op = "killkid" -> ApKillKid(St, c)
    [] c.op = "exit"    -> Out(RUndef("the process under test exits"), St)

---------------------------------------------------------------------------
(* Alphabets of the generator themes.  Every theme keeps the set of calls  *)
(* per state small enough for "every call in every reachable state".       *)

COpen(p, acc, fl) == [op |-> "open", path |-> p, acc |-> acc, fl |-> fl]
\* the flag sets the shell uses (yash-semantics/src/redir.rs, source, startup)
ShellModes == { <<"R", {}>>, <<"W", {"C", "T"}>>, <<"W", {"C", "A"}>>, <<"RW", {"C"}>>,
                <<"W", {"C", "X"}>>, <<"W", {}>>, <<"R", {"E"}>> }

\* descriptors worth addressing: the open ones above 2 plus one closed one
\* plus (where asked) one standard descriptor
FdArgs(St, std) ==
  LET open   == {x \in FdRange : x > 2 /\ St.fds[x].o # 0}
      closed == {x \in FdRange : x > 2 /\ St.fds[x].o = 0}
      one    == IF closed = {} THEN {} ELSE {CHOOSE x \in closed : \A y \in closed : x <= y}
  IN open \cup one \cup (IF std THEN {1} ELSE {})

SeekArgs == { <<"SET", 0>>, <<"SET", 2>>, <<"SET", 5>>, <<"CUR", -1>>, <<"CUR", 1>>,
              <<"END", 0>>, <<"END", -1>>, <<"END", -4>>, <<"END", 1>> }

CallsRW(St) ==
     { COpen(p, m[1], m[2]) : p \in { <<"f">>, <<"n">>, <<"l">>, <<"d">> }, m \in ShellModes }
  \cup { [op |-> "tmp"] }
  \cup { [op |-> "close", fd |-> x] : x \in FdArgs(St, FALSE) }
  \cup { [op |-> "read", fd |-> x, n |-> n] : x \in FdArgs(St, FALSE), n \in {2, 9} }
  \cup { [op |-> "write", fd |-> x, data |-> d] : x \in FdArgs(St, FALSE), d \in { <<5>>, <<6, 6>> } }
  \cup { [op |-> "lseek", fd |-> x, wh |-> a[1], off |-> a[2]] : x \in FdArgs(St, FALSE), a \in SeekArgs }
  \cup { [op |-> "fstat", fd |-> x] : x \in FdArgs(St, FALSE) }
  \cup { [op |-> "dup", fd |-> x, min |-> 3, cx |-> FALSE] : x \in FdArgs(St, FALSE) }

CallsFD(St) ==
     { COpen(<<"f">>, m[1], m[2]) : m \in { <<"R", {}>>, <<"R", {"E"}>>, <<"W", {"C", "A"}>> } }
  \cup { [op |-> "pipe"] }
  \cup { [op |-> "close", fd |-> x] : x \in FdArgs(St, TRUE) }
  \cup { [op |-> "dup", fd |-> x, min |-> m, cx |-> b] : x \in FdArgs(St, TRUE), m \in {0, 3, 5}, b \in BOOLEAN }
  \* the shell never duplicates a descriptor onto itself (redir.rs, pipeline.rs
  \* and command_subst.rs all test fd # target first): not in the alphabet
  \cup { c \in { [op |-> "dup2", fd |-> x, to |-> y] : x \in FdArgs(St, TRUE), y \in (FdRange \ {0, 2}) } : c.fd # c.to }
  \cup { [op |-> "getfd", fd |-> x] : x \in FdArgs(St, TRUE) }
  \cup { [op |-> "setfd", fd |-> x, cx |-> b] : x \in FdArgs(St, TRUE), b \in BOOLEAN }
  \cup { [op |-> "access", fd |-> x] : x \in FdArgs(St, FALSE) }
  \cup { [op |-> "setnb", fd |-> x, nb |-> b] : x \in FdArgs(St, FALSE), b \in BOOLEAN }

PathArgs == { <<"f">>, <<"d">>, <<"n">>, <<"l">>, <<"ld">>, <<"lx">>, <<"p">>, <<"d", "g">>, <<"ld", "g">>,
              <<"d", "n">>, <<"f", "x">>, <<"n", "x">>, <<".">>, <<"..">>, <<"..", "f">>, <<"d", "..", "f">>,
              <<"g">>, <<"/", "f">>, <<"/", "d">>, <<"/", "d", "g">>, <<>> }

CallsPath(St) ==
     { COpen(p, m[1], m[2]) : p \in PathArgs \ { <<"p">> },
                              m \in { <<"R", {}>>, <<"W", {"C", "T"}>>, <<"W", {"C", "X"}>>, <<"RW", {"C"}>> } }
  \cup { [op |-> "statat", path |-> p, follow |-> b] : p \in PathArgs, b \in BOOLEAN }
  \cup { [op |-> "chdir", path |-> p] : p \in PathArgs }
  \cup { [op |-> "opendir", path |-> p] : p \in PathArgs }
  \cup { [op |-> "getcwd"] }
  \cup { [op |-> "umask", m |-> m] : m \in {0, 63, 18} }             \* 000, 077, 022
  \cup { [op |-> "fstat", fd |-> x] : x \in FdArgs(St, FALSE) }
  \cup { [op |-> "close", fd |-> x] : x \in FdArgs(St, FALSE) }

\* file creation under a umask
CallsMode(St) ==
     { COpen(p, m[1], m[2]) : p \in { <<"n">>, <<"d", "n">>, <<"lx">>, <<"f">> },
                              m \in { <<"W", {"C", "T"}>>, <<"W", {"C", "X"}>>, <<"RW", {"C"}>>, <<"W", {"C", "A"}>> } }
  \cup { [op |-> "umask", m |-> m] : m \in {0, 63, 23, 18} }         \* 000, 077, 027, 022
  \cup { [op |-> "statat", path |-> p, follow |-> TRUE] : p \in { <<"n">>, <<"d", "n">>, <<"f">> } }
  \cup { [op |-> "fstat", fd |-> x] : x \in FdArgs(St, FALSE) }
  \cup { [op |-> "chdir", path |-> <<"d">>] }
  \cup { [op |-> "close", fd |-> x] : x \in FdArgs(St, FALSE) }

\* O_APPEND against truncation through another open of the same file: "If
\* the O_APPEND flag is set, the file offset shall be set to the end of the
\* file prior to each write" (XSH write) - the end at THAT time
CallsApp(St) ==
     { COpen(<<"f">>, m[1], m[2]) : m \in { <<"W", {"C", "A"}>>, <<"W", {"C", "T"}>>, <<"R", {}>> } }
  \cup { [op |-> "write", fd |-> x, data |-> d] : x \in FdArgs(St, FALSE), d \in { <<5>>, <<6, 6>> } }
  \cup { [op |-> "fstat", fd |-> x] : x \in FdArgs(St, FALSE) }
  \cup { [op |-> "read", fd |-> x, n |-> 9] : x \in FdArgs(St, FALSE) }
  \cup { [op |-> "lseek", fd |-> x, wh |-> "SET", off |-> 0] : x \in FdArgs(St, FALSE) }
  \cup { [op |-> "close", fd |-> x] : x \in FdArgs(St, FALSE) }

\* descriptor allocation under a lowered RLIMIT_NOFILE
CallsLim(St) ==
     { [op |-> "setrlimit", n |-> n] : n \in {3, 4, 5} }
  \cup { [op |-> "getrlimit"], [op |-> "pipe"], [op |-> "tmp"], [op |-> "opendir", path |-> <<"d">>],
         COpen(<<"f">>, "R", {}), COpen(<<"n">>, "W", {"C", "T"}), COpen(<<"f">>, "W", {"C", "T"}), COpen(<<"n">>, "R", {}) }
  \cup { [op |-> "dup", fd |-> x, min |-> m, cx |-> FALSE] : x \in FdArgs(St, TRUE), m \in {0, 3, 5} }
  \cup { c \in { [op |-> "dup2", fd |-> x, to |-> y] : x \in FdArgs(St, TRUE), y \in 3 .. MaxFd } : c.fd # c.to }
  \cup { [op |-> "close", fd |-> x] : x \in FdArgs(St, FALSE) }

CallsPipe(St) ==
     { [op |-> "pipe"] }
  \cup { COpen(<<"p">>, m[1], m[2]) : m \in { <<"R", {"N"}>>, <<"W", {"N"}>>, <<"R", {}>>, <<"W", {}>>, <<"W", {"C", "T"}>> } }
  \cup { [op |-> "close", fd |-> x] : x \in FdArgs(St, FALSE) }
  \cup { [op |-> "read", fd |-> x, n |-> n] : x \in FdArgs(St, FALSE), n \in {1, 9} }
  \cup { [op |-> "write", fd |-> x, data |-> d] : x \in FdArgs(St, FALSE), d \in { <<5>>, <<6, 6>> } }
  \cup { [op |-> "setnb", fd |-> x, nb |-> b] : x \in FdArgs(St, FALSE), b \in BOOLEAN }
  \cup { [op |-> "lseek", fd |-> x, wh |-> "SET", off |-> 0] : x \in FdArgs(St, FALSE) }
  \cup { [op |-> "fstat", fd |-> x] : x \in FdArgs(St, FALSE) }
  \cup { [op |-> "access", fd |-> x] : x \in FdArgs(St, FALSE) }
  \cup { [op |-> "dup", fd |-> x, min |-> 3, cx |-> FALSE] : x \in FdArgs(St, FALSE) }
  \cup { [op |-> "sigaction", sig |-> "PIPE", d |-> d] : d \in {"I", "C", "D"} }
  \cup { [op |-> "caught"] }

CallsSig(St) ==
     { [op |-> "sigaction", sig |-> s, d |-> d] : s \in AllSigs, d \in {"D", "I", "C"} }
  \cup { [op |-> "getsigaction", sig |-> s] : s \in AllSigs }
  \cup { [op |-> "sigmask", how |-> hw, set |-> m] : hw \in {"ADD", "DEL", "SET"},
                                                    m \in { {}, {"USR1"}, {"CHLD"}, {"USR1", "PIPE"}, AllSigs } }
  \cup { [op |-> "kill", sig |-> s] : s \in AllSigs \cup {"0"} }
  \cup { [op |-> "caught"] }

\* a call made by the child
InKid(c) == [op |-> "kid", c |-> c]

\* Signals across fork: the child starts with the parent's actions and mask
\* and with NO pending signal; what either process does with its signals
\* afterwards does not touch the other; the end of the child is reported to
\* the parent by wait and SIGCHLD.  The parent signals the child while it
\* runs, after it has terminated and after it has been waited for.
KillKidCalls(St, sigs) == IF St.kid.st = "none" THEN {} ELSE { [op |-> "killkid", sig |-> s] : s \in sigs }
CallsFork(St) ==
     { [op |-> "sigaction", sig |-> "USR1", d |-> d] : d \in {"C", "D"} }
  \cup { [op |-> "sigaction", sig |-> "CHLD", d |-> "C"] }
  \cup { [op |-> "sigmask", how |-> hw, set |-> {"USR1"}] : hw \in {"ADD", "DEL"} }
  \cup { [op |-> "kill", sig |-> "USR1"], [op |-> "pending"], [op |-> "caught"], [op |-> "wait"] }
  \cup KillKidCalls(St, {"0", "USR1", "KILL"})
  \cup (IF St.kid.st \in {"none", "reaped"} THEN { [op |-> "fork"] } ELSE {})
  \cup (IF St.kid.st # "run" THEN {} ELSE
        { InKid(c) : c \in   { [op |-> "sigmask", how |-> hw, set |-> {"USR1"}] : hw \in {"ADD", "DEL"} }
                          \cup { [op |-> "kill", sig |-> "USR1"], [op |-> "pending"], [op |-> "caught"],
                                 [op |-> "getsigaction", sig |-> "USR1"], [op |-> "sigaction", sig |-> "USR1", d |-> "C"],
                                 [op |-> "exit", n |-> 3] } })

\* Descriptors, working directory and umask across fork: the child's
\* descriptors refer to the SAME open file descriptions (offsets move for
\* both, closing in one process does not close in the other, FD_CLOEXEC is
\* copied); cwd and umask are copied and then independent.
ForkFdCalls(St) ==
     { COpen(<<"f">>, "R", {}), COpen(<<"f">>, "R", {"E"}) }
  \cup { [op |-> "read", fd |-> 3, n |-> 2], [op |-> "lseek", fd |-> 3, wh |-> "CUR", off |-> 0],
         [op |-> "close", fd |-> 3], [op |-> "getfd", fd |-> 3],
         [op |-> "chdir", path |-> <<"d">>], [op |-> "getcwd"], [op |-> "umask", m |-> 63] }
CallsForkFd(St) ==
     ForkFdCalls(St)
  \cup { [op |-> "wait"] }
  \cup KillKidCalls(St, {"USR1"})
  \cup (IF St.kid.st \in {"none", "reaped"} THEN { [op |-> "fork"] } ELSE {})
  \cup (IF St.kid.st # "run" THEN {} ELSE { InKid(c) : c \in ForkFdCalls(St) \cup { [op |-> "exit", n |-> 0] } })

Calls(St) ==
  IF ~St.alive THEN {}
  ELSE CASE Theme = "rw"   -> CallsRW(St)
         [] Theme = "fd"   -> CallsFD(St)
         [] Theme = "path" -> CallsPath(St)
         [] Theme = "mode" -> CallsMode(St)
         [] Theme = "app"  -> CallsApp(St)
         [] Theme = "lim"  -> CallsLim(St)
         [] Theme = "pipe" -> CallsPipe(St)
         [] Theme = "sig"  -> CallsSig(St)
         [] Theme = "fork" -> CallsFork(St)
         [] Theme = "forkfd" -> CallsForkFd(St)

---------------------------------------------------------------------------
(* Behaviour.  One action; which kinds of call and of result are exercised  *)
(* is measured from the emitted lines (lib/checks/c19.py).                 *)

Step ==
  \E c \in Calls(S) :
    LET a == Apply(S, c) IN
      /\ a.r.k # "undef"
      /\ S' = a.s
      /\ h' = Append(h, [c |-> c, r |-> a.r])

Init == S = Init0 /\ h = <<>>

Next == Step

Spec == Init /\ [][Next]_vars

Bounded == Len(h) <= MaxH

---------------------------------------------------------------------------
(* Invariants of the model itself (sanity of the specification).           *)

TypeOK ==
  /\ \A x \in FdRange : S.fds[x].o \in 0 .. MaxOfd
  /\ \A p \in Universe : Len(S.node[p].data) <= MaxLen
  /\ S.cwd \in Universe /\ S.node[S.cwd].k = "dir"
  /\ S.pend \subseteq S.mask                    \* a pending signal is a blocked one
  /\ S.um \in 0 .. 511
  /\ S.kid.st \in {"none", "run", "exited", "signaled", "reaped"}
  /\ S.kid.st = "none" => S.kid = NoKid
  /\ S.kid.st = "reaped" => S.kid = Reaped
  /\ S.kid.st = "exited" => S.kid.sig = ""
  /\ S.kid.st = "signaled" => S.kid.sig \in AllSigs \cup {"KILL"} /\ S.kid.code = 0
  /\ S.kid.pend \subseteq S.kid.mask
  /\ S.kid.st # "run" => \A x \in FdRange : S.kid.fds[x].o = 0      \* a terminated process holds no descriptor

\* every descriptor refers to a live open file description and every live
\* open file description is referred to by a descriptor
NoDanglingOfd ==
  /\ \A x \in FdRange : S.fds[x].o # 0 => S.ofd[S.fds[x].o].t # "free"
  /\ \A x \in FdRange : S.kid.fds[x].o # 0 => S.ofd[S.kid.fds[x].o].t # "free"
  /\ \A i \in OfdIds : S.ofd[i].t # "free" => \E x \in FdRange : S.fds[x].o = i \/ S.kid.fds[x].o = i

\* a file exists only inside an existing directory (creation never orphans)
TreeClosed == \A p \in Universe \ {<<>>} : S.node[p].k # "none" => S.node[Parent(p)].k = "dir"

\* an ignored signal is never pending (XSH 2.4.3, given that the generator
\* never raises an ignored signal while it is blocked)
NoIgnoredPending == /\ \A s \in S.pend : ~Ignored(S, s)
                    /\ \A s \in S.kid.pend : S.kid.disp[s] = "C" \/ (S.kid.disp[s] = "D" /\ ~DefIgn(s))

\* XSH fork: the child starts without pending signals, with the parent's
\* mask and actions, descriptors, working directory and umask; the parent
\* is unchanged (a law of the model: checked on every fork transition)
ForkLaw ==
  [][ (Len(h') = Len(h) + 1 /\ h'[Len(h')].c.op = "fork" /\ h'[Len(h')].r.k = "ok")
        => /\ S'.kid.st = "run" /\ S'.kid.pend = {} /\ S'.kid.caught = {}
           /\ S'.kid.mask = S.mask /\ S'.kid.disp = S.disp /\ S'.kid.fds = S.fds
           /\ S'.kid.cwd = S.cwd /\ S'.kid.um = S.um /\ S'.kid.lim = S.lim
           /\ [S' EXCEPT !.kid = S.kid] = S ]_vars

\* XSH kill / wait: a signal sent to the child changes nothing in the parent
\* but what SIGCHLD does to it; sent to a terminated child it changes nothing
\* at all (so that wait still reports the status the child terminated with),
\* whether the child has been waited for (ESRCH) or not (success); a child
\* that has been waited for stays so until the next fork
LastIs(op) == Len(h') = Len(h) + 1 /\ h'[Len(h')].c.op = op
KillKidLaw ==
  [][ /\ LastIs("killkid") =>
           /\ S.kid.st # "none"
           /\ S.kid.st \in {"exited", "signaled"} => h'[Len(h')].r = ROk /\ S' = S
           /\ S.kid.st = "reaped" => h'[Len(h')].r = RErr("ESRCH") /\ S' = S
           /\ S.kid.st = "run" => /\ h'[Len(h')].r = ROk
                                  /\ S'.kid.st \in {"run", "signaled"}
                                  /\ [S' EXCEPT !.kid = S.kid, !.pend = S.pend, !.caught = S.caught, !.ofd = S.ofd,
                                                 !.pipe = S.pipe] = S
                                  /\ S'.pend \ S.pend \subseteq {"CHLD"} /\ S'.caught \ S.caught \subseteq {"CHLD"}
      /\ LastIs("wait") /\ S.kid.st \in {"exited", "signaled"} =>
           /\ S'.kid = Reaped
           /\ h'[Len(h')].r = IF S.kid.st = "exited" THEN R("exited", S.kid.code, "", <<>>)
                                                      ELSE R("signaled", 0, S.kid.sig, <<>>)
      /\ S.kid.st = "reaped" /\ ~LastIs("fork") => S'.kid = Reaped ]_vars

---------------------------------------------------------------------------
(* P2 generator: one line per distinct state - the history that reaches it *)
(* and the result of every call of the alphabet in it.                     *)

\* what the call is aimed at (kind of file the path resolves to / the
\* descriptor refers to): only used to key reports
TargetOf(St, c) ==
  IF c.op \in {"open", "statat", "chdir", "opendir"} THEN
    LET follow == CASE c.op = "open"   -> ~("F" \in c.fl) /\ ~({"C", "X"} \subseteq c.fl)
                    [] c.op = "statat" -> c.follow
                    [] OTHER           -> TRUE
        w == Resolve(St, c.path, follow)
    IN IF w.st = "ok" THEN St.node[w.p].k ELSE w.st
  ELSE IF c.op \in {"close", "dup", "dup2", "read", "write", "lseek", "getfd", "setfd", "access", "setnb", "fstat"} THEN
    IF ~IsOpen(St, c.fd) THEN "closed"
    ELSE LET o == OfdOf(St, c.fd) IN
      IF o.t = "file" THEN St.node[o.path].k ELSE o.t
  ELSE IF c.op \in {"killkid", "wait"} THEN St.kid.st      \* what has become of the child
  ELSE "-"

\* Observation of the successor state after a call that changed the state
\* (distinct states are extended along ONE history each, so the effect of a
\* call must be looked at right after it): the sizes of the regular files by
\* absolute name and the offset of the descriptor the call used.
AllocOps == {"open", "dup", "dup2", "pipe", "tmp", "opendir"}
PostCalls(St2, c) ==
  << [op |-> "statat", path |-> <<"/", "f">>, follow |-> TRUE],
     [op |-> "statat", path |-> <<"/", "n">>, follow |-> TRUE] >>
  \o (IF "fd" \in DOMAIN c /\ IsOpen(St2, c.fd) THEN << [op |-> "lseek", fd |-> c.fd, wh |-> "CUR", off |-> 0] >> ELSE <<>>)
  \* after a call that allocates descriptors, successful or not: the table
  \o (IF c.op \in AllocOps THEN [i \in 1 .. (MaxFd - 2) |-> [op |-> "getfd", fd |-> i + 2]] ELSE <<>>)
  \* while a child runs: the pending signals, the working directory and the
  \* offset of descriptor 3 as both processes see them
  \o (IF St2.kid.st = "run"
      THEN << [op |-> "pending"], [op |-> "kid", c |-> [op |-> "pending"]], [op |-> "kid", c |-> [op |-> "getcwd"]],
              [op |-> "lseek", fd |-> 3, wh |-> "CUR", off |-> 0],
              [op |-> "kid", c |-> [op |-> "lseek", fd |-> 3, wh |-> "CUR", off |-> 0]] >>
      ELSE <<>>)
  \* after a signal sent to the child: what wait reports (the last observation:
  \* it consumes a zombie; every result is prescribed from the state St2)
  \o (IF c.op = "killkid" THEN << [op |-> "wait"] >> ELSE <<>>)

Post(St, c) ==
  LET a == Apply(St, c) IN
  IF a.r.k = "undef" \/ (a.s = St /\ c.op \notin AllocOps \cup {"killkid"}) \/ ~a.s.alive THEN <<>>
  ELSE LET pcs == PostCalls(a.s, c) IN [i \in 1 .. Len(pcs) |-> [c |-> pcs[i], r |-> Apply(a.s, pcs[i]).r]]

Fan == { [c |-> c, r |-> Apply(S, c).r, t |-> TargetOf(S, c), post |-> Post(S, c)] : c \in Calls(S) }

\* the initial tree, printed with the initial state (the harness builds it on
\* both systems)
TreeList == { [path |-> p, k |-> Tree0[p].k, data |-> Tree0[p].data, perm |-> Tree0[p].perm, to |-> Tree0[p].to]
              : p \in {q \in Universe : Tree0[q].k # "none" /\ q # <<>>} }

EmitState == PrintT(ToJson(IF h = <<>> THEN [h |-> h, fan |-> Fan, tree |-> TreeList, um |-> Init0.um]
                                       ELSE [h |-> h, fan |-> Fan]))

\* the same, but only for the states within the bound (which the VIEW makes
\* distinct): one line per distinct state reachable by <= MaxH calls
EmitBounded == Len(h) > MaxH \/ EmitState

=============================================================================
