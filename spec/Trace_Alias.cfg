SPECIFICATION TraceSpec
CONSTANTS
  NameSeq <- NameSeq3
  GlobalNames = {}
  LineFam = "l"
  Prune = FALSE
POSTCONDITION Accepted
CHECK_DEADLOCK FALSE
