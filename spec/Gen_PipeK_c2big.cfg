SPECIFICATION Spec
CONSTANTS
  PIPE_BUF = 2
  PIPE_SIZE = 4
  Level = "C"
  Actors = {1, 2}
  WSizes = {1, 2, 3, 5}
  RSizes = {1, 2, 5}
  MaxH = 8
  Spurious = TRUE
VIEW view
CONSTRAINT Bound
INVARIANT TypeOK
INVARIANT Emit
