SPECIFICATION Spec
CONSTANTS
  Fuel = 24
  TickLimit = 2
  Variant = ""
  K = 4
  Alphabet <- AlphaCase
  ItemAlphabet <- ItemsCase
  Opts <- OptsPlain
INVARIANT Emit
CHECK_DEADLOCK FALSE
