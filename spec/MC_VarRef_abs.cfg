SPECIFICATION Spec
CONSTANTS
  Names = {"x"}
  Vals = {"a"}
  MaxDepth = 3
  PosVals <- PosNone
  Thens = {"none", "assign", "export", "ro"}
INVARIANT TypeOK
INVARIANT ProjectionFaithful
INVARIANT AbstractionSound
INVARIANT EnvExact
INVARIANT ScopedOpsAreLocal
PROPERTY ReadOnlyNeverChanges
PROPERTY ReadOnlyVisible
