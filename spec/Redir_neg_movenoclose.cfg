SPECIFICATION Spec
CONSTANTS
  Cfg = "negdot"
  Bug = "movenoclose"
  Sim = TRUE
INVARIANT TypeOK
INVARIANT Conforms
