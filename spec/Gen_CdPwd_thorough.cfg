\* G01 enumeration, thorough: all trees, states within 2 successful cd commands, full fan
INIT Init
NEXT Next
VIEW View
CONSTANTS
  Depth = 2
  TreeIds = {"plain", "links", "up"}
  Level = "full"
INVARIANT Emit
