---------------------------- MODULE Trace_JobCtl ----------------------------
(***************************************************************************)
(* Validation of observed runs for G02: every record written by            *)
(* harness/g02 (a script, the observation after each of its commands, the  *)
(* outcome and the final process table) must be a behaviour of JobCtl:     *)
(* Verdict(rec) steps the SET of specification states compatible with the  *)
(* observations so far through StepCmd (membership where scheduling or the *)
(* documents leave a choice).  One line is printed for every record that   *)
(* is not accepted; validation continues with the next record.             *)
(***************************************************************************)
EXTENDS JobCtl, IOUtils

Rec == ndJsonDeserialize(IOEnv.TRACE)

VARIABLE l
tvars == <<l, S, h, rep, res>>

TraceInit == l = 1 /\ S = 0 /\ h = <<>> /\ rep = 0 /\ res = 0

TraceNext ==
  /\ l <= Len(Rec)
  /\ LET v == Verdict(Rec[l])
     IN IF v.v = "ok" THEN TRUE
        ELSE PrintT(ToJson([line |-> l, v |-> v.v, at |-> v.at, why |-> v.why]))
  /\ l' = l + 1
  /\ UNCHANGED <<S, h, rep, res>>

TraceSpec == TraceInit /\ [][TraceNext]_tvars
=============================================================================
