SPECIFICATION Spec
CONSTANT Variant = "spec"
INVARIANT Judge
CHECK_DEADLOCK FALSE
