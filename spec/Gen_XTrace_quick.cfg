SPECIFICATION Spec
CONSTANT Fams = {"fields", "ps4", "toggle", "redir", "compound", "verbose", "noexec", "errors", "envps4"}
CONSTANT Deep = 0
CONSTANT NegVariant = "spec"
INVARIANT Laws
INVARIANT Emit
