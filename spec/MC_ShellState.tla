--------------------------- MODULE MC_ShellState ---------------------------
(***************************************************************************)
(* C07 (ii), P2 generator + design check.  TLC explores the definition     *)
(* histories of several small catalogues (one per value of `cfg`) up to    *)
(* Depth operations and prints, for every distinct abstract state, the     *)
(* first history that reaches it; the harness replays each on a real       *)
(* shell.  On every state TLC also checks that the abstract listing of     *)
(* each printer, evaluated in the initial state, recreates the projection  *)
(* the printer is responsible for (ListingsOK).                            *)
(***************************************************************************)
EXTENDS ShellState, Json, TLC

CONSTANTS Configs, Depth, Rich

V_a == <<97>>                          \* a
V_empty == <<>>                        \*
V_sp == <<98,32,39,99>>                \* b 'c
V_all == <<36,120,34,92,96,10,35>>     \* $x"\`<newline>#
V_tilde == <<126>>                     \* ~
V_star == <<42,59>>                    \* *;
N_x == <<120>>                         \* x
N_y == <<121>>                         \* y
N_weird == <<97,32,98>>                \* a b
N_if == <<105,102>>                    \* if
N_f == <<102>>                         \* f
N_gh == <<103,32,104>>                 \* g h
N_tw == <<126,119>>                    \* ~w
N_semi == <<97,59,98>>                 \* a;b
N_bang == <<33>>                       \* !
N_dash == <<45,110>>                   \* -n
C_INT == <<73,78,84>>
C_TERM == <<84,69,82,77>>
C_USR1 == <<85,83,82,49>>
C_RTMIN1 == <<82,84,77,73,78,43,49>>       \* RTMIN+1
C_RTMAX == <<82,84,77,65,88>>                \* RTMAX
N_pf == <<121,118,95,112,102>>        \* yv_pf, the function whose body issues the printers
\* { probe 'a b' "c\"d\$e" f\ g; }
B_1 == <<123,32,112,114,111,98,101,32,39,97,32,98,39,32,34,99,92,34,100,92,36,101,34,32,102,92,32,103,59,32,125>>
\* (probe "$@" '' ~/x)
B_2 == <<40,112,114,111,98,101,32,34,36,64,34,32,39,39,32,126,47,120,41>>
\* if probe; then probe '}'; fi
B_3 == <<105,102,32,112,114,111,98,101,59,32,116,104,101,110,32,112,114,111,98,101,32,39,125,39,59,32,102,105>>
\* case $1 in (a\)b | 'c d') probe ;; esac
B_4 == <<99,97,115,101,32,36,49,32,105,110,32,40,97,92,41,98,32,124,32,39,99,32,100,39,41,32,112,114,111,98,101,32,59,59,32,101,115,97,99>>
\* { probe >'/tmp/x y' 2>&1; }
B_5 == <<123,32,112,114,111,98,101,32,62,39,47,116,109,112,47,120,32,121,39,32,50,62,38,49,59,32,125>>

Values == IF Rich THEN {V_a, V_empty, V_sp, V_all, V_tilde, V_star} ELSE {V_a, V_empty, V_sp, V_all}
Arrays == IF Rich THEN {<<>>, <<V_a, V_sp>>, <<V_all, V_empty>>, <<V_tilde, V_star, V_a>>}
          ELSE {<<>>, <<V_a, V_sp>>, <<V_all, V_empty>>}
DeclValues == IF Rich THEN {V_a, V_sp, V_all, V_tilde} ELSE {V_sp, V_all}
VarNames == IF Rich THEN {N_x, N_y} ELSE {N_x}
DeclNames == IF Rich THEN {N_x, N_weird, N_tw, N_semi, N_dash} ELSE {N_x, N_weird}
AliasNames == IF Rich THEN {N_x, N_weird, N_if, N_bang, N_tw, N_dash, <<>>} ELSE {N_x, N_weird, N_if, N_tw}
FuncNames == IF Rich THEN {N_f, N_if, N_gh, N_bang, N_dash} ELSE {N_f, N_if, N_gh}
Bodies == IF Rich THEN {B_1, B_2, B_3, B_4, B_5} ELSE {B_1, B_2, B_4}
Conds == IF Rich THEN {C_EXIT, C_INT, C_TERM, C_USR1, C_RTMIN1, C_RTMAX} ELSE {C_EXIT, C_INT, C_RTMIN1}
Masks == {0, 18, 23, 63, 127, 420, 511}

OpsVars ==
     {Op("assign", n, TRUE, <<v>>, 0) : n \in VarNames, v \in Values}
  \cup {Op("array", n, TRUE, a, 0) : n \in VarNames, a \in Arrays}
  \cup {Op(d, n, TRUE, <<v>>, 0) : d \in {"export", "readonly", "typeset"}, n \in DeclNames, v \in DeclValues}
  \cup {Op(d, n, FALSE, <<>>, 0) : d \in {"export", "readonly", "typeset"}, n \in DeclNames}
OpsAlias == {Op("alias", n, TRUE, <<v>>, 0) : n \in AliasNames, v \in Values}
OpsFunc == {Op("func", n, TRUE, <<b>>, 0) : n \in FuncNames, b \in Bodies}
OpsOpt == {Op("opt", o, b, <<>>, 0) : o \in Modifiable, b \in BOOLEAN}
OpsTrap == {Op("trap", c, TRUE, <<v>>, 0) : c \in Conds, v \in Values}
        \cup {Op("trap", c, FALSE, <<>>, 0) : c \in Conds}
(* every condition the system offers, under every name *)
OpsTrapAll == {Op("trap", c, TRUE, <<V_sp>>, 0) : c \in ConditionNames}
(* the printers issued from inside a function body: global definitions,    *)
(* then the call, then local variables (new names, and names that hide a   *)
(* global variable, also a read-only one)                                  *)
OpsFn ==
     {Op("readonly", N_x, TRUE, <<V_a>>, 0), Op("export", N_x, TRUE, <<V_all>>, 0),
      Op("readonly", N_y, FALSE, <<>>, 0),
      Op("enter", N_pf, TRUE, <<<<>>>>, 0)}
  \cup (IF Rich THEN {Op("assign", N_x, TRUE, <<V_sp>>, 0), Op("export", N_weird, TRUE, <<V_sp>>, 0),
                      Op("alias", N_weird, TRUE, <<V_all>>, 0), Op("trap", C_RTMIN1, TRUE, <<V_sp>>, 0),
                      Op("opt", O_glob, FALSE, <<>>, 0), Op("umask", <<>>, TRUE, <<>>, 63)}
         ELSE {Op("alias", N_weird, TRUE, <<V_all>>, 0), Op("trap", C_RTMIN1, TRUE, <<V_sp>>, 0)})
  \cup {Op("local", N_x, TRUE, <<V_all>>, m) : m \in 0..3}
  \cup {Op("local", N_x, FALSE, <<>>, 0), Op("local", N_y, TRUE, <<V_sp>>, 2),
        Op("local", N_weird, TRUE, <<V_sp>>, 0), Op("local", N_weird, TRUE, <<V_all>>, 3)}
OpsUmask == {Op("umask", <<>>, TRUE, <<>>, m) : m \in Masks}
(* a little of everything, to see the kinds interfere (allexport!) *)
OpsMixed ==
     {Op("assign", N_x, TRUE, <<V_sp>>, 0), Op("array", N_x, TRUE, <<V_all, V_empty>>, 0),
      Op("export", N_weird, TRUE, <<V_all>>, 0), Op("readonly", N_x, FALSE, <<>>, 0),
      Op("alias", N_weird, TRUE, <<V_all>>, 0), Op("func", N_f, TRUE, <<B_1>>, 0),
      Op("opt", O_allexport, TRUE, <<>>, 0), Op("opt", O_allexport, FALSE, <<>>, 0),
      Op("opt", O_glob, FALSE, <<>>, 0), Op("opt", O_unset, FALSE, <<>>, 0),
      Op("trap", C_INT, TRUE, <<V_sp>>, 0), Op("umask", <<>>, TRUE, <<>>, 63)}

OpsOf(c) == CASE c = "vars" -> OpsVars [] c = "alias" -> OpsAlias [] c = "func" -> OpsFunc
              [] c = "opt" -> OpsOpt [] c = "trap" -> OpsTrap [] c = "umask" -> OpsUmask
              [] c = "mixed" -> OpsMixed [] c = "trapall" -> OpsTrapAll [] c = "fn" -> OpsFn
DepthOf(c) == CASE c \in {"umask", "trapall"} -> 1 [] c = "fn" -> IF Rich THEN 4 ELSE Depth + 1 [] c = "opt" -> IF Depth > 3 THEN 3 ELSE 2 [] OTHER -> Depth

(* options.md: the options that are on when nothing is specified *)
DefaultOn == {O_clobber, O_exec, O_glob, O_log, O_unset}
Initial == [Empty EXCEPT !.opts = DefaultOn, !.mask = 18]

VARIABLES cfg, st, h
vars == <<cfg, st, h>>
View == <<cfg, st>>

Init == cfg \in Configs /\ st = Initial /\ h = <<>>
Next == /\ Len(h) < DepthOf(cfg)
        /\ \E o \in OpsOf(cfg) :
             /\ OpEnabled(st, o)
             /\ st' = Apply(st, o)
             /\ h' = Append(h, o)
        /\ UNCHANGED cfg
Spec == Init /\ [][Next]_vars

(* The abstract listing of every printer recreates what the printer lists. *)
ListingsOK == \A kind \in Kinds : Proj(kind, Eval(Initial, Listing(kind, st))) = Proj(kind, st)
(* the history explains the state *)
HistoryOK == AllEnabled(Initial, h) /\ ApplyAll(Initial, h) = st

Emit == PrintT(ToJson([c |-> cfg, h |-> h]))
=============================================================================
