----------------------------- MODULE MC_Fnmatch -----------------------------
(***************************************************************************)
(* P1 for C04: sanity theorems about the oracle Fnmatch.tla, checked by    *)
(* TLC on every pattern of a bounded pattern space (one state per pattern) *)
(* against every string of a bounded string domain, plus calibration       *)
(* examples (ASSUMEs) transcribed from the manual, from POSIX and from     *)
(* yash-cli/tests/scripted_test/fnmatch-p.sh.  A failure here is a defect  *)
(* of the specification (tool error), never a violation of the property.   *)
(***************************************************************************)
EXTENDS Fnmatch

CONSTANTS PNorm,    \* characters that may occur unquoted in a pattern
          PLit,     \* characters that may occur quoted
          PLen,     \* maximal pattern length
          SAlpha,   \* characters of the strings
          SLen      \* maximal string length

PChars == {Nc(c) : c \in PNorm} \cup {Lc(c) : c \in PLit}
Dom    == UNION {[1..k -> SAlpha] : k \in 0..SLen}

VARIABLE p
Init == p = <<>>
Next == Len(p) < PLen /\ \E c \in PChars : p' = Append(p, c)

Text(q) == [i \in 1..Len(q) |-> q[i].c]
Star == [t |-> "s"]

\* NOTE: every theorem binds the parse (and, where useful, the tabulated match
\* set MS) once in a LET: TLC evaluates a LET definition at most once.

\* a pattern without unquoted special characters denotes exactly itself
T_Literal ==
  LET P == Parse(p) IN
  (\A i \in 1..Len(p) : p[i].l \/ p[i].c \notin {"?", "*", "["})
     => P.un = {} /\ ~P.mc /\ \A s \in Dom : MatchesA(P.atoms, s) <=> s = Text(p)

\* quoting every character makes any pattern denote exactly its text
T_Quoted ==
  LET P == Parse([i \in 1..Len(p) |-> Lc(p[i].c)])
  IN P.un = {} /\ \A s \in Dom : MatchesA(P.atoms, s) <=> s = Text(p)

\* without an unquoted "]" no "[" opens a bracket expression
T_Unclosed ==
  LET P == Parse(p) IN
  (\A i \in 1..Len(p) : ~IsN(p, i, "]"))
     => P.un = {} /\ P.atoms = Parse([i \in 1..Len(p) |-> IF p[i].c = "[" THEN Lc("[") ELSE p[i]]).atoms

\* concatenation: s is denoted by A1 A2 iff it splits into parts denoted by A1 and A2
T_Concat ==
  LET P == Parse(p)  A == P.atoms IN
  P.un = {} => \A k \in 0..Len(A) :
     LET A1 == SubSeq(A, 1, k)  A2 == SubSeq(A, k + 1, Len(A)) IN
     \A s \in Dom :
          MatchesA(A, s) <=>
            \E m \in 0..Len(s) : MatchesA(A1, SubSeq(s, 1, m)) /\ MatchesA(A2, SubSeq(s, m + 1, Len(s)))

\* "*" denotes every string; "?" every one-character string
T_Wild ==
  /\ p = <<Nc("*")>> => \A s \in Dom : Matches(p, s)
  /\ p = <<Nc("?")>> => \A s \in Dom : Matches(p, s) <=> Len(s) = 1

\* a bracket expression denotes one character; "!" / "^" denote the set complement
T_Complement ==
  LET P == Parse(p)  A == P.atoms IN
  (P.un = {} /\ ~P.mc /\ Len(A) = 1 /\ A[1].t = "b") =>
     /\ \A s \in Dom : MatchesA(A, s) => Len(s) = 1
     /\ \A c \in SAlpha :
          MatchesA(A, <<c>>) # MatchesA(<<[A[1] EXCEPT !.neg = ~@]>>, <<c>>)
     /\ (IsN(p, 2, "!") \/ IsN(p, 2, "^")) = A[1].neg

\* ranges of a specified pattern are non-empty and inside ASCII
T_Ranges ==
  LET P == Parse(p)  A == P.atoms IN
  P.un = {} => \A n \in 1..Len(A) : A[n].t = "b" =>
           \A m \in 1..Len(A[n].items) :
              A[n].items[m].k = "r" =>
                 Code(A[n].items[m].lo) <= Code(A[n].items[m].hi) /\ Code(A[n].items[m].hi) < 128

\* find / rfind (as defined by FindG / RFindG over the tabulated match set MS):
\* results are matching ranges; shortest <= longest at the same place; first <= last;
\* unanchored search = "*" p "*"; whole-string search = matching
T_Find ==
  LET P == Parse(p)  A == P.atoms
      MS == {s \in Dom : MatchesA(A, s)}
      SS == {s \in Dom : MatchesA(<<Star>> \o A \o <<Star>>, s)}
  IN
  (P.un = {} /\ ~P.mc) => \A s \in Dom :
     LET Ok(i, j) == SubSeq(s, i + 1, j) \in MS
         n == Len(s)
     IN \A cfg \in Configs :
        LET f  == FindG(Ok, n, cfg)
            r  == RFindG(Ok, n, cfg)
            fl == FindG(Ok, n, [cfg EXCEPT !.sh = FALSE])
            fs == FindG(Ok, n, [cfg EXCEPT !.sh = TRUE])
        IN /\ (f = None) = (r = None)
           /\ f # None => /\ Ok(f[1], f[2]) /\ Ok(r[1], r[2])
                          /\ f[1] <= r[1]
                          /\ fs[1] = fl[1] /\ fs[2] <= fl[2]
                          /\ (cfg.ab => f[1] = 0 /\ r = f)
                          /\ (cfg.ae => f[2] = n /\ r[2] = n)
           /\ (~cfg.ab /\ ~cfg.ae) => ((f # None) <=> s \in SS)
           /\ (cfg.ab /\ cfg.ae) => ((f # None) <=> s \in MS)

\* FindA / RFindA are FindG / RFindG over the match set (longest strings only: cost)
T_FindDef ==
  LET P == Parse(p)  A == P.atoms
      MS == {s \in Dom : MatchesA(A, s)}
  IN
  (P.un = {} /\ ~P.mc) => \A s \in {s \in Dom : Len(s) = SLen} : \A cfg \in Configs :
     LET Ok(i, j) == SubSeq(s, i + 1, j) \in MS IN
     /\ FindA(A, s, cfg)  = FindG(Ok, Len(s), cfg)
     /\ RFindA(A, s, cfg) = RFindG(Ok, Len(s), cfg)
     /\ IsMatchA(A, s, cfg) = (FindG(Ok, Len(s), cfg) # None)

Drop(s, r) == IF r = None THEN s ELSE SubSeq(s, 1, r[1]) \o SubSeq(s, r[2] + 1, Len(s))

\* the four trim forms are the anchored searches (the rule trim.rs implements:
\* find for #, ## and %%, rfind for %)
T_Trim ==
  LET P == Parse(p)  A == P.atoms
      MS == {s \in Dom : MatchesA(A, s)}
  IN
  (P.un = {} /\ ~P.mc) => \A s \in Dom :
     LET Ok(i, j) == SubSeq(s, i + 1, j) \in MS
         n == Len(s)
     IN
     /\ TrimPrefixA(A, s, FALSE) = Drop(s, FindG(Ok, n, [ab |-> TRUE, ae |-> FALSE, sh |-> TRUE]))
     /\ TrimPrefixA(A, s, TRUE)  = Drop(s, FindG(Ok, n, [ab |-> TRUE, ae |-> FALSE, sh |-> FALSE]))
     /\ TrimSuffixA(A, s, TRUE)  = Drop(s, FindG(Ok, n, [ab |-> FALSE, ae |-> TRUE, sh |-> FALSE]))
     /\ TrimSuffixA(A, s, FALSE) = Drop(s, RFindG(Ok, n, [ab |-> FALSE, ae |-> TRUE, sh |-> TRUE]))
     /\ Len(TrimPrefixA(A, s, TRUE)) <= Len(TrimPrefixA(A, s, FALSE))
     /\ Len(TrimSuffixA(A, s, TRUE)) <= Len(TrimSuffixA(A, s, FALSE))

\* literal_period only removes strings with a leading period
T_Period ==
  LET P == Parse(p)  A == P.atoms IN
  P.un = {} => \A s \in Dom :
     /\ MatchesPeriodA(A, s) => MatchesA(A, s)
     /\ (Len(s) = 0 \/ s[1] # ".") => (MatchesPeriodA(A, s) <=> MatchesA(A, s))

\* case: the first matching item
T_Case ==
  LET P == Parse(p)  A == P.atoms IN
  P.un = {} => \A s \in Dom :
     LET hit == MatchesA(A, s) IN
     /\ CaseSelectA(s, <<<<A>>, <<<<Star>>>>>>) = IF hit THEN 1 ELSE 2
     /\ CaseSelectA(s, <<<<<<Star>>>>, <<A>>>>) = 1
     /\ CaseSelectA(s, <<<<A, A>>>>) = IF hit THEN 1 ELSE 0
     /\ CaseSelectA(s, <<>>) = 0

(***************************************************************************)
(* Calibration.                                                            *)
(***************************************************************************)
Pat(str)  == WithEscape(Explode(str))
Spec(str) == Specified(Pat(str))
M(pat, str) == Spec(pat) /\ Matches(Pat(pat), Explode(str))
NM(pat, str) == Spec(pat) /\ ~Matches(Pat(pat), Explode(str))
Unanch == [ab |-> FALSE, ae |-> FALSE, sh |-> FALSE]
F(pat, str, cfg) == FindA(Parse(Pat(pat)).atoms, Explode(str), cfg)
R(pat, str, cfg) == RFindA(Parse(Pat(pat)).atoms, Explode(str), cfg)

\* docs/src/patterns.md
ASSUME M("a", "a")
ASSUME M("a\\*b", "a*b") /\ NM("a\\*b", "aXb")
ASSUME M("[abc]", "a") /\ M("[abc]", "b") /\ M("[abc]", "c") /\ NM("[abc]", "d")
ASSUME M("[a-z]", "q") /\ NM("[a-z]", "Q")
ASSUME NM("[!abc]", "a") /\ M("[!abc]", "x") /\ NM("[^abc]", "c") /\ M("[^abc]", "!")
ASSUME M("??????", "Videos") /\ NM("??????", "Music")
ASSUME M("Do*", "Documents") /\ M("Do*", "Downloads") /\ NM("Do*", "Music")
ASSUME M("[MP]*", "Music") /\ M("[MP]*", "Pictures") /\ NM("[MP]*", "Videos")
ASSUME M("*[0-9]", "foo.bak.1") /\ NM("*[0-9]", "baz~")
ASSUME M("[[:upper:]]*", "Documents") /\ NM("[[:upper:]]*", "foo.bak.1")
ASSUME M("*[[:digit:]~]", "bar.bak.3") /\ M("*[[:digit:]~]", "baz~") /\ NM("*[[:digit:]~]", "Music")
\* yash-fnmatch doc comments
ASSUME F("r*g", "string", Unanch) = <<2, 6>>
ASSUME F("in", "begin", Unanch) # None /\ F("in", "begin", [Unanch EXCEPT !.ab = TRUE]) = None
ASSUME F("mat", "match", Unanch) # None /\ F("mat", "match", [Unanch EXCEPT !.ae = TRUE]) = None
ASSUME F("a*a", "banana", Unanch) = <<1, 6>> /\ F("a*a", "banana", [Unanch EXCEPT !.sh = TRUE]) = <<1, 4>>
ASSUME MatchesA(Parse(Pat("*.txt")).atoms, Explode(".foo.txt"))
       /\ ~MatchesPeriodA(Parse(Pat("*.txt")).atoms, Explode(".foo.txt"))
       /\ MatchesPeriodA(Parse(Pat(".*.txt")).atoms, Explode(".foo.txt"))
\* yash-cli/tests/scripted_test/fnmatch-p.sh
ASSUME M("\\a", "a") /\ NM("\\b", "a") /\ NM("a", "A")
ASSUME M("\\*", "*") /\ NM("\\*", "x") /\ M("\\\\", "\\") /\ NM("\\\\", "x")
ASSUME M("", "") /\ NM("?", "") /\ M("*", "")
ASSUME NM("a", "aa") /\ NM("aa", "a") /\ M("?*", "a") /\ M("*?", "a") /\ NM("??", "a") /\ M("**", "a")
ASSUME NM("?", "aa") /\ M("??", "aa") /\ M("?", "\\") /\ M("?", "'")
ASSUME M("[[:lower:]]", "a") /\ NM("[[:upper:]]", "a") /\ M("[[:alpha:]]", "a") /\ NM("[[:digit:]]", "a")
ASSUME M("[[:alnum:]]", "a") /\ NM("[[:punct:]]", "a") /\ M("[[:graph:]]", "a") /\ M("[[:print:]]", "a")
ASSUME NM("[[:cntrl:]]", "a") /\ NM("[[:blank:]]", "a") /\ NM("[[:space:]]", "a") /\ M("[[:xdigit:]]", "a")
ASSUME M("[[.a.]]", "a") /\ M("[0-2]", "1") /\ M("[[.0.]-[.2.]]", "1") /\ NM("[!a]", "a")
ASSUME NM("[!0-2]", "1") /\ M("[[=a=]]", "a")
ASSUME M("[\\.]", ".") /\ NM("[\\.]", "[") /\ NM("[\\.]", "\\") /\ NM("[\\.]", "]")
ASSUME M("[\\\".]", ".") /\ M("[\\\".]", "\"") /\ NM("[\\\".]", "\\")
ASSUME NM("\\[\\.\\]", ".") /\ NM("\\[.\\]", "[") /\ M("\\[.\\]", "[.]")
ASSUME M("[\\]]", "]") /\ NM("[\\]]", "[") /\ NM("[\\]]", "\\") /\ NM("[\\]]", ".")
\* POSIX XBD 9.3.5 (with "!" for "^"), XCU 2.14.1
ASSUME M("[-ac]", "-") /\ M("[ac-]", "-") /\ M("[-ac]", "c") /\ NM("[ac-]", "b")
ASSUME NM("[!-ac]", "-") /\ NM("[!ac-]", "a") /\ M("[!ac-]", "b")
ASSUME M("[%--]", "%") /\ M("[%--]", "-") /\ M("[%--]", "*") /\ NM("[%--]", ".")
ASSUME M("[--@]", "-") /\ M("[--@]", "@") /\ M("[--@]", "0") /\ NM("[--@]", "A")
ASSUME ~Spec("[a--]") /\ ~Spec("[a-m-o]")
ASSUME M("[][.-.]-0]", "]") /\ M("[][.-.]-0]", "-") /\ M("[][.-.]-0]", "0") /\ M("[][.-.]-0]", ".")
       /\ NM("[][.-.]-0]", "1") /\ NM("[][.-.]-0]", "[")
ASSUME M("[]a]", "]") /\ M("[!]a]", "b") /\ NM("[!]a]", "]")
ASSUME M("a[b", "a[b") /\ NM("a[b", "ab") /\ M("[", "[") /\ M("[a", "[a") /\ M("[]", "[]") /\ M("[!]", "[!]")
ASSUME M("[a\\]b]", "]") /\ M("[a\\]b]", "b") /\ M("\\[a]", "[a]") /\ NM("\\[a]", "a")
ASSUME ~Spec("[[:foo:]]") /\ ~Spec("[[:alpha:]-z]") /\ ~Spec("[z-a]") /\ ~Spec("[[.a]") /\ ~Spec("[[..]]")
ASSUME ~Spec("[[=a=]-z]") /\ Spec("[[.a") /\ M("[[.a", "[[.a")
\* the property's own example (DESIGN.md F4)
ASSUME M("[a[.-.]z]", "-") /\ NM("[a[.-.]z]", "m") /\ M("[a[.-.]z]", "z")
\* crate documentation: multi-character collating symbols match the sequence itself
ASSUME M("[[.ch.]x]", "ch") /\ M("[[.ch.]x]", "x") /\ NM("[[.ch.]x]", "c") /\ ~Spec("[![.ch.]]")
\* with_escape / without_escape
ASSUME WithEscape(Explode("a\\bc")) = <<Nc("a"), Lc("b"), Nc("c")>>
ASSUME WithoutEscape(Explode("a\\b")) = <<Nc("a"), Nc("\\"), Nc("b")>>
ASSUME TrailingBackslash(Explode("ab\\")) /\ ~TrailingBackslash(Explode("ab\\\\")) /\ ~TrailingBackslash(<<>>)
=============================================================================
