\* negative configuration: the wrong variant "async_no_block" must be refuted (law AsyncLaw)
SPECIFICATION Spec
CONSTANTS
  Variant = "async_no_block"
  Fams = {"fg", "async", "stop1", "tty", "nomon"}
  Cfgs = {"m", "mi", "-", "ml", "mib"}
  Enf = {TRUE}
ALIAS Brief
INVARIANT AsyncLaw
