SPECIFICATION Spec
CONSTANT Fams = {"term"}
CONSTANT Deep = 0
CONSTANT Variant = "interactive-exits-on-error"
INVARIANT Check
