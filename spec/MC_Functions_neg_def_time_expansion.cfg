\* negative configuration: the wrong variant "def_time_expansion" must be refuted by P_ObsFaithful
SPECIFICATION Spec
CONSTANTS
  MaxDepth = 4
  Variant = "def_time_expansion"
  Fams = {"vars"}
  LB = 1
  LM = 1
  Wide = {}
  Stepwise = TRUE
PROPERTY P_ObsFaithful
