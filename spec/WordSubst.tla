------------------------------ MODULE WordSubst ------------------------------
(***************************************************************************)
(* Command substitution and arithmetic expansion inside words (growth      *)
(* module G15), composed with the word expansion of Expand.tla (C01).      *)
(*                                                                         *)
(* Written from POSIX.1-2024 XCU 2.6.3 (command substitution), 2.6.4       *)
(* (arithmetic expansion), 2.2.3 (double quotes), 2.6.5 (field splitting), *)
(* 2.6.6 (pathname expansion), 2.7.4 (here-document), 2.9.1 (simple        *)
(* commands: a command without a command name), 2.8.1 (consequences of     *)
(* shell errors), 2.13 (subshell environment), `set -u`, and the manual    *)
(* docs/src/language/words/{command_substitution,arithmetic,quoting,       *)
(* field_splitting}.md, docs/src/arithmetic.md,                            *)
(* docs/src/language/commands/simple.md.                                   *)
(*                                                                         *)
(* New units of a word (in addition to those of Expand.tla):               *)
(*   [t |-> "cs", f, tight, esc, b]   command substitution of body b       *)
(*        f = "par": $(b)     tight: nothing between `$(` and a leading `(`*)
(*        f = "bq":  `b`      esc = "min"/"max": how much is escaped       *)
(*   [t |-> "bqraw", r]       ` put 'R' ` where R (a sequence of tokens:   *)
(*        a character or a backslash pair) is written as is                *)
(*   [t |-> "ar", e]          $((e)), e a sequence of units                *)
(*   [t |-> "sp"]             an unquoted blank between two words          *)
(* A body is a sequence of commands of a small language whose output the   *)
(* specification can compute:                                              *)
(*   [c |-> "put", ws]   writes the fields of the words ws, joined by one  *)
(*                       space, no newline (a probe built-in)              *)
(*   [c |-> "echo", ws]  the same followed by a newline                    *)
(*   [c |-> "asg", n, w] n=w                                               *)
(*   [c |-> "st", n]     a command with exit status n                      *)
(*   [c |-> "exit", n]   exit n                                            *)
(*   [c |-> "sub", b]    ( b )                                             *)
(*   [c |-> "nul"]       writes a NUL byte (2.6.3: unspecified -> open)    *)
(*                                                                         *)
(* 2.6.3: the substitution is replaced by the standard output of the       *)
(* commands run in a subshell environment, without the trailing newlines   *)
(* (only trailing, only newlines); the results "shall not be processed for *)
(* further tilde expansion, parameter expansion, command substitution, or  *)
(* arithmetic expansion"; they are subject to field splitting (2.6.5) and  *)
(* pathname expansion (2.6.6) unless the substitution is in double quotes. *)
(* In the backquoted form a backslash is removed only before $ ` \ (and,   *)
(* within double quotes, before " : 2.2.3), before the command is parsed.  *)
(* 2.6.4: the expression is expanded as in double quotes (a double quote   *)
(* is not special), then evaluated (Arith.tla); variable changes persist.  *)
(* 2.9.1: a command without a command name completes with the exit status *)
(* of the last command substitution performed, or zero.                    *)
(*                                                                         *)
(* Variant = "spec" is the specification; the other values name wrong      *)
(* variants used by the negative configurations (the laws of              *)
(* Gen_WordSubst must refute each of them).                                *)
(***************************************************************************)
EXTENDS Expand

CONSTANT Variant

Ar == INSTANCE Arith

WSp == <<[t |-> "sp"]>>
WCs(f, tight, esc, b) == <<[t |-> "cs", f |-> f, tight |-> tight, esc |-> esc, b |-> b]>>
WPar0(b) == WCs("par", FALSE, "min", b)          \* $( b )
WBq(b) == WCs("bq", FALSE, "min", b)             \* ` b `
WBqRaw(r) == <<[t |-> "bqraw", r |-> r]>>
WAr(e) == <<[t |-> "ar", e |-> e]>>

Put(ws) == [c |-> "put", ws |-> ws]
Echo(ws) == [c |-> "echo", ws |-> ws]
Asg(n, w) == [c |-> "asg", n |-> n, w |-> w]
St(n) == [c |-> "st", n |-> n]
Exit(n) == [c |-> "exit", n |-> n]
Sub(b) == [c |-> "sub", b |-> b]
Nul == [c |-> "nul"]

IsNew(u) == u.t \in {"cs", "ar", "bqraw"}

RECURSIVE Pure(_)
Pure(us) ==
  \A i \in DOMAIN us :
    LET u == us[i] IN
    /\ ~IsNew(u)
    /\ u.t = "dq" => Pure(u.u)
    /\ (u.t = "par" /\ u.m \in {"sw", "trim"}) => Pure(u.w)

---------------------------------------------------------------------------
(* The text of a word (2.3: `$(` up to the matching `)`; `$((` up to `))`; *)
(* a backquote up to the next backquote not preceded by a backslash).      *)
(* dq: the unit is lexically inside double quotes (or in a here-document,  *)
(* where the backslash behaves as inside double quotes, 2.7.4).            *)

BqSpecial(dq) == IF dq THEN {"$", "`", "\\", "\""} ELSE {"$", "`", "\\"}

(* escaping a command text for the backquoted form                         *)
BqEsc(t, esc, dq) ==
  Flatten([i \in DOMAIN t |->
     LET c == t[i] IN
     IF esc = "max" THEN (IF c \in BqSpecial(dq) THEN <<"\\", c>> ELSE <<c>>)
     ELSE IF c = "`" THEN <<"\\", "`">>
     ELSE IF c = "\\" /\ (i = Len(t) \/ t[i + 1] \in BqSpecial(dq)) THEN <<"\\", "\\">>
     ELSE <<c>>])

(* 2.6.3 / 2.2.3: what the shell removes before it parses the command      *)
RECURSIVE BqUnescFrom(_, _, _)
BqUnescFrom(t, i, dq) ==
  IF i > Len(t) THEN <<>>
  ELSE IF t[i] = "\\" /\ i < Len(t) /\
          (CASE Variant = "bq_any" -> TRUE
             [] Variant = "bq_nodq" -> t[i + 1] \in BqSpecial(FALSE)
             [] OTHER -> t[i + 1] \in BqSpecial(dq))
       THEN <<t[i + 1]>> \o BqUnescFrom(t, i + 2, dq)
       ELSE <<t[i]>> \o BqUnescFrom(t, i + 1, dq)
BqUnescape(t, dq) == BqUnescFrom(t, 1, dq)

RawText(r) == Flatten([i \in DOMAIN r |-> Chars(r[i])])

(* 2.6.3: "the search for the matching backquote shall be satisfied by the  *)
(* first unquoted non-escaped backquote": does the text hold one?           *)
RECURSIVE BareBackquote(_, _, _)
BareBackquote(t, i, dq) ==
  IF i > Len(t) THEN FALSE
  ELSE IF t[i] = "`" THEN TRUE
  ELSE IF t[i] = "\\" /\ i < Len(t) /\ t[i + 1] \in BqSpecial(dq) THEN BareBackquote(t, i + 2, dq)
  ELSE BareBackquote(t, i + 1, dq)

RECURSIVE WText(_, _), BodyText(_), CmdText(_), WordsText(_)

ParText(u, dq) ==
  CASE u.m = "none" -> Chars("${") \o Chars(u.p) \o <<"}">>
    [] u.m = "len" -> Chars("${#") \o Chars(u.p) \o <<"}">>
    [] u.m = "sw" -> Chars("${") \o Chars(u.p) \o (IF u.colon THEN <<":">> ELSE <<>>) \o <<u.act>>
                     \o WText(u.w, dq) \o <<"}">>
    [] u.m = "trim" -> Chars("${") \o Chars(u.p) \o <<u.side>> \o (IF u.long THEN <<u.side>> ELSE <<>>)
                       \o WText(u.w, FALSE) \o <<"}">>

CsText(u, dq) ==
  IF u.f = "par"
  THEN Chars("$(") \o (IF ~u.tight /\ u.b # <<>> /\ u.b[1].c = "sub" THEN <<" ">> ELSE <<>>)
       \o BodyText(u.b) \o <<")">>
  ELSE <<"`">> \o BqEsc(BodyText(u.b), u.esc, dq) \o <<"`">>

WText(us, dq) ==
  IF us = <<>> THEN <<>>
  ELSE LET u == Head(us)
           t == CASE u.t = "lit" -> <<u.c>>
                  [] u.t = "sp" -> <<" ">>
                  [] u.t = "bs" -> <<"\\", u.c>>
                  [] u.t = "sq" -> <<"'">> \o Chars(u.s) \o <<"'">>
                  [] u.t = "dq" -> <<"\"">> \o WText(u.u, TRUE) \o <<"\"">>
                  [] u.t = "par" -> ParText(u, dq)
                  [] u.t = "cs" -> CsText(u, dq)
                  [] u.t = "bqraw" -> Chars("`put '") \o RawText(u.r) \o Chars("'`")
                  [] u.t = "ar" -> Chars("$((") \o WText(u.e, TRUE) \o Chars("))")
       IN t \o WText(Tail(us), dq)

WordsText(ws) ==
  IF ws = <<>> THEN <<>> ELSE <<" ">> \o WText(Head(ws), FALSE) \o WordsText(Tail(ws))

CmdText(c) ==
  CASE c.c = "put" -> Chars("put") \o WordsText(c.ws)
    [] c.c = "echo" -> Chars("echo") \o WordsText(c.ws)
    [] c.c = "asg" -> Chars(c.n) \o <<"=">> \o WText(c.w, FALSE)
    [] c.c = "st" -> Chars("status ") \o Chars(c.n)
    [] c.c = "exit" -> Chars("exit ") \o Chars(c.n)
    [] c.c = "sub" -> <<"(">> \o BodyText(c.b) \o <<")">>
    [] c.c = "nul" -> Chars("putnul")

BodyText(b) ==
  IF b = <<>> THEN <<>>
  ELSE IF Len(b) = 1 THEN CmdText(b[1])
  ELSE CmdText(b[1]) \o Chars("; ") \o BodyText(Tail(b))

(* the text of the word in context ctx: inside a here-document everything  *)
(* is scanned as inside double quotes                                      *)
Text(ctx, w) == Str(WText(w, ctx \in {"here", "hereq"}))

---------------------------------------------------------------------------
(* 2.6.3, last paragraphs: "$((" ... "arithmetic expansion has precedence; *)
(* that is, the shell shall first determine whether it can parse the       *)
(* expansion as an arithmetic expansion and shall only parse the expansion *)
(* as a command substitution if it determines that it cannot".  For a      *)
(* substitution written $((b1)rest): if rest is not empty the first        *)
(* parenthesis closes before the end, the text cannot be an arithmetic     *)
(* expansion and POSIX settles it as a command substitution; $((b1)) is a  *)
(* syntactically possible arithmetic expansion whose validity depends on   *)
(* nested expansions the shell "need not evaluate": open.  With white      *)
(* space after `$(` there is no ambiguity.                                 *)
TightOpen(u) == u.f = "par" /\ u.tight /\ u.b # <<>> /\ u.b[1].c = "sub" /\ Len(u.b) = 1

(* the parentheses written in the expression itself must balance, or the   *)
(* text `$((...))` is not this arithmetic expansion (2.6.3, 2.6.4)          *)
RECURSIVE ParenOk(_, _, _)
ParenOk(e, i, d) ==
  IF i > Len(e) THEN d = 0
  ELSE IF e[i].t = "lit" /\ e[i].c = "(" THEN ParenOk(e, i + 1, d + 1)
  ELSE IF e[i].t = "lit" /\ e[i].c = ")" THEN d > 0 /\ ParenOk(e, i + 1, d - 1)
  ELSE ParenOk(e, i + 1, d)

(* Is the text of the units the text of these units?  (The guards that are *)
(* syntactic: the shell reads the whole word before it expands any part.)  *)
(*  - the parentheses of an arithmetic expression balance;                 *)
(*  - a raw backquote text holds no backquote that would end it;           *)
(*  - a backquoted command holds no backslash-newline (whether the line    *)
(*    continuation is removed before or after the command is extracted is  *)
(*    not settled).                                                        *)
HasBsNl(t) == \E i \in 1..(Len(t) - 1) : t[i] = "\\" /\ t[i + 1] = "\n"
RECURSIVE WellFormedW(_, _), WellFormedB(_)
WellFormedW(us, dq) ==
  \A i \in DOMAIN us :
    LET u == us[i] IN
    CASE u.t = "dq" -> WellFormedW(u.u, TRUE)
      [] u.t = "par" -> (IF u.m = "sw" THEN WellFormedW(u.w, dq) ELSE IF u.m = "trim" THEN WellFormedW(u.w, FALSE) ELSE TRUE)
      [] u.t = "ar" -> ParenOk(u.e, 1, 0) /\ WellFormedW(u.e, TRUE)
      [] u.t = "bqraw" -> ~BareBackquote(RawText(u.r), 1, dq) /\ ~HasBsNl(RawText(u.r))
      [] u.t = "cs" -> WellFormedB(u.b) /\ (u.f = "bq" => ~HasBsNl(BodyText(u.b)))
      [] OTHER -> TRUE
WellFormedB(b) ==
  \A i \in DOMAIN b :
    LET c == b[i] IN
    CASE c.c \in {"put", "echo"} -> \A j \in DOMAIN c.ws : WellFormedW(c.ws[j], FALSE)
      [] c.c = "asg" -> WellFormedW(c.w, FALSE)
      [] c.c = "sub" -> WellFormedB(c.b)
      [] OTHER -> TRUE

---------------------------------------------------------------------------
(* Arithmetic: from the expanded text to the value (Arith.tla).            *)
Digits == {"0", "1", "2", "3", "4", "5", "6", "7", "8", "9"}
Letters == {"a", "b", "c", "d", "e", "f", "g", "h", "i", "j", "k", "l", "m", "n", "o", "p", "q", "r", "s", "t",
            "u", "v", "w", "x", "y", "z", "A", "B", "C", "D", "E", "F", "G", "H", "I", "J", "K", "L", "M", "N",
            "O", "P", "Q", "R", "S", "T", "U", "V", "W", "X", "Y", "Z", "_"}
Ops3 == {"<<=", ">>="}
Ops2 == {"<<", ">>", "<=", ">=", "==", "!=", "&&", "||", "++", "--", "+=", "-=", "*=", "/=", "%=", "&=", "^=", "|="}
Ops1 == {"+", "-", "*", "/", "%", "<", ">", "=", "!", "~", "&", "^", "|", "?", ":", "(", ")"}
(* characters that no documented construct of an arithmetic expression     *)
(* contains (arithmetic.md "Quoting": `$((\$x))` is an error)              *)
ArBadChars == {"$", "`", "\\", "@", "#"}

RECURSIVE AlnumEnd(_, _)
AlnumEnd(cs, i) == IF i < Len(cs) /\ cs[i + 1] \in Digits \cup Letters THEN AlnumEnd(cs, i + 1) ELSE i

(* tokens; "#bad": a character that makes the expression invalid; "#open": *)
(* a character outside the documented language (possible extension)        *)
RECURSIVE ArToks(_, _)
ArToks(cs, i) ==
  IF i > Len(cs) THEN <<>>
  ELSE LET c == cs[i] IN
    IF c \in {" ", "\t", "\n"} THEN ArToks(cs, i + 1)
    ELSE IF c \in Digits \cup Letters
         THEN LET j == AlnumEnd(cs, i) IN <<Str(SubSeq(cs, i, j))>> \o ArToks(cs, j + 1)
    ELSE IF i + 2 <= Len(cs) /\ Str(SubSeq(cs, i, i + 2)) \in Ops3
         THEN <<Str(SubSeq(cs, i, i + 2))>> \o ArToks(cs, i + 3)
    ELSE IF i + 1 <= Len(cs) /\ Str(SubSeq(cs, i, i + 1)) \in Ops2
         THEN <<Str(SubSeq(cs, i, i + 1))>> \o ArToks(cs, i + 2)
    ELSE IF c \in Ops1 THEN <<c>> \o ArToks(cs, i + 1)
    ELSE IF c \in ArBadChars THEN <<"#bad">> \o ArToks(cs, i + 1)
    ELSE <<"#open">> \o ArToks(cs, i + 1)

FirstChar(s) == SubSeq(s, 1, 1)

(* leaves of a parsed tree *)
RECURSIVE Leaves(_)
Leaves(e) ==
  CASE e.k = "t" -> {e.t}
    [] e.k \in {"u", "p"} -> Leaves(e.a)
    [] e.k = "b" -> Leaves(e.l) \cup Leaves(e.r)
    [] e.k = "q" -> Leaves(e.c) \cup Leaves(e.t) \cup Leaves(e.e)

RECURSIVE ConvTree(_)
ConvTree(e) ==
  CASE e.k = "t" -> IF FirstChar(e.t) \in Digits
                    THEN Ar!RawConst(Ar!Mk(FALSE, Ar!ConstMag(Chars(e.t)).m), Chars(e.t))
                    ELSE Ar!Var(e.t)
    [] e.k = "u" -> Ar!Pre(e.op, ConvTree(e.a))
    [] e.k = "p" -> Ar!Post(e.op, ConvTree(e.a))
    [] e.k = "b" -> Ar!Bin(e.op, ConvTree(e.l), ConvTree(e.r))
    [] e.k = "q" -> Ar!Cond(ConvTree(e.c), ConvTree(e.t), ConvTree(e.e))

(* variables certainly read / possibly read by the evaluation *)
RECURSIVE MustRead(_), MayRead(_)
MustRead(e) ==
  CASE e.k = "c" -> {}
    [] e.k = "v" -> {e.n}
    [] e.k \in {"u", "p", "g"} -> MustRead(e.a)
    [] e.k = "b" -> IF e.op \in {"&&", "||"} THEN MustRead(e.l)
                    ELSE IF e.op = "=" /\ e.l.k = "v" THEN MustRead(e.r)
                    ELSE MustRead(e.l) \cup MustRead(e.r)
    [] e.k = "q" -> MustRead(e.c)
MayRead(e) ==
  CASE e.k = "c" -> {}
    [] e.k = "v" -> {e.n}
    [] e.k \in {"u", "p", "g"} -> MayRead(e.a)
    [] e.k = "b" -> IF e.op = "=" /\ e.l.k = "v" THEN MayRead(e.r) ELSE MayRead(e.l) \cup MayRead(e.r)
    [] e.k = "q" -> MayRead(e.c) \cup MayRead(e.t) \cup MayRead(e.e)

ArVars == {"x", "y"}
ArEnv(st) == [n \in ArVars |-> LET v == Lookup(n, st) IN IF v.set THEN Ar!Cell(Chars(v.v)) ELSE Ar!Unset]
ArBack(env, st) ==
  LET V(n) == IF env[n].set THEN Val(Str(env[n].s)) ELSE Unset
  IN [st EXCEPT !.x = V("x"), !.y = V("y")]

(* [k |-> "v"/"err"/"skip", v |-> decimal text, st]                        *)
ArithEval(cs, st) ==
  LET toks == ArToks(cs, 1)
      R(k, v, s) == [k |-> k, v |-> v, st |-> s]
      has(t) == \E i \in DOMAIN toks : toks[i] = t
  IN IF has("#open") THEN R("skip", <<>>, st)
     ELSE IF has("#bad") THEN R("err", <<>>, st)
     ELSE IF has("++") \/ has("--") THEN R("skip", <<>>, st)   \* not required by POSIX: `1++1`
     ELSE IF toks = <<>> THEN R("skip", <<>>, st)              \* the empty expression: not settled
     ELSE LET p == Ar!Parse(toks) IN
       IF ~p.ok THEN R("err", <<>>, st)
       ELSE LET lv == Leaves(p.e)
                consts == {t \in lv : FirstChar(t) \in Digits}
                names == lv \ consts
            IN IF \E t \in consts : ~Ar!ConstMag(Chars(t)).ok THEN R("err", <<>>, st)
               ELSE IF ~(names \subseteq ArVars) THEN R("skip", <<>>, st)
               ELSE LET tree == ConvTree(p.e)
                        S == Ar!Allowed(tree, ArEnv(st))
                        unset == {n \in ArVars : ~Lookup(n, st).set}
                    IN IF (\E o \in S : o.t = "u") \/ Cardinality(S) # 1 THEN R("skip", <<>>, st)
                       ELSE IF st.nounset /\ MustRead(tree) \cap unset # {} THEN R("err", <<>>, st)
                       ELSE IF st.nounset /\ MayRead(tree) \cap unset # {} THEN R("skip", <<>>, st)
                       ELSE LET o == CHOOSE o \in S : TRUE IN
                            IF o.t = "v"
                            THEN R("v", Ar!DecChars(o.v), IF Variant = "ar_discard" THEN st ELSE ArBack(o.env, st))
                            ELSE R("err", <<>>, st)

---------------------------------------------------------------------------
(* Pathname expansion (2.6.6) of one field against the fixed directory the *)
(* harness runs in: only `*` and `?` (as in Expand.tla's patterns); no     *)
(* name begins with a period.                                              *)
Files == <<"d1", "f1", "f2 x">>
HasGlobChar(f) == \E i \in DOMAIN f : f[i].k \in {"lit", "exp"} /\ f[i].c \in {"*", "?", "["}
GlobField(f) ==
  IF ~HasGlobChar(f) THEN [skip |-> FALSE, f |-> <<Str(Plain(RemoveQuotes(f)))>>]
  ELSE IF ~PatSupported(f) \/ (\E i \in DOMAIN f : f[i].c = "/") THEN [skip |-> TRUE, f |-> <<>>]
  ELSE LET pat == PatChars(f)
           M == SelectSeq(Files, LAMBDA n : PatMatch(pat, Chars(n)))
       IN [skip |-> FALSE, f |-> IF M = <<>> THEN <<Str(Plain(RemoveQuotes(f)))>> ELSE M]

RECURSIVE GlobAll(_)
GlobAll(F) ==
  IF F = <<>> THEN [skip |-> FALSE, f |-> <<>>]
  ELSE LET a == GlobField(Head(F))
           b == GlobAll(Tail(F))
       IN [skip |-> a.skip \/ b.skip, f |-> a.f \o b.f]

---------------------------------------------------------------------------
(* Expansion.  State: Expand.tla's state plus cs, the exit status of the   *)
(* last command substitution performed for the current command ("" none).  *)
(* Exit statuses are decimal strings; "nz": some non-zero status (the      *)
(* status of a subshell that died of an expansion error, 2.8.1);           *)
(* "open": not settled (a substitution that runs no command at all).       *)

RECURSIVE StripNL(_)
StripNL(cs) ==
  IF cs = <<>> THEN cs
  ELSE LET c == cs[Len(cs)] IN
       IF c = "\n" \/ (Variant = "strip_ws" /\ c \in {" ", "\t"})
       THEN (IF Variant = "strip_one" THEN SubSeq(cs, 1, Len(cs) - 1) ELSE StripNL(SubSeq(cs, 1, Len(cs) - 1)))
       ELSE cs

RECURSIVE JoinSp(_)
JoinSp(F) == IF F = <<>> THEN <<>>
             ELSE IF Len(F) = 1 THEN Chars(F[1])
             ELSE Chars(F[1]) \o <<" ">> \o JoinSp(Tail(F))

(* does the expansion of these units read $? *)
RECURSIVE MentionsQ(_)
MentionsQ(us) ==
  \E i \in DOMAIN us :
    LET u == us[i] IN
    \/ u.t = "par" /\ u.p = "?"
    \/ u.t = "par" /\ u.m \in {"sw", "trim"} /\ MentionsQ(u.w)
    \/ u.t = "dq" /\ MentionsQ(u.u)
    \/ u.t = "ar" /\ MentionsQ(u.e)

(* the unspecified "$@" case of Expand.tla anywhere in the units *)
RECURSIVE AnyAmb(_, _), BodyAmb(_, _)
AnyAmb(us, st) ==
  \E i \in DOMAIN us :
    LET u == us[i] IN
    \/ u.t = "dq" /\ (AmbCandidate(u.u, st) \/ AnyAmb(u.u, st))
    \/ u.t = "par" /\ u.m \in {"sw", "trim"} /\ AnyAmb(u.w, st)
    \/ u.t = "ar" /\ AnyAmb(u.e, st)
    \/ u.t = "cs" /\ BodyAmb(u.b, st)
BodyAmb(b, st) ==
  \E i \in DOMAIN b :
    LET c == b[i] IN
    \/ c.c \in {"put", "echo"} /\ \E j \in DOMAIN c.ws : AnyAmb(c.ws[j], st)
    \/ c.c = "asg" /\ AnyAmb(c.w, st)
    \/ c.c = "sub" /\ BodyAmb(c.b, st)

SkipR(st) == Err("skip", st, "")
WithCs(st, v) == [x |-> st.x, y |-> st.y, pos |-> st.pos, ifs |-> st.ifs, nounset |-> st.nounset, st |-> st.st, cs |-> v]

RECURSIVE WXUnits(_, _, _), WXFold(_, _, _, _), WXUnit(_, _, _),
          RunBody(_, _), RunCmds(_, _, _), RunCmd(_, _), WArgs(_, _, _), WordFields(_, _), OneStr(_, _)

WXUnits(us, st, dq) ==
  IF us = <<>> THEN Res(OneEmptyField, st)
  ELSE WXFold(us, 1, Res(ZeroFields, st), dq)

WXFold(us, i, acc, dq) ==
  IF i > Len(us) \/ acc.err # "" THEN acc
  ELSE LET r == WXUnit(us[i], acc.st, dq)
       IN WXFold(us, i + 1, [r EXCEPT !.ph = PhAppend(acc.ph, r.ph)], dq)

(* Expand.tla's XSwitch / XTrim with a word that contains new units *)
WXSwitch(u, st, dq) ==
  LET v == Lookup(u.p, st)
      vacant == ~v.set \/ (u.colon /\ v.v = "")
      value == Res(IF v.set THEN <<ACs(Chars(v.v), "exp")>> ELSE OneEmptyField, st)
      word == WXUnits(u.w, st, dq)
  IN CASE u.act = "+" -> IF vacant THEN Res(OneEmptyField, st)
                         ELSE [word EXCEPT !.ph = Soften(word.ph)]
       [] u.act = "-" -> IF vacant THEN [word EXCEPT !.ph = Soften(word.ph)] ELSE value
       [] u.act = "=" -> IF ~vacant THEN value
                         ELSE IF word.err # "" THEN word
                         ELSE IF ~IsVariable(u.p) THEN Err("nonassignable", word.st, "")
                         ELSE LET s == WordText(word)
                              IN Res(<<ACs(Chars(s), "exp")>>, Assign(u.p, s, word.st))
       [] u.act = "?" -> IF ~vacant THEN value
                         ELSE IF word.err # "" THEN word
                         ELSE Err("vacant", word.st, IF u.w = <<>> THEN "" ELSE WordText(word))

WXTrim(u, st) ==
  LET v == Lookup(u.p, st) IN
  IF ~v.set THEN (IF st.nounset THEN Err("unset", st, "") ELSE Res(OneEmptyField, st))
  ELSE LET r == WXUnits(u.w, st, FALSE) IN
       IF r.err # "" THEN r
       ELSE LET pf == JoinFields(r.ph, r.st.ifs) IN
            IF ~PatSupported(pf) THEN SkipR(r.st)
            ELSE Res(<<ACs(TrimValue(Chars(v.v), PatChars(pf), u.side, u.long), "exp")>>, r.st)

(* 2.6.3 *)
XCmdSubst(u, st) ==
  IF TightOpen(u) THEN SkipR(st)
  ELSE LET r == RunBody(u.b, st) IN
       IF r.err = "skip" THEN SkipR(st)
       ELSE LET st1 == IF Variant = "leak" THEN [st EXCEPT !.x = r.st.x, !.y = r.st.y] ELSE st
                cs == IF Variant = "status_first" /\ st.cs # "" THEN st.cs ELSE r.status
            IN Res(<<ACs(StripNL(r.out), "exp")>>, [st1 EXCEPT !.cs = cs])

(* 2.6.4 *)
XArith(u, st) ==
  IF ~ParenOk(u.e, 1, 0) THEN SkipR(st)
  ELSE IF \E i \in DOMAIN u.e : u.e[i].t \in {"sq", "dq", "sp"} \/ (u.e[i].t = "lit" /\ u.e[i].c \in {"\"", "'"})
                           \/ (u.e[i].t = "bs" /\ u.e[i].c = "\"")
  THEN SkipR(st)                      \* quotes inside the expression: not settled
  ELSE LET r == WXUnits(u.e, st, TRUE) IN
       IF r.err # "" THEN r
       ELSE IF Len(r.ph) # 1 THEN SkipR(r.st)
       ELSE LET a == ArithEval(Plain(RemoveQuotes(r.ph[1])), r.st) IN
            CASE a.k = "skip" -> SkipR(r.st)
              [] a.k = "err" -> Err("arith", r.st, "")
              [] a.k = "v" -> Res(<<ACs(a.v, IF Variant = "ar_quoted" THEN "qtd" ELSE "exp")>>, a.st)

WXUnit(u, st, dq) ==
  IF st.st \in {"nz", "open"} /\ MentionsQ(<<u>>) THEN SkipR(st)
  ELSE IF Pure(<<u>>) THEN XUnit(u, st, dq, FALSE)
  ELSE CASE u.t = "dq" ->
              IF dq THEN SkipR(st)
              ELSE LET r == WXUnits(u.u, st, TRUE) IN
                   IF r.err # "" THEN r
                   ELSE IF Variant = "dq_split" THEN r
                   ELSE Res([i \in DOMAIN r.ph |-> QuoteField(r.ph[i])], r.st)
         [] u.t = "par" ->
              IF u.p \in {"@", "*", "#"} THEN SkipR(st)
              ELSE IF u.m = "sw" THEN WXSwitch(u, st, dq) ELSE WXTrim(u, st)
         [] u.t = "cs" -> XCmdSubst(u, st)
         [] u.t = "bqraw" ->
              LET t == BqUnescape(RawText(u.r), dq) IN
              IF BareBackquote(RawText(u.r), 1, dq) THEN SkipR(st)      \* the text is not one substitution
              ELSE IF \E i \in DOMAIN t : t[i] = "'" THEN SkipR(st)
              ELSE IF dq /\ \E i \in DOMAIN u.r : u.r[i] = "\"" THEN SkipR(st)    \* an unescaped " : 2.2.3 undefined
              ELSE Res(<<ACs(StripNL(t), "exp")>>, [st EXCEPT !.cs = "0"])
         [] u.t = "ar" -> XArith(u, st)

(* the fields one word yields as an argument: expansion, field splitting   *)
(* with the IFS in force after the expansion, pathname expansion, quote    *)
(* removal.  [k, f, st]                                                    *)
WordFields(w, st) ==
  LET r == WXUnits(w, st, FALSE) IN
  IF r.err # "" THEN [k |-> r.err, f |-> <<>>, st |-> r.st]
  ELSE LET g == GlobAll(SplitFields(r.ph, IfsC(r.st)))
       IN IF g.skip THEN [k |-> "skip", f |-> <<>>, st |-> r.st]
          ELSE [k |-> "ok", f |-> g.f, st |-> r.st]

WArgs(ws, i, st) ==
  IF i > Len(ws) THEN [k |-> "ok", f |-> <<>>, st |-> st]
  ELSE LET a == WordFields(ws[i], st) IN
       IF a.k # "ok" THEN a
       ELSE LET b == WArgs(ws, i + 1, a.st) IN
            IF b.k # "ok" THEN b ELSE [k |-> "ok", f |-> a.f \o b.f, st |-> b.st]

(* the single string a word yields where no field splitting takes place *)
OneStr(w, st) ==
  LET r == WXUnits(w, st, FALSE) IN
  IF r.err # "" THEN [k |-> r.err, f |-> <<>>, st |-> r.st]
  ELSE IF Len(r.ph) # 1 THEN [k |-> "skip", f |-> <<>>, st |-> r.st]
  ELSE [k |-> "ok", f |-> <<Str(Plain(RemoveQuotes(r.ph[1])))>>, st |-> r.st]

(* 2.9.1: no command name: the status of the last substitution, or zero *)
NoNameStatus(st) ==
  IF Variant = "noname_zero" THEN "0" ELSE IF st.cs # "" THEN st.cs ELSE "0"

(* the commands of a body, run in a subshell environment (2.13): acc =     *)
(* [out, st, done, err]                                                    *)
RunCmd(c, acc) ==
  LET st0 == [acc.st EXCEPT !.cs = ""]
      Die == [acc EXCEPT !.done = TRUE, !.st = [st0 EXCEPT !.st = "nz"]]       \* 2.8.1: expansion error: shall exit
      SkipA == [acc EXCEPT !.done = TRUE, !.err = "skip"]
  IN CASE c.c \in {"put", "echo"} ->
            LET r == WArgs(c.ws, 1, st0) IN
            IF r.k = "skip" THEN SkipA
            ELSE IF r.k # "ok" THEN Die
            ELSE [acc EXCEPT !.out = acc.out \o JoinSp(r.f) \o (IF c.c = "echo" THEN <<"\n">> ELSE <<>>),
                             !.st = [r.st EXCEPT !.st = "0"]]
       [] c.c = "asg" ->
            LET r == OneStr(c.w, st0) IN
            IF r.k = "skip" THEN SkipA
            ELSE IF r.k # "ok" THEN Die
            ELSE [acc EXCEPT !.st = [Assign(c.n, r.f[1], r.st) EXCEPT !.st = NoNameStatus(r.st)]]
       [] c.c = "st" -> [acc EXCEPT !.st = [st0 EXCEPT !.st = c.n]]
       [] c.c = "exit" -> [acc EXCEPT !.done = TRUE, !.st = [st0 EXCEPT !.st = c.n]]
       [] c.c = "sub" ->
            LET r == RunBody(c.b, st0) IN
            IF r.err = "skip" THEN SkipA
            ELSE [acc EXCEPT !.out = acc.out \o r.out, !.st = [st0 EXCEPT !.st = r.status]]
       [] c.c = "nul" -> SkipA

RunCmds(b, i, acc) ==
  IF i > Len(b) \/ acc.done THEN acc ELSE RunCmds(b, i + 1, RunCmd(b[i], acc))

RunBody(b, st) ==
  LET a == RunCmds(b, 1, [out |-> <<>>, st |-> st, done |-> FALSE, err |-> ""])
  IN [out |-> a.out, status |-> IF b = <<>> THEN "open" ELSE a.st.st, err |-> a.err, st |-> a.st, done |-> a.done]

---------------------------------------------------------------------------
(* Contexts (the command the harness builds around the text of the word):  *)
(*   "arg"     probe W                          fields (several words: sp) *)
(*   "cmdname" W x1     (only when the first field is `probe`: the command *)
(*                      name comes from the expansion)   the other fields  *)
(*   "for"     for i in W; do probe "$i"; done  fields                     *)
(*   "assign"  z=W                              <<value>>, $? afterwards   *)
(*   "asgseq"  z=W y=a$x                        <<value>>; y sees W's      *)
(*                                              side effects (2.9.1)       *)
(*   "asgcs"   y=$(put b; status 5) z=W         <<value>>; W sees y = b;   *)
(*                                              $? from the last one       *)
(*   "export"  export z=W                       <<value>>, $? = 0          *)
(*   "noname"  W   (only when it yields no field)   $? afterwards          *)
(*   "case"    case W in (S) ...                <<string>>                 *)
(*   "pat"     case S in (W) ...                <<lit, Y/N, alt, Y/N>>     *)
(*   "redir"   >/r/W                            <<file name>>, $?          *)
(*   "here"    a here-document line (unquoted delimiter)   <<text>>        *)
(*   "hereq"   the same here-document on a command without a name: $?      *)
(* Outcome: [k |-> "ok"/"err"/"skip", f, x, y, ifs, q, sv]; q: the value   *)
(* of $? after the command ("" not compared, "nz" any non-zero); sv: the   *)
(* variables x, y, IFS after the command are compared.                     *)
Contexts == {"arg", "cmdname", "for", "assign", "asgseq", "asgcs", "export", "noname", "case", "pat", "redir", "here", "hereq"}

RECURSIVE SplitAtBlank(_, _, _)
SplitAtBlank(w, i, cur) ==
  IF i > Len(w) THEN (IF cur = <<>> THEN <<>> ELSE <<cur>>)
  ELSE IF w[i].t = "sp" THEN (IF cur = <<>> THEN <<>> ELSE <<cur>>) \o SplitAtBlank(w, i + 1, <<>>)
  ELSE SplitAtBlank(w, i + 1, Append(cur, w[i]))
HasBlank(w) == \E i \in DOMAIN w : w[i].t = "sp"

Out(k, f, st, q, sv) == [k |-> k, f |-> f, x |-> st.x, y |-> st.y, ifs |-> st.ifs, q |-> q, sv |-> sv]
SkipO(st) == Out("skip", <<>>, st, "", FALSE)
OfR(r, q, sv) ==      \* from a [k, f, st] result
  IF r.k = "skip" THEN SkipO(r.st)
  ELSE IF r.k # "ok" THEN Out("err", <<>>, r.st, "", FALSE)
  ELSE IF q = "open" THEN SkipO(r.st)
  ELSE Out("ok", r.f, r.st, q, sv)

Unglob(s) == Str(Flatten([i \in 1..Len(s) |->
                LET c == SubSeq(s, i, i) IN
                IF c = "*" THEN <<"z", "z">> ELSE IF c = "?" THEN <<"q">> ELSE <<c>>]))

(* a here-document line (2.7.4): parameter expansion, command substitution *)
(* and arithmetic expansion; quotes are ordinary characters; a backslash   *)
(* quotes only $ ` \ .  [k, t (chars), st]                                 *)
RECURSIVE HereChars(_, _)
HereChars(w, st) ==
  IF w = <<>> THEN [k |-> "ok", t |-> <<>>, st |-> st]
  ELSE LET u == Head(w)
           One(t, s) == LET r == HereChars(Tail(w), s) IN
                        IF r.k # "ok" THEN r ELSE [k |-> "ok", t |-> t \o r.t, st |-> r.st]
           Bad(k) == [k |-> k, t |-> <<>>, st |-> st]
       IN CASE u.t = "lit" -> One(<<u.c>>, st)
            [] u.t = "sp" -> One(<<" ">>, st)
            [] u.t = "bs" -> One(IF u.c \in {"$", "`", "\\"} THEN <<u.c>> ELSE <<"\\", u.c>>, st)
            [] u.t = "sq" -> IF \E i \in 1..Len(u.s) : SubSeq(u.s, i, i) \in {"$", "`", "\\"} THEN Bad("skip")
                             ELSE One(<<"'">> \o Chars(u.s) \o <<"'">>, st)
            [] u.t = "dq" -> LET r == HereChars(u.u, st) IN
                             IF r.k # "ok" THEN r ELSE One(<<"\"">> \o r.t \o <<"\"">>, r.st)
            [] u.t = "par" -> IF u.m # "none" \/ u.p \in {"@", "*"} THEN Bad("skip")
                              ELSE LET r == WXUnit(u, st, TRUE) IN
                                   IF r.err = "skip" THEN Bad("skip") ELSE IF r.err # "" THEN Bad("err")
                                   ELSE One(Plain(JoinFields(r.ph, r.st.ifs)), r.st)
            [] OTHER -> LET r == WXUnit(u, st, TRUE) IN       \* cs, bqraw, ar
                        IF r.err = "skip" THEN Bad("skip") ELSE IF r.err # "" THEN Bad("err")
                        ELSE One(Plain(JoinFields(r.ph, r.st.ifs)), r.st)

Outcome(ctx, w, st0) ==
  LET st == WithCs(st0, "") IN
  IF AnyAmb(w, st) \/ ~WellFormedW(w, ctx \in {"here", "hereq"}) THEN SkipO(st)
  ELSE CASE ctx \in {"arg", "for"} ->
         LET ws == SplitAtBlank(w, 1, <<>>) IN
         IF ws = <<>> THEN SkipO(st) ELSE OfR(WArgs(ws, 1, st), "", TRUE)
    [] ctx = "cmdname" ->
         LET ws == SplitAtBlank(w, 1, <<>>)
             r == WArgs(ws, 1, st)
         IN IF ws = <<>> THEN SkipO(st)
            ELSE IF r.k = "ok" /\ (r.f = <<>> \/ r.f[1] # "probe") THEN SkipO(st)
            ELSE OfR([r EXCEPT !.f = IF r.k = "ok" THEN Tail(r.f) \o <<"x1">> ELSE <<>>], "", TRUE)
    [] ctx = "noname" ->
         LET ws == SplitAtBlank(w, 1, <<>>)
             r == WArgs(ws, 1, st)
         IN IF ws = <<>> THEN SkipO(st)
            ELSE IF r.k = "ok" /\ r.f # <<>> THEN SkipO(st)       \* there is a command name
            ELSE OfR(r, NoNameStatus(r.st), TRUE)
    [] ctx \in {"assign", "export"} ->
         IF HasBlank(w) \/ w = <<>> THEN SkipO(st)
         ELSE LET r == OneStr(w, st) IN OfR(r, IF ctx = "export" THEN "0" ELSE NoNameStatus(r.st), TRUE)
    [] ctx = "asgseq" ->
         IF HasBlank(w) \/ w = <<>> THEN SkipO(st)
         ELSE LET r == OneStr(w, st)
                  xv == Lookup("x", r.st)
                  st2 == [r.st EXCEPT !.y = Val("a" \o (IF xv.set THEN xv.v ELSE ""))]
              IN IF r.k = "ok" /\ r.st.nounset /\ ~xv.set THEN Out("err", <<>>, r.st, "", FALSE)
                 ELSE OfR([r EXCEPT !.st = st2], NoNameStatus(r.st), TRUE)
    [] ctx = "asgcs" ->
         IF HasBlank(w) \/ w = <<>> THEN SkipO(st)
         ELSE LET r == OneStr(w, [st EXCEPT !.y = Val("b"), !.cs = "5"])
              IN OfR(r, NoNameStatus(r.st), TRUE)
    [] ctx = "case" ->
         IF HasBlank(w) \/ w = <<>> THEN SkipO(st) ELSE OfR(OneStr(w, st), "", FALSE)
    [] ctx = "pat" ->
         IF HasBlank(w) \/ w = <<>> THEN SkipO(st)
         ELSE LET x == WXUnits(w, st, FALSE) IN
              IF x.err = "skip" THEN SkipO(st)
              ELSE IF x.err # "" THEN Out("err", <<>>, x.st, "", FALSE)
              ELSE IF Len(x.ph) # 1 \/ ~PatSupported(x.ph[1]) THEN SkipO(st)
              ELSE LET lit == Str(Plain(RemoveQuotes(x.ph[1])))
                       alt == Unglob(lit)
                       pat == PatChars(x.ph[1])
                       m(s) == IF PatMatch(pat, Chars(s)) THEN "Y" ELSE "N"
                   IN Out("ok", <<lit, m(lit), alt, m(alt)>>, x.st, "", FALSE)
    [] ctx = "redir" ->
         IF HasBlank(w) \/ w = <<>> THEN SkipO(st)
         ELSE LET r == OneStr(w, st) IN
              IF r.k = "ok" /\ (r.f[1] \in {"", ".", ".."} \/ \E i \in 1..Len(r.f[1]) : SubSeq(r.f[1], i, i) = "/")
              THEN SkipO(st)
              ELSE IF r.k \notin {"ok", "skip"} THEN SkipO(st)      \* see "here" below
              ELSE OfR(r, NoNameStatus(r.st), FALSE)
    [] ctx = "hereq" ->
         LET r == HereChars(w, st) IN
         IF r.k # "ok" THEN SkipO(st)
         ELSE IF NoNameStatus(r.st) = "open" THEN SkipO(st)
         ELSE Out("ok", <<>>, r.st, NoNameStatus(r.st), FALSE)
    [] ctx = "here" ->
         LET r == HereChars(w, st) IN
         IF r.k = "skip" THEN SkipO(st)
         \* an expansion error inside a redirection: 2.8.1 lists "expansion error" (shall exit) and
         \* "redirection error" (shall not exit, for a regular utility); which one applies is not
         \* settled (termination.md has both rows too): open
         ELSE IF r.k # "ok" THEN SkipO(st)
         ELSE Out("ok", <<Str(r.t)>>, r.st, "", FALSE)

(* does an observation [k, f, x, y, ifs, q] agree with an outcome? *)
Agree(obs, out) ==
  IF out.k = "err" THEN obs.k = "err"
  ELSE /\ out.k = "ok" /\ obs.k = "ok" /\ obs.f = out.f
       /\ out.sv => (obs.x = out.x /\ obs.y = out.y /\ obs.ifs = out.ifs)
       /\ CASE out.q = "" -> TRUE
            [] out.q = "nz" -> obs.q # "0"
            [] OTHER -> obs.q = out.q
=============================================================================
