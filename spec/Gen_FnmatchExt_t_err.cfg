INIT Init
NEXT Next
VIEW view
CONSTANTS
  Variant = ""
  PNorm <- TokErr
  PLit <- NoChars
  PMacro <- MacErr
  PLen = 5
  SAlpha <- StrErr
  SLen = 1
  CfgSel = "cilp"
  Kind = "match"
INVARIANT Emit
