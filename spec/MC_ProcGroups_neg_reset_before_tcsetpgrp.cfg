\* negative configuration: the wrong variant "reset_before_tcsetpgrp" must be refuted (law TakeBack)
SPECIFICATION Spec
CONSTANTS
  Variant = "reset_before_tcsetpgrp"
  Fams = {"fg", "async", "stop1", "tty", "nomon"}
  Cfgs = {"m", "mi", "-", "ml", "mib"}
  Enf = {TRUE}
ALIAS Brief
INVARIANT TakeBack
