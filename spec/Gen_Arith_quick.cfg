INIT Init
NEXT Next
CONSTANTS
  Families = {1, 2, 3, 4, 5, 6, 7, 8, 9}
  NL = 3
  NB2 = 4
INVARIANT Emit
