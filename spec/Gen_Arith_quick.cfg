INIT Init
NEXT Next
CONSTANTS
  Families = {1, 2, 3, 4, 5, 6, 7, 8, 9, 10}
  NL = 3
  NB2 = 4
  NT = 3
INVARIANT Emit
