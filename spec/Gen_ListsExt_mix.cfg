SPECIFICATION Spec
CONSTANTS
  Fuel = 24
  TickLimit = 2
  Variant = ""
  K = 5
  Alphabet <- AlphaMix
  ItemAlphabet <- NoItems
  Opts <- OptsAll
INVARIANT Emit
CHECK_DEADLOCK FALSE
