---------------------------- MODULE Trace_Arith ----------------------------
(***************************************************************************)
(* P4 validation (implementation -> specification) for C03.                *)
(* Every record produced by harness/c03 from the real yash_arith::eval is  *)
(* judged against Arith.tla:                                               *)
(*   k = "tree": a (random, deep) expression tree, the text the harness    *)
(*       evaluated, the environment, and the observed outcome.  Accepted   *)
(*       iff the text is the specification's own unparsing of the tree     *)
(*       (so text and tree cannot drift apart) and the outcome is in       *)
(*       Allowed(tree, env).                                               *)
(*   k = "soup": arbitrary text; accepted iff the call returned (a value   *)
(*       or an error) - it did not crash.                                  *)
(* One state per record.  A rejected record is reported as                 *)
(*   <<"REJECT", index, reason>>   and validation continues, so one run    *)
(* reports every unmatched record.                                         *)
(***************************************************************************)
EXTENDS Arith, Json, IOUtils, TLC

Rec == ndJsonDeserialize(IOEnv.TRACE)

VARIABLE l
vars == <<l>>

TreeReason(r) ==
  IF Text(r.tree, r.sp) # r.text THEN "text"
  ELSE IF Admits(Allowed(r.tree, r.env), r.out) THEN ""
  \* not allowed; is it exactly what the named deviation (finding F3) predicts?
  ELSE IF DeviationApplies(r.env) /\ Admits(AllowedDecimalOnly(r.tree, r.env), r.out) THEN "outcome:decimal-only-variables"
  ELSE "outcome"

Reason(r) ==
  IF r.k = "soup" THEN (IF r.out.t = "p" THEN "crash" ELSE "")
  ELSE TreeReason(r)

Judge(i) ==
  LET why == Reason(Rec[i])
  IN IF why = "" THEN TRUE ELSE PrintT(<<"REJECT", i, why>>)

TraceInit == l = 1

TraceNext ==
  /\ l <= Len(Rec)
  /\ Judge(l)
  /\ l' = l + 1

TraceSpec == TraceInit /\ [][TraceNext]_vars

\* every record was judged
Complete == TLCGet("stats").diameter - 1 = Len(Rec)
=============================================================================
