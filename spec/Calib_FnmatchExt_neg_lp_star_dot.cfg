INIT Init
NEXT Next
CONSTANTS
  Variant = "lp_star_dot"
INVARIANT C_LpStarDot
