SPECIFICATION Spec
CONSTANTS
  MaxDepth = 4
  Variant = ""
  Fams = {"pos", "vars", "tabfn", "tabmain", "redir", "sub"}
  LB = 3
  LM = 1
  Wide = {}
  Stepwise = FALSE
INVARIANT Emit
