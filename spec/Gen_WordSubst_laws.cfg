SPECIFICATION Spec
CONSTANT Variant = "spec"
CONSTANT MaxLen = 1
CONSTANT PairCoreSlice = 0
CONSTANT PairNewSlice = 0
CONSTANT Wide = FALSE
CONSTANT TripleSlice = 0
CONSTANT RawMax = 0
CONSTANT DoEmit = FALSE
INVARIANT InvQuoted
INVARIANT InvNewlines
INVARIANT InvContained
INVARIANT InvBackquote
INVARIANT InvStatus
INVARIANT InvArith
INVARIANT InvPinned
INVARIANT InvSameValue
INVARIANT InvConservative
INVARIANT InvBqIdx
