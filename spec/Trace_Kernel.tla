---------------------------- MODULE Trace_Kernel ----------------------------
(***************************************************************************)
(* P3 validation for C19: sequences of system calls executed on            *)
(* VirtualSystem and on RealSystem (recorded by harness/c19: one "reset"   *)
(* record per sequence, then one record {c: call, r: observed result} per  *)
(* call) are checked call by call against Kernel!Apply.                    *)
(*                                                                         *)
(* A call for which the model has no prediction ("undef") is not judged    *)
(* and ends the judgement of its sequence (the model state is unknown      *)
(* afterwards); so does a mismatch, which is PRINTED - one JSON line       *)
(* {bad: index, exp: prescribed result, t: target} - instead of stopping   *)
(* TLC, so that one pass reports every deviating sequence.  The            *)
(* postcondition only checks that the whole trace was consumed.            *)
(***************************************************************************)
EXTENDS Kernel, IOUtils

Rec == ndJsonDeserialize(IOEnv.TRACE)

VARIABLES l,      \* index of the next record
          skip    \* the rest of the current sequence is not judged

tvars == <<S, h, l, skip>>

Range(f) == {f[i] : i \in DOMAIN f}

\* JSON arrays arrive as sequences; flag sets and signal sets are sets
Fix1(c) == CASE c.op = "open"    -> [c EXCEPT !.fl = Range(@)]
             [] c.op = "sigmask" -> [c EXCEPT !.set = Range(@)]
             [] OTHER            -> c
FixCall(c) == IF c.op = "kid" THEN [c EXCEPT !.c = Fix1(@)] ELSE Fix1(c)

\* does the observed result o conform to the prescribed result e?
\* (-1 in a stat result: not specified)
Match(e, o) ==
  /\ e.k = o.k
  /\ CASE e.k = "stat" -> /\ e.s = o.s
                          /\ (e.n = -1 \/ e.n = o.n)
                          /\ (e.d[1] = -1 \/ e.d[1] = o.d[1])
       [] e.k \in {"sigs", "ents"} -> e.d = Range(o.d)
       [] OTHER -> e.n = o.n /\ e.s = o.s /\ e.d = o.d

TraceInit == S = Init0 /\ h = <<>> /\ l = 1 /\ skip = FALSE

TraceNext ==
  /\ l <= Len(Rec)
  /\ l' = l + 1
  /\ h' = h
  /\ LET rec == Rec[l] IN
     IF rec.ev = "reset" THEN S' = Init0 /\ skip' = FALSE
     ELSE IF skip THEN UNCHANGED <<S, skip>>
     ELSE LET c == FixCall(rec.c)
              a == Apply(S, c)
          IN IF a.r.k = "undef"
               THEN /\ PrintT(ToJson([undef |-> l, why |-> a.r.s]))
                    /\ S' = S /\ skip' = TRUE
             ELSE IF Match(a.r, rec.r) THEN S' = a.s /\ skip' = FALSE
             ELSE /\ PrintT(ToJson([bad |-> l, exp |-> a.r, t |-> TargetOf(S, c)]))
                  /\ S' = S /\ skip' = TRUE

TraceSpec == TraceInit /\ [][TraceNext]_tvars

Consumed ==
  LET d == TLCGet("stats").diameter
  IN IF d - 1 = Len(Rec) THEN TRUE
     ELSE Print(<<"REJECT", d, ToJson(Rec[d])>>, FALSE)
=============================================================================
