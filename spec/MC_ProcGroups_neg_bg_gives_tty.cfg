\* negative configuration: the wrong variant "bg_gives_tty" must be refuted (law TakeBack)
SPECIFICATION Spec
CONSTANTS
  Variant = "bg_gives_tty"
  Fams = {"fg", "async", "stop1", "tty", "nomon"}
  Cfgs = {"m", "mi", "-", "ml", "mib"}
  Enf = {TRUE}
ALIAS Brief
INVARIANT TakeBack
