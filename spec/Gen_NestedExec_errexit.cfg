SPECIFICATION Spec
CONSTANTS
  Fuel = 24
  TickLimit = 2
  K = 4
  Alphabet <- AlphaErrexit
  Opts <- OptsE
INVARIANT Emit
CHECK_DEADLOCK FALSE
