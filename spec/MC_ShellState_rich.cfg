SPECIFICATION Spec
CONSTANTS
  Configs = {"vars", "alias", "func", "trap", "fn"}
  Depth = 2
  Rich = TRUE
VIEW View
INVARIANT ListingsOK
INVARIANT HistoryOK
INVARIANT Emit
