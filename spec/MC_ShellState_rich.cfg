SPECIFICATION Spec
CONSTANTS
  Configs = {"vars", "alias", "func", "trap"}
  Depth = 2
  Rich = TRUE
VIEW View
INVARIANT ListingsOK
INVARIANT HistoryOK
INVARIANT Emit
