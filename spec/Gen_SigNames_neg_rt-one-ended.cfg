\* G14 negative configuration: the wrong variant "rt-one-ended" of SigNames.tla must be refuted by a law
SPECIFICATION Spec
CONSTANTS
  Level = "laws"
  Variant = "rt-one-ended"
INVARIANT LawsHold
