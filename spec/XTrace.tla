------------------------------ MODULE XTrace ------------------------------
(***************************************************************************)
(* G10 - the debugging options: xtrace (set -x), verbose (set -v), noexec  *)
(* (set -n).                                                               *)
(*                                                                         *)
(* Written from POSIX.1-2024 XCU `set` (-n, -v, -x), XCU 2.5.3 (PS4),      *)
(* 2.9.1 (order of the steps of a simple command) and the manual           *)
(* docs/src/debugging.md, environment/options.md, language/commands/       *)
(* simple.md, pipelines.md, language/parameters/variables.md (PS4), plus   *)
(* the public documentation of yash_semantics::xtrace (the composition of  *)
(* a trace line) - not from the code.                                      *)
(*                                                                         *)
(* The definition is a big-step interpreter of a small command language    *)
(* (abstract syntax below) that yields, for a script, everything the       *)
(* options make observable: the exact text on standard error (a sequence   *)
(* of chunks), standard output, the files written, the exit status and     *)
(* the variables / options at the final `snap` probe.  The module also     *)
(* renders the abstract syntax to the script text (Script).                *)
(*                                                                         *)
(*  xtrace   -x: "The shell shall write to standard error a trace for each *)
(*           command after it expands the command and before it executes   *)
(*           it."  The line is: expansion of PS4, then (xtrace module doc) *)
(*           the assignments name=value, the fields, the redirections,     *)
(*           each value quoted so that it re-reads as the same field       *)
(*           (Quote!QuoteRule, the documented rule of yash-quote), joined  *)
(*           by single spaces; here-document contents follow the line.     *)
(*           `for` and `case` print the headers shown in debugging.md.     *)
(*           PS4 undergoes parameter expansion, command substitution and   *)
(*           arithmetic expansion each time a line is written; xtrace is   *)
(*           ignored while PS4 is expanded (debugging.md).                 *)
(*  verbose  -v: "The shell shall write its input to standard error as it  *)
(*           is read."  The shell reads one complete command (its lines,   *)
(*           the here-document bodies included) at a time.                 *)
(*  noexec   -n: "The shell shall read commands but does not execute       *)
(*           them"; ignored by interactive shells (options.md).            *)
(*                                                                         *)
(* Open points (POSIX and the manual leave them open) are policies P of a  *)
(* run; Alts gives the outcome under every policy:                         *)
(*   P.rd   the set of commands (by id) whose trace goes to the standard   *)
(*          error as redirected by the command itself (`echo a 2>f`)       *)
(*          rather than to the standard error the shell had before         *)
(*   P.off  "It is unspecified whether the command that turns tracing off  *)
(*          is traced."                                                    *)
(* Other open situations put the run into class "open" (nothing but        *)
(* termination is demanded); scripts outside the modelled fragment are     *)
(* class "skip".                                                           *)
(*                                                                         *)
(* Variant (field var of the state) selects named WRONG variants of the    *)
(* semantics; the negative configurations of Gen_XTrace show that the      *)
(* enumerated scenarios tell each of them from the specification.          *)
(***************************************************************************)
EXTENDS Integers, Sequences, FiniteSets, TLC

Q == INSTANCE Quote

---------------------------------------------------------------------------
(* 0  strings *)
At(s, i) == SubSeq(s, i, i)
From(s, i) == SubSeq(s, i, Len(s))
StartsAt(s, i, p) == i + Len(p) - 1 <= Len(s) /\ SubSeq(s, i, i + Len(p) - 1) = p
XMin(S) == CHOOSE x \in S : \A y \in S : x <= y
XMax(S) == CHOOSE x \in S : \A y \in S : y <= x
NLC == "\n"
TABC == "\t"
SQT == "'"
DQT == "\""
BSL == "\\"
BQT == "`"

RECURSIVE Cat(_)
Cat(ss) == IF ss = <<>> THEN "" ELSE Head(ss) \o Cat(Tail(ss))
RECURSIVE JoinWith(_, _)
JoinWith(ss, sep) == IF ss = <<>> THEN "" ELSE IF Len(ss) = 1 THEN ss[1] ELSE ss[1] \o sep \o JoinWith(Tail(ss), sep)
RECURSIVE MapSeq(_, _)
MapSeq(F(_), ss) == IF ss = <<>> THEN <<>> ELSE <<F(Head(ss))>> \o MapSeq(F, Tail(ss))
RECURSIVE DropEmpty(_)
DropEmpty(ss) == IF ss = <<>> THEN <<>> ELSE IF Head(ss) = "" THEN DropEmpty(Tail(ss)) ELSE <<Head(ss)>> \o DropEmpty(Tail(ss))
RECURSIVE FlatSeq(_)
FlatSeq(sss) == IF sss = <<>> THEN <<>> ELSE Head(sss) \o FlatSeq(Tail(sss))
LinesText(ls) == Cat(MapSeq(LAMBDA l : l \o NLC, ls))

Printable == " !\"#$%&'()*+,-./0123456789:;<=>?@ABCDEFGHIJKLMNOPQRSTUVWXYZ[\\]^_`abcdefghijklmnopqrstuvwxyz{|}~"
CharCode == [c \in {At(Printable, k) : k \in 1..Len(Printable)} \cup {NLC, TABC} |->
               IF c = NLC THEN 10 ELSE IF c = TABC THEN 9
               ELSE 31 + (CHOOSE k \in 1..Len(Printable) : At(Printable, k) = c)]
CharOf(n) == IF n = 10 THEN NLC ELSE IF n = 9 THEN TABC ELSE At(Printable, n - 31)
RECURSIVE CodesFrom(_, _)
CodesFrom(s, i) == IF i > Len(s) THEN <<>> ELSE <<CharCode[At(s, i)]>> \o CodesFrom(s, i + 1)
Codes(s) == CodesFrom(s, 1)
RECURSIVE StrOf(_)
StrOf(cs) == IF cs = <<>> THEN "" ELSE CharOf(Head(cs)) \o StrOf(Tail(cs))

LowerLetters == {"a","b","c","d","e","f","g","h","i","j","k","l","m","n","o","p","q","r","s","t","u","v","w","x","y","z"}
UpperLetters == {"A","B","C","D","E","F","G","H","I","J","K","L","M","N","O","P","Q","R","S","T","U","V","W","X","Y","Z"}
Digits == {"0","1","2","3","4","5","6","7","8","9"}
NameStart == LowerLetters \cup UpperLetters \cup {"_"}
NameChar == NameStart \cup Digits
AllIn(s, C) == \A i \in 1..Len(s) : At(s, i) \in C
NoneIn(s, C) == \A i \in 1..Len(s) : At(s, i) \notin C
IsName(s) == Len(s) > 0 /\ At(s, 1) \in NameStart /\ AllIn(s, NameChar)
IsDigits(s) == Len(s) > 0 /\ AllIn(s, Digits)
DigitVal(c) == CHOOSE k \in 0..9 : ToString(k) = c
RECURSIVE Num(_)
Num(t) == IF Len(t) = 0 THEN 0 ELSE Num(SubSeq(t, 1, Len(t) - 1)) * 10 + DigitVal(At(t, Len(t)))

(* The field / value as the shell prints it so that it can be re-read:      *)
(* the documented rule of yash-quote (Quote.tla, property C07).            *)
Quoted(s) == StrOf(Q!QuoteRule(Codes(s)))

(* XCU 2.6.5 with the default IFS: fields are the maximal runs of          *)
(* characters other than <space>, <tab>, <newline>.                        *)
IFSWhite == {" ", TABC, NLC}
RECURSIVE SplitGo(_, _, _)
SplitGo(s, i, cur) ==
  IF i > Len(s) THEN (IF cur = "" THEN <<>> ELSE <<cur>>)
  ELSE IF At(s, i) \in IFSWhite THEN (IF cur = "" THEN <<>> ELSE <<cur>>) \o SplitGo(s, i + 1, "")
  ELSE SplitGo(s, i + 1, cur \o At(s, i))
SplitWS(s) == SplitGo(s, 1, "")
(* XCU 2.6.3: "removing sequences of one or more <newline> characters at   *)
(* the end of the substitution"                                            *)
TrimTrailNL(s) == LET K == {k \in 0..Len(s) : \A j \in (Len(s) - k + 1)..Len(s) : At(s, j) = NLC}
                  IN SubSeq(s, 1, Len(s) - XMax(K))
GlobChars == {"*", "?", "["}
HasGlob(s) == \E i \in 1..Len(s) : At(s, i) \in GlobChars
LeadTabs(l) == XMax({k \in 0..Len(l) : \A j \in 1..k : At(l, j) = TABC})
StripTabs(l) == From(l, LeadTabs(l) + 1)

---------------------------------------------------------------------------
(* 1  abstract syntax and its written form                                 *)
(*                                                                         *)
(* word   [k "lit", s]        a literal field s                            *)
(*        [k "var", n]        $n            [k "dq", n]      "$n"          *)
(*        [k "inc", n]        $((n=n+1))    [k "pos", n]     "$n" (n digit)*)
(*        [k "sub", c]        $(commands)   [k "dqs", c]     "$(commands)" *)
(*        [k "err"]           ${u?}  (u is never set: expansion error)     *)
(*        [k "cat", ps]       the parts ps (lit, dq, pos, inc, dqs) written *)
(*                            one after the other: one field               *)
(*        [k "ps4", p]        a value for PS4, p its parts:                *)
(*                            [k "lit", s] [k "var", n] ${n}               *)
(*                            [k "inc", n] $((n=n+1))  [k "sub", s]        *)
(*                            $(echo s)  [k "err"] ${u?}                   *)
(* redir  [k "out"|"app"|"in", fd, w]   fd>w  fd>>w  fd<w                  *)
(*        [k "dup", fd, to]             fd>&to                             *)
(*        [k "here", fd, strip, q, d, body]   fd<<d / fd<<-d / fd<<'d'     *)
(* command [k "simple", as, ws, rs, id]  assignments [n, w], words, redirs *)
(*        [k "pipe", cs]  [k "not", c]  [k "and"|"or", a, b]               *)
(*        [k "for", v, ws, body]  [k "case", w, items [ps, body]]          *)
(*        [k "fdef", n, body]  [k "brace", body]  [k "subsh", body]        *)
(*        [k "if", c, t]  if c; then t; fi                                 *)
(*        [k "eval", c]  eval 'commands'     [k "dot", f, c]  . ./f        *)
(*        [k "semi", cs]  several commands on one line                     *)
(*        [k "comment", s]  [k "synerr"]  (statement level only)           *)
(***************************************************************************)
Reserved == {"!", "{", "}", "case", "do", "done", "elif", "else", "esac", "fi", "for", "if", "in",
             "then", "until", "while", "function", "select", "time", "[["}
BareChars == LowerLetters \cup UpperLetters \cup Digits \cup {"_", "-", "+", "/", ".", ",", ":", "%", "@"}
DqSpecial == {"$", BQT, BSL, DQT, NLC}
(* how the scenarios WRITE a literal field in the script (deliberately not *)
(* the style of the trace: double quotes are preferred)                    *)
Writable(s) == AllIn(s, {At(Printable, k) : k \in 1..Len(Printable)} \cup {TABC}) /\ (NoneIn(s, DqSpecial) \/ NoneIn(s, {SQT}))
Wr(s) == IF s # "" /\ AllIn(s, BareChars) /\ s \notin Reserved THEN s
         ELSE IF NoneIn(s, DqSpecial) THEN DQT \o s \o DQT
         ELSE SQT \o s \o SQT

Ps4PartOK(p) ==
  CASE p.k = "lit" -> NoneIn(p.s, {"$", BQT, BSL, SQT, NLC})
    [] p.k \in {"var", "inc"} -> IsName(p.n)
    [] p.k = "sub" -> p.s # "" /\ AllIn(p.s, LowerLetters \cup Digits)
    [] p.k = "err" -> TRUE
    [] OTHER -> FALSE
Ps4PartText(p) ==
  CASE p.k = "lit" -> p.s
    [] p.k = "var" -> "${" \o p.n \o "}"
    [] p.k = "inc" -> "$((" \o p.n \o "=" \o p.n \o "+1))"
    [] p.k = "sub" -> "$(echo " \o p.s \o ")"
    [] OTHER -> "${u?}"
Ps4Text(ps) == Cat(MapSeq(Ps4PartText, ps))

RECURSIVE WordText(_), CmdInline(_), ListInline(_), WordOK(_), CmdOKIn(_), ListOKIn(_)
(* inline form: everything on one line (inside $( ), eval operands and the *)
(* single-line statements); here-documents cannot be written inline        *)
WordText(w) ==
  CASE w.k = "lit" -> Wr(w.s)
    [] w.k = "var" -> "$" \o w.n
    [] w.k = "dq" -> DQT \o "$" \o w.n \o DQT
    [] w.k = "pos" -> DQT \o "$" \o w.n \o DQT
    [] w.k = "inc" -> "$((" \o w.n \o "=" \o w.n \o "+1))"
    [] w.k = "sub" -> "$(" \o ListInline(w.c) \o ")"
    [] w.k = "dqs" -> DQT \o "$(" \o ListInline(w.c) \o ")" \o DQT
    [] w.k = "ps4" -> SQT \o Ps4Text(w.p) \o SQT
    [] w.k = "cat" -> Cat(MapSeq(WordText, w.ps))
    [] OTHER -> "${u?}"
WordsText(ws) == JoinWith(MapSeq(WordText, ws), " ")
AssignText(a) == a.n \o "=" \o WordText(a.w)
HereOpText(r) == ToString(r.fd) \o (IF r.strip THEN "<<-" ELSE "<<") \o (IF r.q THEN SQT \o r.d \o SQT ELSE r.d)
RedirText(r) ==
  CASE r.k = "out" -> ToString(r.fd) \o ">" \o WordText(r.w)
    [] r.k = "app" -> ToString(r.fd) \o ">>" \o WordText(r.w)
    [] r.k = "in" -> ToString(r.fd) \o "<" \o WordText(r.w)
    [] r.k = "dup" -> ToString(r.fd) \o ">&" \o ToString(r.to)
    [] OTHER -> HereOpText(r)
SimpleText(c) == JoinWith(MapSeq(AssignText, c.as) \o MapSeq(WordText, c.ws) \o MapSeq(RedirText, c.rs), " ")
PatText(p) == IF p = "*" THEN "*" ELSE Wr(p)
ItemInline(it) == "(" \o JoinWith(MapSeq(PatText, it.ps), "|") \o ") " \o ListInline(it.body) \o ";;"
CmdInline(c) ==
  CASE c.k = "simple" -> SimpleText(c)
    [] c.k = "pipe" -> JoinWith(MapSeq(CmdInline, c.cs), " | ")
    [] c.k = "not" -> "! " \o CmdInline(c.c)
    [] c.k = "and" -> CmdInline(c.a) \o " && " \o CmdInline(c.b)
    [] c.k = "or" -> CmdInline(c.a) \o " || " \o CmdInline(c.b)
    [] c.k = "for" -> "for " \o c.v \o " in" \o (IF c.ws = <<>> THEN "" ELSE " " \o WordsText(c.ws)) \o "; do " \o ListInline(c.body) \o "; done"
    [] c.k = "case" -> "case " \o WordText(c.w) \o " in " \o JoinWith(MapSeq(ItemInline, c.items) \o <<"esac">>, " ")
    [] c.k = "fdef" -> c.n \o "() { " \o ListInline(c.body) \o "; }"
    [] c.k = "brace" -> "{ " \o ListInline(c.body) \o "; }"
 [] c.k = "subsh" -> "( " \o ListInline(c.body) \o " )"
    [] c.k = "if" -> "if " \o ListInline(c.c) \o "; then " \o ListInline(c.t) \o "; fi"
    [] c.k = "eval" -> "eval " \o SQT \o ListInline(c.c) \o SQT
    [] c.k = "dot" -> ". ./" \o c.f
    [] c.k = "semi" -> ListInline(c.cs)
    [] OTHER -> "?"
ListInline(cs) == JoinWith(MapSeq(CmdInline, cs), "; ")

(* well-formedness of the abstract syntax (what the renderer can write)    *)
VarName(n) == IsName(n) /\ n \notin {"u", "PS4", "IFS", "PATH", "HOME"}
WordOK(w) ==
  CASE w.k = "lit" -> Writable(w.s)
    [] w.k \in {"var", "dq", "inc"} -> VarName(w.n)
    [] w.k = "pos" -> w.n \in {"1", "2"}
    [] w.k \in {"sub", "dqs"} -> ListOKIn(w.c)
    [] w.k = "ps4" -> \A i \in 1..Len(w.p) : Ps4PartOK(w.p[i])
    [] w.k = "cat" -> Len(w.ps) >= 2 /\ \A i \in 1..Len(w.ps) : w.ps[i].k \in {"lit", "dq", "pos", "inc", "dqs"} /\ WordOK(w.ps[i])
    [] w.k = "err" -> TRUE
    [] OTHER -> FALSE
FileNames == {"f1", "f 2", "f3", "/dev/null"}
TargetOK(w) == (w.k = "lit" /\ w.s \in FileNames) \/ (w.k = "dq" /\ VarName(w.n))
RedirOK(r, inl) ==
  CASE r.k \in {"out", "app"} -> r.fd \in 1..5 /\ TargetOK(r.w)
    [] r.k = "in" -> r.fd = 0 /\ TargetOK(r.w)
    [] r.k = "dup" -> r.fd \in 1..5 /\ r.to \in 1..5 /\ r.fd # r.to
    [] r.k = "here" -> /\ ~inl /\ r.fd \in {0, 4, 5} /\ r.d \in {"E", "F", "END"}
                       /\ \A i \in 1..Len(r.body) : /\ NoneIn(r.body[i], {BQT, BSL, NLC})
                                                    /\ StripTabs(r.body[i]) # r.d /\ r.body[i] # r.d
    [] OTHER -> FALSE
AssignOK(a) == (a.n = "PS4" /\ a.w.k = "ps4" /\ WordOK(a.w)) \/ (VarName(a.n) /\ a.w.k # "ps4" /\ WordOK(a.w))
SimpleOK(c, inl) ==
  /\ \A i \in 1..Len(c.as) : AssignOK(c.as[i])
  /\ \A i \in 1..Len(c.ws) : c.ws[i].k # "ps4" /\ WordOK(c.ws[i])
  /\ \A i \in 1..Len(c.rs) : RedirOK(c.rs[i], inl)
  /\ Len(c.as) + Len(c.ws) + Len(c.rs) > 0
ItemOK(it, inl) == it.ps # <<>> /\ (\A i \in 1..Len(it.ps) : (Writable(it.ps[i]) /\ ~HasGlob(it.ps[i])) \/ it.ps[i] = "*")
                   /\ it.body # <<>> /\ (IF inl THEN ListOKIn(it.body) ELSE TRUE)
CmdOKIn(c) ==
  CASE c.k = "simple" -> SimpleOK(c, TRUE)
    [] c.k = "pipe" -> Len(c.cs) >= 2 /\ \A i \in 1..Len(c.cs) : c.cs[i].k = "simple" /\ SimpleOK(c.cs[i], TRUE)
    [] c.k = "not" -> c.c.k \in {"simple", "pipe"} /\ CmdOKIn(c.c)
    [] c.k \in {"and", "or"} -> c.a.k \in {"simple", "pipe", "not", "and", "or"} /\ c.b.k \in {"simple", "pipe", "not"}
                                /\ CmdOKIn(c.a) /\ CmdOKIn(c.b)
    [] c.k = "for" -> VarName(c.v) /\ (\A i \in 1..Len(c.ws) : c.ws[i].k # "ps4" /\ WordOK(c.ws[i])) /\ c.body # <<>> /\ ListOKIn(c.body)
    [] c.k = "case" -> WordOK(c.w) /\ c.w.k # "ps4" /\ \A i \in 1..Len(c.items) : ItemOK(c.items[i], TRUE)
    [] c.k = "fdef" -> c.n \in {"f", "g"} /\ c.body # <<>> /\ ListOKIn(c.body)
 [] c.k \in {"brace", "subsh"} -> c.body # <<>> /\ ListOKIn(c.body)
    [] c.k = "if" -> c.c # <<>> /\ c.t # <<>> /\ ListOKIn(c.c) /\ ListOKIn(c.t)
    [] c.k = "eval" -> c.c # <<>> /\ ListOKIn(c.c) /\ NoneIn(ListInline(c.c), {SQT})
    [] c.k = "dot" -> c.f \in {"d1", "d2"}
    [] OTHER -> FALSE
ListOKIn(cs) == \A i \in 1..Len(cs) : CmdOKIn(cs[i])

(* constructors *)
Lit(s) == [k |-> "lit", s |-> s]
Var(n) == [k |-> "var", n |-> n]
Dq(n) == [k |-> "dq", n |-> n]
Inc(n) == [k |-> "inc", n |-> n]
Pos(n) == [k |-> "pos", n |-> n]
Sub(c) == [k |-> "sub", c |-> c]
Dqs(c) == [k |-> "dqs", c |-> c]
ErrW == [k |-> "err"]
Ps4(p) == [k |-> "ps4", p |-> p]
CatW(ps) == [k |-> "cat", ps |-> ps]
PLit(s) == [k |-> "lit", s |-> s]
PVar(n) == [k |-> "var", n |-> n]
PInc(n) == [k |-> "inc", n |-> n]
PSub(s) == [k |-> "sub", s |-> s]
PErr == [k |-> "err"]
Asg(n, w) == [n |-> n, w |-> w]
ROut(fd, w) == [k |-> "out", fd |-> fd, w |-> w]
RApp(fd, w) == [k |-> "app", fd |-> fd, w |-> w]
RIn(w) == [k |-> "in", fd |-> 0, w |-> w]
RDup(fd, to) == [k |-> "dup", fd |-> fd, to |-> to]
RHere(fd, strip, q, d, body) == [k |-> "here", fd |-> fd, strip |-> strip, q |-> q, d |-> d, body |-> body]
Sc(as, ws, rs, id) == [k |-> "simple", as |-> as, ws |-> ws, rs |-> rs, id |-> id]
Cmd(ws) == Sc(<<>>, ws, <<>>, 0)
Lits(ss) == MapSeq(Lit, ss)
CmdL(ss) == Cmd(Lits(ss))
Pipe(cs) == [k |-> "pipe", cs |-> cs]
Not(c) == [k |-> "not", c |-> c]
And(a, b) == [k |-> "and", a |-> a, b |-> b]
Or(a, b) == [k |-> "or", a |-> a, b |-> b]
For(v, ws, body) == [k |-> "for", v |-> v, ws |-> ws, body |-> body]
Item(ps, body) == [ps |-> ps, body |-> body]
Case(w, items) == [k |-> "case", w |-> w, items |-> items]
FDef(n, body) == [k |-> "fdef", n |-> n, body |-> body]
Brace(body) == [k |-> "brace", body |-> body]
SubSh(body) == [k |-> "subsh", body |-> body]
If(c, t) == [k |-> "if", c |-> c, t |-> t]
Eval(c) == [k |-> "eval", c |-> c]
Dot(f) == [k |-> "dot", f |-> f]
Semi(cs) == [k |-> "semi", cs |-> cs]
Comment(s) == [k |-> "comment", s |-> s]
SynErr == [k |-> "synerr"]
SnapFin == CmdL(<<"snap", "fin">>)
Opts(x, v, n, i) == [x |-> x, v |-> v, n |-> n, i |-> i]
NoOpts == Opts(FALSE, FALSE, FALSE, FALSE)
Scen(o, prog, dots) == [o |-> o, prog |-> prog, dots |-> dots, env4 |-> <<>>]
ScenEnv(o, prog, dots, env4) == [o |-> o, prog |-> prog, dots |-> dots, env4 |-> env4]
DotFile(f, c) == [f |-> f, c |-> c]

(* multi-line form of a statement: the lines the shell reads for it        *)
HereOps(c) == IF c.k = "simple" THEN SelectSeq(c.rs, LAMBDA r : r.k = "here")
              ELSE IF c.k = "pipe" THEN FlatSeq(MapSeq(LAMBDA x : SelectSeq(x.rs, LAMBDA r : r.k = "here"), c.cs))
              ELSE <<>>
RECURSIVE HereOpsOf(_)
HereOpsOf(c) ==
  CASE c.k \in {"simple", "pipe"} -> HereOps(c)
    [] c.k = "not" -> HereOpsOf(c.c)
    [] c.k \in {"and", "or"} -> HereOpsOf(c.a) \o HereOpsOf(c.b)
    [] c.k = "semi" -> FlatSeq(MapSeq(HereOpsOf, c.cs))
    [] OTHER -> <<>>
HereBodyLines(r) == r.body \o <<r.d>>
OneLineKinds == {"simple", "pipe", "not", "and", "or", "eval", "dot"}

RECURSIVE StmtLines(_), BodyLines(_), StmtOK(_), BodyOK(_)
StmtLines(c) ==
  CASE c.k \in OneLineKinds \cup {"semi"} -> <<CmdInline(c)>> \o FlatSeq(MapSeq(HereBodyLines, HereOpsOf(c)))
    [] c.k = "for" -> <<"for " \o c.v \o " in" \o (IF c.ws = <<>> THEN "" ELSE " " \o WordsText(c.ws)) \o "; do">> \o BodyLines(c.body) \o <<"done">>
    [] c.k = "case" -> <<"case " \o WordText(c.w) \o " in">>
                       \o FlatSeq(MapSeq(LAMBDA it : <<"(" \o JoinWith(MapSeq(PatText, it.ps), "|") \o ")">> \o BodyLines(it.body) \o <<";;">>, c.items))
                       \o <<"esac">>
    [] c.k = "fdef" -> <<c.n \o "() {">> \o BodyLines(c.body) \o <<"}">>
    [] c.k = "brace" -> <<"{">> \o BodyLines(c.body) \o <<"}">>
 [] c.k = "subsh" -> <<"(">> \o BodyLines(c.body) \o <<")">>
    [] c.k = "if" -> <<"if " \o ListInline(c.c) \o "; then">> \o BodyLines(c.t) \o <<"fi">>
    [] c.k = "comment" -> <<"#" \o c.s>>
    [] c.k = "synerr" -> <<"echo oops;;">>
    [] OTHER -> <<"?">>
BodyLines(cs) == FlatSeq(MapSeq(StmtLines, cs))

SimpleStmtOK(c) == SimpleOK(c, FALSE)
RECURSIVE LineCmdOK(_)
LineCmdOK(c) ==      \* a command of a single-line statement (here-documents allowed on simple commands)
  CASE c.k = "simple" -> SimpleOK(c, FALSE)
    [] c.k = "pipe" -> Len(c.cs) >= 2 /\ \A i \in 1..Len(c.cs) : c.cs[i].k = "simple" /\ SimpleOK(c.cs[i], FALSE)
    [] c.k = "not" -> c.c.k \in {"simple", "pipe"} /\ LineCmdOK(c.c)
    [] c.k \in {"and", "or"} -> c.a.k \in {"simple", "pipe", "not", "and", "or"} /\ c.b.k \in {"simple", "pipe", "not"}
                                /\ LineCmdOK(c.a) /\ LineCmdOK(c.b)
    [] OTHER -> CmdOKIn(c)
StmtOK(c) ==
  CASE c.k \in OneLineKinds -> LineCmdOK(c)
    [] c.k = "semi" -> Len(c.cs) >= 2 /\ \A i \in 1..Len(c.cs) : c.cs[i].k \in OneLineKinds /\ LineCmdOK(c.cs[i])
    [] c.k = "for" -> VarName(c.v) /\ (\A i \in 1..Len(c.ws) : c.ws[i].k # "ps4" /\ WordOK(c.ws[i])) /\ c.body # <<>> /\ BodyOK(c.body)
    [] c.k = "case" -> WordOK(c.w) /\ c.w.k # "ps4" /\ \A i \in 1..Len(c.items) : ItemOK(c.items[i], FALSE) /\ BodyOK(c.items[i].body)
    [] c.k = "fdef" -> c.n \in {"f", "g"} /\ c.body # <<>> /\ BodyOK(c.body)
 [] c.k \in {"brace", "subsh"} -> c.body # <<>> /\ BodyOK(c.body)
    [] c.k = "if" -> c.c # <<>> /\ c.t # <<>> /\ ListOKIn(c.c) /\ BodyOK(c.t)
    [] c.k = "comment" -> NoneIn(c.s, {NLC, BSL})
    [] c.k = "synerr" -> TRUE
    [] OTHER -> FALSE
BodyOK(cs) == \A i \in 1..Len(cs) : cs[i].k \notin {"comment", "synerr"} /\ StmtOK(cs[i])

(* A scenario: how the shell is started and what it reads.                 *)
(*   o      start-up options [x, v, n, i]  (sh -x / -v / -n / -i)          *)
(*   env4   the parts of a PS4 value in the environment of the shell, <<>>  *)
(*          if PS4 is not in the environment                               *)
(*   prog   the statements of the script (read from standard input)        *)
(*   dots   the dot scripts [f, c]                                         *)
Script(sc) == BodyLines(sc.prog)
DotBody(sc, f) == LET I == {i \in 1..Len(sc.dots) : sc.dots[i].f = f} IN sc.dots[XMin(I)].c
ScenarioOK(sc) ==
  /\ \A i \in 1..Len(sc.prog) : StmtOK(sc.prog[i])
  /\ \A i \in 1..Len(sc.dots) : sc.dots[i].f \in {"d1", "d2"} /\ sc.dots[i].c # <<>> /\ BodyOK(sc.dots[i].c)
  /\ \A i, j \in 1..Len(sc.dots) : i # j => sc.dots[i].f # sc.dots[j].f
  /\ \A i \in 1..Len(sc.env4) : Ps4PartOK(sc.env4[i])

---------------------------------------------------------------------------
(* 2  state                                                                *)
(*   vars   variables that have a value          ps4   the parts of $PS4   *)
(*   pos    positional parameters                fn    function bodies     *)
(*   xt vb nx inter   xtrace, verbose, noexec (in effect), interactive     *)
(*   err    standard error of the shell: chunks                            *)
(*            [k "x", s] a trace      [k "v", s] verbose echo              *)
(*            [k "e", s] written by a command    [k "d", no] a diagnostic  *)
(*            message (text not specified; no line of it starts with `no`  *)
(*            when no # "")           [k "p", a, b] chunks of concurrent   *)
(*            processes: any interleaving of a and b                       *)
(*   out    standard output           files  the regular files written     *)
(*   st     $?  (-1: some non-zero status)       halt  this shell exits    *)
(*   cls    "ok" / "open" / "skip"    P, pu  policies and the ones used    *)
(*   snap   what the first `snap` probe saw      tl    ghost: traced       *)
(*          commands [f fields, t text] / assignments [v value, t text]    *)
(*   fx     ghost: an expansion of PS4 had an effect (arithmetic, error)   *)
(*   wr     ghost: the variables assigned since the set was last emptied   *)
(***************************************************************************)
EmptyMap == [n \in {} |-> ""]
Val(V, n) == IF n \in DOMAIN V THEN V[n] ELSE ""
WithKey(V, n, v) == [k \in DOMAIN V \cup {n} |-> IF k = n THEN v ELSE V[k]]
WithoutKey(V, n) == [k \in DOMAIN V \ {n} |-> V[k]]

DefaultPS4 == <<[k |-> "lit", s |-> "+ "]>>     \* variables.md: `The default value is "+ "`
\* sinks: "err" the standard error of the shell; "o1" its standard output, "o2", "o3", ... the
\* pipes of nested command substitutions / pipeline stages; "f:NAME" a file; "null"; "closed"
OutSink(k) == "o" \o ToString(k)
IsOutSink(s) == Len(s) >= 2 /\ At(s, 1) = "o" /\ IsDigits(From(s, 2))
Fds0 == [n \in 1..5 |-> IF n = 1 THEN OutSink(1) ELSE IF n = 2 THEN "err" ELSE "closed"]
\* context of a command: its descriptors 1-5, its standard input if it is modelled, and the
\* files that are open for writing in it or in an enclosing command
Ctx0 == [fds |-> Fds0, hasIn |-> FALSE, in |-> "", openw |-> {}]

\* XCU 2.5.3: "Variables shall be initialized from the environment"; PS4: "The default value shall be "+ "."
State0(o, P, variant, dots, env4) ==
  [vars |-> [n \in {"PS4"} |-> IF env4 = <<>> THEN "+ " ELSE Ps4Text(env4)], ps4 |-> IF env4 = <<>> THEN DefaultPS4 ELSE env4, pos |-> <<>>, fn |-> EmptyMap,
   xt |-> o.x, vb |-> o.v, nx |-> o.n /\ ~o.i, inter |-> o.i,
   err |-> <<>>, outs |-> <<"">>, files |-> EmptyMap, st |-> 0, halt |-> FALSE, cls |-> "ok",
   P |-> P, pu |-> {}, var |-> variant, snap |-> <<>>, tl |-> <<>>, dots |-> dots,
   cache |-> "", cached |-> FALSE, depth |-> 0, nxp |-> FALSE, fx |-> FALSE, why |-> "", wr |-> {}]

Worse(a, b) == IF "skip" \in {a, b} THEN "skip" ELSE IF "open" \in {a, b} THEN "open" ELSE "ok"
Class(S, c) == [S EXCEPT !.cls = Worse(@, c)]
ClassW(S, c, w) == [S EXCEPT !.cls = Worse(@, c), !.why = IF @ = "" THEN w ELSE @]
SetVar(S, n, v) == [S EXCEPT !.vars = WithKey(@, n, v), !.wr = @ \cup {n}]

WriteTo(S, sink, kind, text) ==
  IF text = "" THEN S
  ELSE IF sink = "err" THEN [S EXCEPT !.err = Append(@, [k |-> kind, s |-> text])]
  ELSE IF IsOutSink(sink) THEN LET k == Num(From(sink, 2))
                               IN IF k <= Len(S.outs) THEN [S EXCEPT !.outs[k] = @ \o text] ELSE S
  ELSE IF sink \in {"null", "closed"} THEN S
  ELSE LET f == From(sink, 3) IN [S EXCEPT !.files = WithKey(@, f, Val(@, f) \o text)]

---------------------------------------------------------------------------
(* 3  PS4 and the trace line *)

(* PS4 (XCU 2.5.3): "the value of this variable shall be subjected to      *)
(* parameter expansion ... After such expansion, the value shall be        *)
(* written to standard error"; debugging.md adds command substitution and  *)
(* arithmetic expansion, and "the xtrace option is ignored while           *)
(* expanding PS4".  xtrace::XTrace::finish: "If $PS4 fails to expand,      *)
(* this function prints an error message and uses the variable value       *)
(* intact."                                                                *)
RECURSIVE Ps4Go(_, _, _)
Ps4Go(ps, S, acc) ==
  IF ps = <<>> THEN [t |-> acc, S |-> S, bad |-> FALSE]
  ELSE LET p == Head(ps) IN
    IF p.k = "lit" THEN Ps4Go(Tail(ps), S, acc \o p.s)
    ELSE IF p.k = "var" THEN Ps4Go(Tail(ps), S, acc \o Val(S.vars, p.n))
    ELSE IF p.k = "sub" THEN Ps4Go(Tail(ps), S, acc \o p.s)
    ELSE IF p.k = "inc" THEN
      (IF p.n \in DOMAIN S.vars /\ ~IsDigits(S.vars[p.n]) THEN [t |-> acc, S |-> ClassW(S, "skip", "ps4-arith-nonnumeric"), bad |-> FALSE]
       ELSE LET v == ToString(Num(Val(S.vars, p.n)) + 1)
            IN Ps4Go(Tail(ps), [SetVar(S, p.n, v) EXCEPT !.fx = TRUE], acc \o v))
    ELSE [t |-> "", S |-> [S EXCEPT !.fx = TRUE], bad |-> TRUE]
HasInc(ps) == \E i \in 1..Len(ps) : ps[i].k = "inc"
ExpandPS4(S) ==
  IF S.var = "ps4once" /\ S.cached THEN [t |-> S.cache, S |-> S, bad |-> FALSE]
  ELSE LET r == Ps4Go(S.ps4, S, "")
           r1 == IF r.bad THEN [t |-> Ps4Text(S.ps4), S |-> r.S, bad |-> TRUE] ELSE r
       IN [r1 EXCEPT !.S = [r1.S EXCEPT !.cache = r1.t, !.cached = TRUE]]
(* what a trace line written now would start with (for the diagnostics)    *)
PeekPS4(S) == IF S.xt THEN ExpandPS4(S).t ELSE ""

(* a diagnostic message of the shell on descriptor sink                    *)
Diag(S, sink) == IF sink = "err" THEN [S EXCEPT !.err = Append(@, [k |-> "d", no |-> PeekPS4(S)])]
                 ELSE ClassW(S, "open", "diagnostic-not-on-stderr")

(* One trace: PS4, the text, a newline, the here-document contents.        *)
(* XTrace::finish: "If all the buffers are empty, the result is empty"     *)
(* (and PS4 is not expanded).                                              *)
TraceTo(S, sink, text, hd) ==
  IF ~S.xt \/ S.var = "mute" \/ (text = "" /\ hd = "") THEN S
  ELSE LET E == ExpandPS4(S)
           S1 == IF E.bad THEN Diag(E.S, sink) ELSE E.S     \* the message goes where the trace goes
       IN WriteTo(S1, sink, "x", E.t \o text \o NLC \o hd)

QuotedV(S, s) == IF S.var = "unquoted" THEN s ELSE Quoted(s)
FieldsText(S, fs) == JoinWith(MapSeq(LAMBDA f : QuotedV(S, f), fs), " ")
JoinParts(ps) == JoinWith(DropEmpty(ps), " ")

---------------------------------------------------------------------------
(* 4  expansion and execution *)

Fn(S, name) == IF name \in DOMAIN S.fn THEN S.fn[name] ELSE <<>>
Builtins == {"echo", "cat", ":", "true", "false", "set", "snap", "exit"}
\* names that name no utility in the test bed (unless defined as functions)
NotFoundNames == {"nosuch", "f", "g"}
SpecialBuiltins == {":", "set", "exit"}

(* `set` arguments that touch the three options; anything else is outside  *)
(* the model                                                               *)
OptLetters == {"x", "v", "n"}
LongOpt(n) == CASE n = "xtrace" -> "x" [] n = "verbose" -> "v" [] n \in {"noexec", "exec"} -> "n" [] OTHER -> ""
RECURSIVE SetGo(_, _)
SetGo(args, o) ==      \* o = [x, v, n, ok]
  IF args = <<>> THEN o
  ELSE LET a == Head(args) IN
    IF a \in {"-o", "+o"} THEN
      (IF Len(args) < 2 \/ LongOpt(args[2]) = "" THEN [o EXCEPT !.ok = FALSE]
       ELSE LET l == LongOpt(args[2])
                on == (a = "-o") # (args[2] = "exec")     \* options.md: exec (+n) is the positive name of noexec
            IN SetGo(SubSeq(args, 3, Len(args)),
                     [o EXCEPT !.x = IF l = "x" THEN on ELSE @, !.v = IF l = "v" THEN on ELSE @, !.n = IF l = "n" THEN on ELSE @]))
    ELSE IF Len(a) >= 2 /\ At(a, 1) \in {"-", "+"} /\ AllIn(From(a, 2), OptLetters) THEN
      LET on == At(a, 1) = "-"
          has(l) == \E i \in 2..Len(a) : At(a, i) = l
      IN SetGo(Tail(args), [o EXCEPT !.x = IF has("x") THEN on ELSE @, !.v = IF has("v") THEN on ELSE @, !.n = IF has("n") THEN on ELSE @])
    ELSE [o EXCEPT !.ok = FALSE]
SetResult(S, args) == SetGo(args, [x |-> S.xt, v |-> S.vb, n |-> S.nx, ok |-> TRUE])

RECURSIVE Exec(_, _, _), RunList(_, _, _), Simple(_, _, _), ExpandWords(_, _, _), ExpandWord(_, _, _),
          ExpandValue(_, _, _), DoAssigns(_, _, _, _, _), DoRedirs(_, _, _, _), CallFn(_, _, _, _),
          ForLoop(_, _, _, _, _), PipeGo(_, _, _, _, _), RunStmts(_, _, _, _), SubShell(_, _, _, _)

(* A subshell (XCU 2.13): a duplicate of the shell environment; what comes *)
(* back is what it wrote, its exit status and the bookkeeping.  capture:   *)
(* its standard output is collected instead of appended.                  *)
SubShell(cs, S, C, capture) ==
  LET lvl == Len(S.outs) + 1
      C1 == IF capture THEN [C EXCEPT !.fds[1] = OutSink(lvl)] ELSE C
      S1 == RunList(cs, [S EXCEPT !.outs = IF capture THEN Append(@, "") ELSE @, !.depth = @ + 1], C1)
  IN [S |-> [S EXCEPT !.err = S1.err, !.files = S1.files, !.cls = S1.cls, !.pu = S1.pu, !.tl = S1.tl, !.fx = S1.fx, !.why = S1.why,
                   !.outs = SubSeq(S1.outs, 1, Len(S.outs)), !.st = S1.st],
      out |-> IF capture THEN S1.outs[lvl] ELSE ""]

(* word -> fields.  Result [f, S, ok, sub (a command substitution ran)]    *)
ExpandWord(w, S, C) ==
  CASE w.k = "lit" -> [f |-> <<w.s>>, S |-> S, ok |-> TRUE, sub |-> FALSE]
    [] w.k = "var" -> LET v == Val(S.vars, w.n)
                      IN [f |-> SplitWS(v), S |-> IF HasGlob(v) THEN ClassW(S, "skip", "glob-in-expansion") ELSE S, ok |-> TRUE, sub |-> FALSE]
    [] w.k = "dq" -> [f |-> <<Val(S.vars, w.n)>>, S |-> S, ok |-> TRUE, sub |-> FALSE]
    [] w.k = "pos" -> LET i == Num(w.n)
                      IN [f |-> <<IF i <= Len(S.pos) THEN S.pos[i] ELSE "">>, S |-> S, ok |-> TRUE, sub |-> FALSE]
    [] w.k = "inc" -> IF w.n \in DOMAIN S.vars /\ ~IsDigits(S.vars[w.n])
                      THEN [f |-> <<"0">>, S |-> ClassW(S, "skip", "arith-nonnumeric"), ok |-> TRUE, sub |-> FALSE]
                      ELSE LET v == ToString(Num(Val(S.vars, w.n)) + 1)
                           IN [f |-> <<v>>, S |-> SetVar(S, w.n, v), ok |-> TRUE, sub |-> FALSE]
    [] w.k \in {"sub", "dqs"} ->
         LET r == SubShell(w.c, S, C, TRUE)
             t == TrimTrailNL(r.out)
         IN [f |-> IF w.k = "dqs" THEN <<t>> ELSE SplitWS(t),
             S |-> IF w.k = "sub" /\ HasGlob(t) THEN ClassW(r.S, "skip", "glob-in-substitution") ELSE r.S, ok |-> TRUE, sub |-> TRUE]
    [] w.k = "ps4" -> [f |-> <<Ps4Text(w.p)>>, S |-> S, ok |-> TRUE, sub |-> FALSE]
    [] w.k = "cat" -> LET r == ExpandWords(w.ps, S, C)      \* every part yields exactly one field
                      IN [f |-> <<Cat(r.f)>>, S |-> r.S, ok |-> r.ok, sub |-> r.sub]
    \* ${u?}: XCU 2.6.2 "the shell shall write a diagnostic and exit" (non-interactive)
    [] OTHER -> [f |-> <<>>, S |-> S, ok |-> FALSE, sub |-> FALSE]

(* simple.md step 1: "Command words (name and arguments) are expanded in   *)
(* order."  Result [f, S, ok, sub]                                         *)
ExpandWords(ws, S, C) ==
  IF ws = <<>> THEN [f |-> <<>>, S |-> S, ok |-> TRUE, sub |-> FALSE]
  ELSE LET a == ExpandWord(Head(ws), S, C) IN
       IF ~a.ok THEN a
       ELSE LET b == ExpandWords(Tail(ws), a.S, C)
            IN [f |-> a.f \o b.f, S |-> b.S, ok |-> b.ok, sub |-> a.sub \/ b.sub]

(* the value of an assignment / the subject of case: no field splitting    *)
ExpandValue(w, S, C) ==
  IF w.k = "var" THEN [v |-> Val(S.vars, w.n), S |-> S, ok |-> TRUE, sub |-> FALSE]
  ELSE IF w.k = "sub" THEN
    LET r == SubShell(w.c, S, C, TRUE)
    IN [v |-> TrimTrailNL(r.out), S |-> r.S, ok |-> TRUE, sub |-> TRUE]
  ELSE LET a == ExpandWord(w, S, C)
       IN [v |-> IF a.ok THEN a.f[1] ELSE "", S |-> a.S, ok |-> a.ok, sub |-> a.sub]

(* an expansion error: a diagnostic, and the non-interactive shell exits   *)
ExpErr(S, C) == LET S1 == Diag(S, C.fds[2])
                IN IF S.inter THEN ClassW(S1, "open", "error-in-interactive-shell") ELSE [S1 EXCEPT !.st = -1, !.halt = TRUE]

(* simple.md step 3: "Assignments are performed, in order."  tr: the trace *)
(* pieces name=value.  sub/st: a command substitution ran / its status.    *)
DoAssigns(as, S, C, tr, sub) ==
  IF as = <<>> THEN [S |-> S, ok |-> TRUE, tr |-> tr, sub |-> sub]
  ELSE LET a == Head(as)
           e == ExpandValue(a.w, S, C)
       IN IF ~e.ok THEN [S |-> e.S, ok |-> FALSE, tr |-> tr, sub |-> sub]
          ELSE LET S1 == SetVar(e.S, a.n, e.v)
                   S2 == IF a.n = "PS4" THEN [S1 EXCEPT !.ps4 = a.w.p, !.cached = FALSE] ELSE S1
                   t == a.n \o "=" \o QuotedV(S, e.v)
                   S3 == [S2 EXCEPT !.tl = Append(@, [k |-> "a", v |-> e.v, t |-> QuotedV(S, e.v)])]
               IN DoAssigns(Tail(as), S3, C, Append(tr, t), sub \/ e.sub)

(* simple.md step 2: "Redirections are performed, in order."  Result       *)
(* [S, C (descriptors and standard input of the command), tr, hd, ok].     *)
RECURSIVE ExpandLine(_, _, _)
ExpandLine(l, i, V) ==       \* $name and ${name} in an unquoted here-document line
  IF i > Len(l) THEN ""
  ELSE IF At(l, i) = "$" /\ i < Len(l) /\ At(l, i + 1) \in NameStart THEN
    LET j == XMax({j \in (i + 1)..Len(l) : \A m \in (i + 1)..j : At(l, m) \in NameChar})
    IN Val(V, SubSeq(l, i + 1, j)) \o ExpandLine(l, j + 1, V)
  ELSE IF StartsAt(l, i, "${") THEN
    LET J == {j \in (i + 2)..Len(l) : At(l, j) = "}"}
    IN Val(V, SubSeq(l, i + 2, XMin(J) - 1)) \o ExpandLine(l, XMin(J) + 1, V)
  ELSE At(l, i) \o ExpandLine(l, i + 1, V)
LineOK(l) == \A i \in 1..Len(l) : At(l, i) = "$" =>
               \/ (i < Len(l) /\ At(l, i + 1) \in NameStart)
               \/ (StartsAt(l, i, "${") /\ \E j \in (i + 3)..Len(l) : At(l, j) = "}" /\ IsName(SubSeq(l, i + 2, j - 1)))
HereContent(r, V) ==
  LET ls == IF r.strip THEN MapSeq(StripTabs, r.body) ELSE r.body
  IN IF r.q THEN LinesText(ls) ELSE LinesText(MapSeq(LAMBDA l : ExpandLine(l, 1, V), ls))

DoRedirs(rs, S, C, acc) ==     \* acc = [tr, hd, outs (files opened for writing), ins]
  IF rs = <<>> THEN [S |-> S, C |-> C, tr |-> acc.tr, hd |-> acc.hd, ok |-> TRUE]
  ELSE LET r == Head(rs) IN
    IF r.k \in {"out", "app", "in"} THEN
      LET e == ExpandValue(r.w, S, C)
          T == e.v
          op == CASE r.k = "out" -> ">" [] r.k = "app" -> ">>" [] OTHER -> "<"
          t == ToString(r.fd) \o op \o QuotedV(S, T)
          acc1 == [acc EXCEPT !.tr = Append(@, t)]
      IN IF T \notin FileNames THEN [S |-> ClassW(e.S, "skip", "unknown-file"), C |-> C, tr |-> acc.tr, hd |-> acc.hd, ok |-> FALSE]
         ELSE IF r.k = "in" THEN
           (IF T \notin DOMAIN e.S.files \/ T \in acc.outs
            THEN [S |-> ClassW(e.S, "open", "input-file-missing-or-written"), C |-> C, tr |-> acc.tr, hd |-> acc.hd, ok |-> FALSE]
            ELSE DoRedirs(Tail(rs), e.S, [C EXCEPT !.hasIn = TRUE, !.in = e.S.files[T]], acc1))
         ELSE IF T = "/dev/null" THEN DoRedirs(Tail(rs), e.S, [C EXCEPT !.fds[r.fd] = "null"], acc1)
         \* two open file descriptions of one file (independent offsets): outside the model
         ELSE IF T \in acc.outs \/ T \in C.openw THEN [S |-> ClassW(e.S, "open", "file-opened-twice"), C |-> C, tr |-> acc.tr, hd |-> acc.hd, ok |-> FALSE]
         ELSE LET S1 == [e.S EXCEPT !.files = WithKey(@, T, IF r.k = "out" THEN "" ELSE Val(@, T))]
              IN DoRedirs(Tail(rs), S1, [C EXCEPT !.fds[r.fd] = "f:" \o T, !.openw = @ \cup {T}], [acc1 EXCEPT !.outs = @ \cup {T}])
    ELSE IF r.k = "dup" THEN
      (IF C.fds[r.to] = "closed" THEN [S |-> ClassW(S, "open", "dup-of-closed-fd"), C |-> C, tr |-> acc.tr, hd |-> acc.hd, ok |-> FALSE]
       ELSE DoRedirs(Tail(rs), S, [C EXCEPT !.fds[r.fd] = C.fds[r.to]],
                     [acc EXCEPT !.tr = Append(@, ToString(r.fd) \o ">&" \o ToString(r.to))]))
    ELSE \* here-document: XCU 2.7.4; the trace shows the operator as written and, after
         \* the line, the contents and the delimiter (xtrace module documentation)
      LET ok == r.q \/ \A i \in 1..Len(r.body) : LineOK(r.body[i])
          content == HereContent(r, S.vars)
          S1 == IF ok THEN S ELSE ClassW(S, "skip", "heredoc-line-outside-fragment")
          C1 == IF r.fd = 0 THEN [C EXCEPT !.hasIn = TRUE, !.in = content] ELSE C
      IN DoRedirs(Tail(rs), S1, C1, [acc EXCEPT !.tr = Append(@, HereOpText(r)), !.hd = @ \o content \o r.d \o NLC])
Acc0 == [tr |-> <<>>, hd |-> "", outs |-> {}]

(* where the trace of a command goes whose own redirections change         *)
(* descriptor 2: open (policy P.rd)                                        *)
TraceSink(S, C, C1, id) ==
  IF C1.fds[2] = C.fds[2] THEN [sink |-> C.fds[2], S |-> S]
  ELSE IF id = 0 THEN [sink |-> C.fds[2], S |-> ClassW(S, "open", "fd2-redirect-without-id")]
  ELSE [sink |-> IF id \in S.P.rd THEN C1.fds[2] ELSE C.fds[2], S |-> [S EXCEPT !.pu = @ \cup {id}]]

(* function call (XCU 2.9.5, simple.md): positional parameters are the     *)
(* arguments for the duration of the call                                  *)
CallFn(body, args, S, C) ==
  IF S.depth > 6 THEN ClassW(S, "skip", "call-depth")
  ELSE LET S1 == RunList(body, [S EXCEPT !.pos = args, !.depth = @ + 1], C)
       IN [S1 EXCEPT !.pos = S.pos, !.depth = S.depth]

RestoreVars(S, before, names) ==
  LET V == [n \in (DOMAIN S.vars \ (names \ DOMAIN before.vars)) |->
              IF n \in names THEN before.vars[n] ELSE S.vars[n]]
  IN [S EXCEPT !.vars = V, !.ps4 = IF "PS4" \in names THEN before.ps4 ELSE @,
               !.cached = IF "PS4" \in names THEN FALSE ELSE @]
AssignedNames(as) == {as[i].n : i \in 1..Len(as)}

Simple(c, S0, C) ==
  LET Sp == IF S0.var = "ps4first" /\ S0.xt THEN LET E == ExpandPS4(S0) IN [E.S EXCEPT !.cache = E.t, !.cached = TRUE] ELSE S0
      S == Sp
      W == ExpandWords(c.ws, S, C)
  IN
  IF ~W.ok THEN ExpErr(W.S, C)
  ELSE IF W.f = <<>> THEN
    \* no command name.  simple.md: "If there are no fields, redirections are processed in a
    \* subshell"; "the exit status is that of the last command substitution in the command, or
    \* zero if there were none" - with several substitutions the run is left open
    IF c.rs # <<>> /\ c.as # <<>> THEN
      \* xtrace module documentation: "For each command executed, the shell prints to the standard
      \* error a line containing" PS4, the assignments and command words, the redirections - one line
      \* for the one command (redirections are performed first, in a subshell; simple.md steps 2, 3)
      LET R == DoRedirs(c.rs, W.S, C, Acc0)
      IN IF ~R.ok THEN R.S
         ELSE IF S.xt /\ (HasInc(S.ps4) \/ \E i \in 1..Len(S.ps4) : S.ps4[i].k = "err")
              THEN ClassW(R.S, "open", "assignments-and-redirections-without-command")
         ELSE LET A == DoAssigns(c.as, R.S, C, <<>>, FALSE)
              IN IF ~A.ok THEN ExpErr(A.S, C)
                 ELSE LET T == TraceSink(A.S, C, R.C, c.id)
                          text == JoinParts(<<JoinParts(A.tr), IF S.var = "noredir" THEN "" ELSE JoinParts(R.tr)>>)
                      IN [TraceTo(T.S, T.sink, text, R.hd) EXCEPT !.st = IF W.sub \/ A.sub THEN @ ELSE 0]
    ELSE IF c.rs # <<>> THEN
      LET R == DoRedirs(c.rs, W.S, C, Acc0)
      IN IF ~R.ok THEN R.S
         ELSE IF S.xt /\ HasInc(S.ps4) THEN ClassW(R.S, "open", "ps4-effect-in-redirection-subshell")     \* is PS4 expanded in the subshell?
         ELSE IF S.xt /\ R.C.fds[2] # C.fds[2] /\ (\E i \in 1..Len(S.ps4) : S.ps4[i].k = "err")
              THEN ClassW(R.S, "open", "ps4-error-with-fd2-redirect")
         ELSE LET T == TraceSink(R.S, C, R.C, c.id)
                  text == IF S.var = "noredir" THEN "" ELSE JoinParts(R.tr)
              IN [TraceTo(T.S, T.sink, text, R.hd) EXCEPT !.st = IF W.sub THEN @ ELSE 0]
    ELSE
      LET A == DoAssigns(c.as, W.S, C, <<>>, FALSE)
      IN IF ~A.ok THEN ExpErr(A.S, C)
         ELSE LET S1 == IF S.var = "noasg" THEN A.S ELSE TraceTo(A.S, C.fds[2], JoinParts(A.tr), "")
              IN [S1 EXCEPT !.st = IF W.sub \/ A.sub THEN @ ELSE 0]
  ELSE
    LET name == W.f[1]
        args == Tail(W.f)
        R == DoRedirs(c.rs, W.S, C, Acc0)
    IN
    IF name \notin Builtins \cup NotFoundNames /\ Fn(W.S, name) = <<>> THEN ClassW(W.S, "skip", "unknown-command")
    ELSE IF ~R.ok THEN R.S
    ELSE
    LET A == DoAssigns(c.as, R.S, R.C, <<>>, FALSE)
    IN
    IF ~A.ok THEN ExpErr(A.S, R.C)
    ELSE
    LET C1 == R.C
        before == W.S
        special == name \in SpecialBuiltins
        \* the line: assignments, fields, redirections (xtrace module documentation)
        ftext == FieldsText(S, W.f)
        text == JoinParts(<<JoinParts(A.tr), ftext, IF S.var = "noredir" THEN "" ELSE JoinParts(R.tr)>>)
        T0 == TraceSink([A.S EXCEPT !.wr = {}], C, C1, c.id)
        \* where the diagnostic of a failing PS4 expansion goes when the command redirects descriptor 2
        T == IF S.xt /\ C1.fds[2] # C.fds[2] /\ (\E i \in 1..Len(A.S.ps4) : A.S.ps4[i].k = "err")
             THEN [T0 EXCEPT !.S = ClassW(@, "open", "ps4-error-with-fd2-redirect")] ELSE T0
        \* "It is unspecified whether the command that turns tracing off is traced."
        sr == IF name = "set" THEN SetResult(T.S, args) ELSE [x |-> T.S.xt, v |-> T.S.vb, n |-> T.S.nx, ok |-> TRUE]
        turnsOff == name = "set" /\ T.S.xt /\ sr.ok /\ ~sr.x
        S2 == IF turnsOff THEN [T.S EXCEPT !.pu = @ \cup {0}] ELSE T.S
        traced == ~turnsOff \/ S2.P.off
        S3a == IF traced THEN (IF S.var = "ps4first" /\ S.xt
                               THEN WriteTo(S2, T.sink, "x", S.cache \o text \o NLC \o R.hd)
                               ELSE TraceTo(S2, T.sink, text, R.hd))
               ELSE S2
        S3 == IF S3a.xt /\ c.as = <<>> /\ c.rs = <<>> /\ traced
              THEN [S3a EXCEPT !.tl = Append(@, [k |-> "f", f |-> W.f, t |-> ftext])] ELSE S3a
        \* execution
        S4 ==
          CASE name \in DOMAIN S3.fn -> CallFn(S3.fn[name], args, S3, C1)
            [] name = "echo" -> [WriteTo(S3, C1.fds[1], "e", JoinWith(args, " ") \o NLC) EXCEPT !.st = 0]
            [] name = "cat" -> IF C1.hasIn THEN [WriteTo(S3, C1.fds[1], "e", C1.in) EXCEPT !.st = 0] ELSE ClassW(S3, "open", "cat-without-input")
            [] name \in {":", "true"} -> [S3 EXCEPT !.st = 0]
            [] name = "false" -> [S3 EXCEPT !.st = 1]
            \* exit [n] (special built-in): this shell environment terminates
            [] name = "exit" -> IF args = <<>> THEN [S3 EXCEPT !.halt = TRUE]
                                ELSE IF Len(args) = 1 /\ IsDigits(args[1]) /\ Len(args[1]) <= 2
                                     THEN [S3 EXCEPT !.halt = TRUE, !.st = Num(args[1])]
                                ELSE ClassW(S3, "skip", "exit-operand")
            [] name = "set" ->
                 IF ~sr.ok THEN ClassW(S3, "skip", "set-operands")
                 ELSE IF S3.var = "nxline" THEN [S3 EXCEPT !.xt = sr.x, !.vb = sr.v, !.st = 0, !.nxp = ~S3.inter /\ sr.n]
                 ELSE [S3 EXCEPT !.xt = sr.x, !.vb = sr.v, !.st = 0, !.nx = IF S3.inter \/ S3.var = "nxignore" THEN FALSE ELSE sr.n]
            [] name = "snap" -> IF S3.snap = <<>> /\ S3.depth = 0
                                THEN [S3 EXCEPT !.snap = <<[vars |-> S3.vars, xt |-> S3.xt, vb |-> S3.vb]>>] ELSE S3
            \* simple.md: "If no target is found, the shell reports an error"; exit status 127
            [] OTHER -> [Diag(S3, C1.fds[2]) EXCEPT !.st = 127]
        \* simple.md: "Assigned variables are removed unless the target was a special built-in"
        \* XCU 2.9.1 leaves open what becomes of a variable assigned for the duration of a
        \* command when the command itself (or the expansion of PS4) assigns it again
        reassigned == AssignedNames(c.as) \cap S4.wr # {}
        S5 == [S4 EXCEPT !.wr = @ \cup A.S.wr]
    IN IF special THEN S5
       ELSE IF reassigned THEN ClassW(S5, "open", "temporary-variable-reassigned")
       ELSE RestoreVars(S5, before, AssignedNames(c.as))

ForLoop(c, fs, S, C, first) ==
  IF fs = <<>> THEN (IF first THEN [S EXCEPT !.st = 0] ELSE S)
  ELSE IF S.halt \/ S.nx THEN S
  ELSE ForLoop(c, Tail(fs), RunList(c.body, SetVar(S, c.v, Head(fs)), C), C, FALSE)

(* a multi-command pipeline (XCU 2.9.2, pipelines.md): every command in a  *)
(* subshell, concurrently; standard output of each connected to the        *)
(* standard input of the next; exit status of the last                     *)
FilesOfCmd(c) == {c.rs[i].w.s : i \in {j \in 1..Len(c.rs) : c.rs[j].k \in {"out", "app", "in"} /\ c.rs[j].w.k = "lit"}}
\* what a stage wrote to besides its own pipe: output streams and files of the parent
Touched(before, after) ==
  {OutSink(k) : k \in {j \in 1..Len(before.outs) : after.outs[j] # before.outs[j]}}
  \cup {"f:" \o n : n \in {m \in DOMAIN after.files : m \notin DOMAIN before.files \/ after.files[m] # before.files[m]}}
PipeGo(cs, S, C, feed, hasFeed) ==
  LET c == Head(cs)
      last == Len(cs) = 1
      C1 == [C EXCEPT !.hasIn = hasFeed, !.in = feed]
      r == SubShell(<<c>>, [S EXCEPT !.err = <<>>], C1, ~last)
      mine == r.S.err
      touched == Touched(S, r.S)
  IN IF last THEN [S |-> [r.S EXCEPT !.err = S.err], errs |-> <<mine>>, touched |-> <<touched>>]
     ELSE LET reads == cs[2].ws # <<>> /\ cs[2].ws[1].k = "lit" /\ cs[2].ws[1].s = "cat"
                       /\ \A i \in 1..Len(cs[2].rs) : cs[2].rs[i].k \notin {"in", "here"} \/ cs[2].rs[i].fd # 0
              S1 == IF r.out # "" /\ ~reads THEN ClassW(r.S, "open", "pipe-writer-without-reader") ELSE r.S
              rest == PipeGo(Tail(cs), [S1 EXCEPT !.err = S.err, !.st = S.st], C, r.out, TRUE)
          IN [S |-> rest.S, errs |-> <<mine>> \o rest.errs, touched |-> <<touched>> \o rest.touched]
RECURSIVE ParChunks(_)
ParChunks(es) == IF Len(es) = 1 THEN es[1]
                 ELSE LET b == ParChunks(Tail(es))
                      IN IF es[1] = <<>> THEN b ELSE IF b = <<>> THEN es[1] ELSE <<[k |-> "p", a |-> es[1], b |-> b]>>

Exec(c, S, C) ==
  IF S.halt \/ S.nx THEN S      \* -n: "The shell shall read commands but does not execute them"
  ELSE
  CASE c.k = "simple" -> Simple(c, S, C)
    [] c.k = "pipe" ->
         LET shared == \E i, j \in 1..Len(c.cs) : i # j /\ FilesOfCmd(c.cs[i]) \cap FilesOfCmd(c.cs[j]) # {}
             r == PipeGo(c.cs, S, C, C.in, C.hasIn)
             S1 == [r.S EXCEPT !.err = S.err \o ParChunks(r.errs)]
             \* the stages run concurrently: the order of what two of them write to one stream or file is open
             both == \E i, j \in 1..Len(r.touched) : i # j /\ r.touched[i] \cap r.touched[j] # {}
         IN IF shared \/ both THEN ClassW(S1, "open", "pipeline-stages-share-a-file") ELSE S1
    [] c.k = "not" -> LET S1 == Exec(c.c, S, C)
                      IN IF S1.halt THEN S1
                         ELSE IF S1.nx THEN ClassW(S1, "open", "negated-set-n")
                         ELSE [S1 EXCEPT !.st = IF S1.st = 0 THEN 1 ELSE 0]
    [] c.k \in {"and", "or"} ->
         LET S1 == Exec(c.a, S, C)
         IN IF S1.halt \/ S1.nx THEN S1
            ELSE IF (S1.st = 0) = (c.k = "and") THEN Exec(c.b, S1, C) ELSE S1
    [] c.k = "for" ->
         LET W == ExpandWords(c.ws, S, C)
         IN IF ~W.ok THEN ExpErr(W.S, C)
            ELSE LET hdr == "for " \o c.v \o " in" \o (IF W.f = <<>> THEN "" ELSE " " \o FieldsText(S, W.f))
                 IN ForLoop(c, W.f, TraceTo(W.S, C.fds[2], hdr, ""), C, TRUE)
    [] c.k = "case" ->
         LET e == ExpandValue(c.w, S, C)
         IN IF ~e.ok THEN ExpErr(e.S, C)
            ELSE LET S1 == TraceTo(e.S, C.fds[2], "case " \o QuotedV(S, e.v) \o " in", "")
                     M == {i \in 1..Len(c.items) : \E j \in 1..Len(c.items[i].ps) : c.items[i].ps[j] \in {"*", e.v}}
                 IN IF M = {} THEN [S1 EXCEPT !.st = 0] ELSE RunList(c.items[XMin(M)].body, S1, C)
    [] c.k = "fdef" -> [S EXCEPT !.fn = WithKey(@, c.n, c.body), !.st = 0]
    [] c.k = "brace" -> RunList(c.body, S, C)
 [] c.k = "subsh" -> SubShell(c.body, S, C, FALSE).S
    \* XCU 2.9.4.4: status of the then-list, zero if the condition fails
    [] c.k = "if" -> LET S1 == RunList(c.c, S, C)
                     IN IF S1.halt \/ S1.nx THEN S1
                        ELSE IF S1.st = 0 THEN RunList(c.t, S1, C) ELSE [S1 EXCEPT !.st = 0]
    [] c.k = "semi" -> RunList(c.cs, S, C)
    \* eval (special built-in): the operand is read and executed as commands
    [] c.k = "eval" ->
         LET t == ListInline(c.c)
             S1 == TraceTo(S, C.fds[2], "eval " \o QuotedV(S, t), "")
             S2 == IF S.xt THEN [S1 EXCEPT !.tl = Append(@, [k |-> "f", f |-> <<"eval", t>>, t |-> "eval " \o QuotedV(S, t)])] ELSE S1
         IN IF S.vb THEN ClassW(S, "open", "eval-under-verbose") ELSE RunList(c.c, S2, C)
    \* . (special built-in): the file is read and executed as commands
    [] c.k = "dot" ->
         LET S1 == TraceTo(S, C.fds[2], ". ./" \o c.f, "")
             I == {i \in 1..Len(S.dots) : S.dots[i].f = c.f}
         IN IF I = {} THEN ClassW(S, "skip", "dot-script-missing")
            ELSE IF S.depth > 4 THEN ClassW(S, "skip", "dot-depth")
            ELSE LET S2 == RunStmts(S.dots[XMin(I)].c, [S1 EXCEPT !.depth = @ + 1], C, FALSE)
                 IN [S2 EXCEPT !.depth = S.depth]
    [] OTHER -> ClassW(S, "skip", "unknown-node")

RunList(cs, S, C) ==
  IF cs = <<>> \/ S.halt \/ S.nx THEN S ELSE RunList(Tail(cs), Exec(Head(cs), S, C), C)

(* The read-execute loop: one complete command is read (all its lines,     *)
(* -v echoes them), then executed.  top: the script itself; otherwise a    *)
(* dot script (whether -v echoes its lines is not documented: open).       *)
StmtText(c, variant) ==
  LET ls == StmtLines(c)
  IN IF variant = "vdup" /\ Len(ls) > 1 THEN LinesText(ls) \o LinesText(Tail(ls)) ELSE LinesText(ls)
RunStmts(cs, S, C, top) ==
  IF cs = <<>> \/ S.halt THEN S
  ELSE LET c == Head(cs)
           S1 == IF S.vb /\ S.var # "mutev" THEN (IF top THEN WriteTo(S, "err", "v", StmtText(c, S.var)) ELSE ClassW(S, "open", "dot-under-verbose")) ELSE S
           S2 == IF c.k = "synerr"
                 \* XCU 2.8.1: a syntax error makes a non-interactive shell exit (non-zero)
                 THEN (IF S1.inter THEN ClassW(S1, "open", "syntax-error-in-interactive-shell") ELSE [Diag(S1, "err") EXCEPT !.st = -1, !.halt = TRUE])
                 ELSE IF c.k = "comment" THEN S1
                 ELSE Exec(c, S1, C)
           S3 == IF S2.nxp THEN [S2 EXCEPT !.nx = TRUE] ELSE S2
       IN RunStmts(Tail(cs), S3, C, top)

---------------------------------------------------------------------------
(* 5  a whole run *)
Run(sc, P, variant) == RunStmts(sc.prog, State0(sc.o, P, variant, sc.dots, sc.env4), Ctx0, TRUE)

ModelVars == {"x", "y", "z", "i", "k", "e", "PS4"}
NameOrder == <<"PS4", "e", "i", "k", "x", "y", "z">>
PairsOf(V, names) == MapSeq(LAMBDA n : <<n, V[n]>>, SelectSeq(names, LAMBDA n : n \in DOMAIN V))
VarPairs(V) == PairsOf(V, NameOrder)
FileOrder == <<"f 2", "f1", "f3">>
FilePairs(F) == PairsOf(F, FileOrder)

(* what is observable of a finished run *)
Outcome(S) ==
  [cls |-> S.cls, err |-> S.err, out |-> S.outs[1], st |-> S.st, files |-> FilePairs(S.files),
   reached |-> S.snap # <<>>,
   vars |-> IF S.snap = <<>> THEN <<>> ELSE VarPairs(S.snap[1].vars),
   xt |-> IF S.snap = <<>> THEN FALSE ELSE S.snap[1].xt,
   vb |-> IF S.snap = <<>> THEN FALSE ELSE S.snap[1].vb,
   errany |-> S.inter, why |-> S.why]

P0 == [rd |-> {}, off |-> FALSE]
RECURSIVE IdsOfCmd(_), IdsOfList(_), IdsOfWord(_)
IdsOfWord(w) == IF w.k \in {"sub", "dqs"} THEN IdsOfList(w.c)
                ELSE IF w.k = "cat" THEN UNION {IdsOfWord(w.ps[i]) : i \in 1..Len(w.ps)} ELSE {}
IdsOfWords(ws) == UNION {IdsOfWord(ws[i]) : i \in 1..Len(ws)}
IdsOfCmd(c) ==
  CASE c.k = "simple" -> (IF c.id > 0 THEN {c.id} ELSE {}) \cup IdsOfWords(c.ws)
                         \cup UNION {IdsOfWord(c.as[i].w) : i \in 1..Len(c.as)}
    [] c.k = "pipe" -> IdsOfList(c.cs)
    [] c.k = "not" -> IdsOfCmd(c.c)
    [] c.k \in {"and", "or"} -> IdsOfCmd(c.a) \cup IdsOfCmd(c.b)
    [] c.k = "for" -> IdsOfWords(c.ws) \cup IdsOfList(c.body)
    [] c.k \in {"fdef", "brace", "subsh"} -> IdsOfList(c.body)
    [] c.k = "if" -> IdsOfList(c.c) \cup IdsOfList(c.t)
    [] c.k = "case" -> IdsOfWord(c.w) \cup UNION {IdsOfList(c.items[i].body) : i \in 1..Len(c.items)}
    [] c.k = "eval" -> IdsOfList(c.c)
    [] c.k = "semi" -> IdsOfList(c.cs)
    [] OTHER -> {}
IdsOfList(cs) == UNION {IdsOfCmd(cs[i]) : i \in 1..Len(cs)}
Ids(sc) == IdsOfList(sc.prog) \cup UNION {IdsOfList(sc.dots[i].c) : i \in 1..Len(sc.dots)}

(* every outcome the contract allows for the scenario *)
Alts(sc) ==
  LET R0 == Run(sc, P0, "spec")
  IN IF R0.pu = {} THEN {Outcome(R0)}
     ELSE {Outcome(Run(sc, [rd |-> r, off |-> o], "spec")) : r \in SUBSET Ids(sc), o \in BOOLEAN}

---------------------------------------------------------------------------
(* 6  matching a standard-error text against chunks                        *)
(* Ends(cs, s, P): the positions (index of the next character) at which    *)
(* s can stand after chunks cs, starting from a position of P.             *)
LineStartOK(s, p, q, no) ==   \* no line of s[p..q-1] starts with no
  no = "" \/ \A j \in p..(q - 1) : (j = p \/ At(s, j - 1) = NLC) => ~StartsAt(s, j, no)
RECURSIVE Ends(_, _, _), ParEnds(_, _, _, _)
Ends(cs, s, P) ==
  IF cs = <<>> \/ P = {} THEN P
  ELSE LET c == Head(cs)
           P1 == IF c.k = "d" THEN
                   {q \in 2..(Len(s) + 1) : At(s, q - 1) = NLC /\ \E p \in P : p < q /\ LineStartOK(s, p, q, c.no)}
                 ELSE IF c.k = "p" THEN ParEnds(c.a, c.b, s, P)
                 ELSE {p + Len(c.s) : p \in {q \in P : StartsAt(s, q, c.s)}}
       IN Ends(Tail(cs), s, P1)
ParEnds(a, b, s, P) ==
  IF P = {} THEN {}
  ELSE IF a = <<>> THEN Ends(b, s, P)
  ELSE IF b = <<>> THEN Ends(a, s, P)
  ELSE ParEnds(Tail(a), b, s, Ends(<<Head(a)>>, s, P)) \cup ParEnds(a, Tail(b), s, Ends(<<Head(b)>>, s, P))
MatchErr(cs, s) == (Len(s) + 1) \in Ends(cs, s, {1})

(* an observation obs = [outcome, status, out, err, files, reached, vars,   *)
(* xt, vb] agrees with outcome e                                           *)
Agrees(e, obs) ==
  /\ obs.outcome = "completed"
  /\ (e.cls = "ok" =>
        /\ (IF e.st = -1 THEN obs.status # 0 ELSE obs.status = e.st)
        /\ obs.out = e.out
        /\ (e.errany \/ MatchErr(e.err, obs.err))
        /\ obs.files = e.files
        /\ obs.reached = e.reached
        /\ (e.reached => obs.vars = e.vars /\ obs.xt = e.xt /\ obs.vb = e.vb))
=============================================================================
