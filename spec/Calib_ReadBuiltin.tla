------------------------- MODULE Calib_ReadBuiltin -------------------------
(***************************************************************************)
(* Calibration of ReadBuiltin.tla: the worked examples of                  *)
(* docs/src/builtins/read.md and the cases of                              *)
(* yash-cli/tests/scripted_test/read-p.sh (POSIX) and read-y.sh hold for   *)
(* the definition.  Every ASSUME is evaluated by TLC at start-up.          *)
(***************************************************************************)
EXTENDS ReadBuiltin

Dflt == IfsOf(" \t\n")
SD == IfsOf(" -")            \* IFS=' -' of the scripted tests
SDB == IfsOf(" -\\")

E(raw, d, ifs, n, inp) == Expect(Opt(raw, d), ifs, Vars(n), inp)

(* class ok, status st, `vals` is an allowed assignment, `used` tokens consumed *)
Ok(raw, d, ifs, inp, st, vals, used) ==
  LET e == E(raw, d, ifs, Len(vals), inp)
  IN e.class = "ok" /\ e.st = st /\ vals \in e.vals /\ e.lo = used /\ e.hi = used
(* ... and the only allowed one *)
Only(raw, d, ifs, inp, st, vals, used) ==
  Ok(raw, d, ifs, inp, st, vals, used) /\ E(raw, d, ifs, Len(vals), inp).vals = {vals}
(* a whole line, default options *)
Line(ifs, s, vals) == Ok(FALSE, NoD, ifs, Chars(s), "0", vals, Len(s))

Users == "1 James Carter\n2 Emily Johnson\n3 Michael Anthony Davis\n"
UsersC == "1:James Carter\n2:Emily Johnson\n3:Michael Anthony Davis\n"

---------------------------------------------------------------------------
(* docs/src/builtins/read.md, Examples *)
ASSUME Only(FALSE, NoD, IfsUnset, Chars(Users), "0", <<"1", "James Carter">>, 15)
ASSUME Only(FALSE, NoD, IfsUnset, SubSeq(Chars(Users), 16, Len(Users)), "0", <<"2", "Emily Johnson">>, 16)
ASSUME Only(FALSE, NoD, IfsUnset, SubSeq(Chars(Users), 32, Len(Users)), "0", <<"3", "Michael Anthony Davis">>, 24)
ASSUME Only(FALSE, NoD, IfsUnset, <<>>, "1", <<"", "">>, 0)                       \* the loop ends
ASSUME Only(FALSE, NoD, IfsOf(":"), Chars(UsersC), "0", <<"1", "James Carter">>, 15)
ASSUME Only(FALSE, "", IfsUnset, Chars("./foo.txt") \o <<NUL>>, "0", <<"./foo.txt">>, 10)
ASSUME Only(FALSE, "", IfsUnset, <<>>, "1", <<"">>, 0)
ASSUME Only(TRUE, NoD, IfsOf(""), Chars(" No field splitting.  Nor line continuation. \\\n"), "0",
            <<" No field splitting.  Nor line continuation. \\">>, 47)

(* Description: fewer fields than variables / more fields than variables *)
ASSUME Only(FALSE, NoD, IfsUnset, Chars("a b\n"), "0", <<"a", "b", "">>, 4)
ASSUME Only(FALSE, NoD, IfsUnset, Chars("a b  c d  \n"), "0", <<"a", "b  c d">>, 11)
(* Escaping *)
ASSUME Only(FALSE, NoD, IfsUnset, Chars("a\\ b c\n"), "0", <<"a b", "c">>, 7)
ASSUME Only(FALSE, NoD, IfsUnset, Chars("a\\\nb c\nd\n"), "0", <<"ab", "c">>, 7)
ASSUME Only(TRUE, NoD, IfsUnset, Chars("a\\\nb c\nd\n"), "0", <<"a\\", "">>, 3)
(* Exit status *)
ASSUME Only(FALSE, NoD, IfsUnset, Chars("a b"), "1", <<"a", "b">>, 3)

---------------------------------------------------------------------------
(* read-p.sh *)
ASSUME Line(Dflt, "A\n", <<"A">>)
ASSUME Line(Dflt, "  A  \n", <<"A">>)
ASSUME Line(Dflt, " - A - \n", <<"- A -">>)
ASSUME Only(FALSE, NoD, Dflt, <<>>, "1", <<"">>, 0)                                \* EOF fails read
ASSUME Only(FALSE, NoD, Dflt, Chars("\\\nA\nC\n"), "0", <<"A">>, 4)                \* does not read more than needed
ASSUME Only(FALSE, NoD, Dflt, Chars("foo bar baz"), "1", <<"foo", "bar baz">>, 11)
ASSUME Only(FALSE, NoD, Dflt, Chars("foo\\"), "1", <<"foo">>, 4)                   \* orphan backslash is ignored
ASSUME Line(Dflt, "A\\\nA B\\\nB\n", <<"AA", "BB">>)
ASSUME Only(FALSE, NoD, Dflt, Chars("A\\\n"), "1", <<"A", "">>, 3)
ASSUME Line(SD, " AA B CC \n", <<"AA", "B", "CC">>)
ASSUME Line(SD, "-BB-C-DD-\n", <<"", "BB", "C", "DD", "">>)
ASSUME Line(SD, "- BB- C- DD- \n", <<"", "BB", "C", "DD", "">>)
ASSUME Line(SD, " -BB -C -DD -\n", <<"", "BB", "C", "DD", "">>)
ASSUME Line(SD, " - BB - C - DD - \n", <<"", "BB", "C", "DD", "">>)
ASSUME Line(SD, "--CC--\n", <<"", "", "CC", "", "">>)
ASSUME Line(SD, "  --CC  --\n", <<"", "", "CC", "", "">>)
ASSUME Line(SD, "-  -CC-  -\n", <<"", "", "CC", "", "">>)
ASSUME Line(SD, "--  CC--  \n", <<"", "", "CC", "", "">>)
ASSUME Line(SD, "A\\ A \\ \\B\\  C\\\\C\\-C\\\\-D\n", <<"A A", " B ", "C\\C-C\\", "D">>)
ASSUME Line(SDB, "A\\ A \\ \\B\\  C\\\\C\\-C\\\\-D\n", <<"A A", " B ", "C\\C-C\\", "D">>)
ASSUME Only(FALSE, NoD, IfsOf("\n"), Chars("A\\\nB\nC\n"), "0", <<"AB", "">>, 5)
ASSUME Line(Dflt, "A B\n", <<"A", "B", "", "">>)
ASSUME Line(SD, "A-B-C - \n", <<"A", "B", "C">>)
ASSUME Line(SD, "A B C-C C\\\\C\\\nC   \n", <<"A", "B", "C-C C\\CC">>)
ASSUME Line(SD, "A B C-C C\\\\C\\\nC -  \n", <<"A", "B", "C-C C\\CC -">>)
ASSUME Line(IfsOf(""), " A\\ B \\ \\C\\  D\\\\E\\-F\\\\-G \n", <<" A B  C  D\\E-F\\-G ", "", "", "">>)
ASSUME Only(FALSE, ":", Dflt, Chars("A B:C D ExF\n"), "0", <<"A", "B">>, 4)
ASSUME Only(FALSE, "x", Dflt, Chars("C D ExF\n"), "0", <<"C", "D E">>, 6)
ASSUME Only(TRUE, NoD, SD, Chars("A\\A\\\\ B-C\\- D\\\nX\n"), "0", <<"A\\A\\\\", "B", "C\\", "D\\">>, 15)
ASSUME Ok(TRUE, NoD, SDB, Chars("A\\B\\\\ D-E\\- F\\\nX\n"), "0", <<"A", "B", "", "D", "E", "- F\\">>, 15)

---------------------------------------------------------------------------
(* read-y.sh *)
ASSUME Only(FALSE, NoD, Dflt, Chars("A\\"), "1", <<"A">>, 2)
ASSUME Only(TRUE, NoD, Dflt, Chars("A\\"), "1", <<"A\\">>, 2)
ASSUME LET e == E(FALSE, NoD, Dflt, 1, <<"A", NUL, "B", NL>>) IN e.class = "nul" /\ e.st = "E" /\ e.lo = 2 /\ e.hi = 4
ASSUME Only(FALSE, ":", Dflt, Chars("A\\\nB:C\n"), "0", <<"AB">>, 5)
ASSUME Only(FALSE, "\\", Dflt, Chars("A\\\nB\n"), "0", <<"A">>, 2)
ASSUME Line(SD, " - -\n", <<"", "">>)
ASSUME Line(SD, " - - -\n", <<"", "- -">>)
ASSUME Line(SD, " - -  -   -\n", <<"", "-  -   -">>)
ASSUME LET e == Expect(Opt(FALSE, NoD), Dflt, <<"r">>, Chars("A\n")) IN e.class = "ronly" /\ e.st = "E"
ASSUME ExpectUnreadable(Opt(FALSE, NoD), <<"o">>).st = "E"
ASSUME Expect(Opt(FALSE, "AB"), Dflt, <<"o">>, <<>>).class = "usage"
ASSUME Expect(Opt(FALSE, NoD), Dflt, <<>>, <<>>).class = "usage"
ASSUME Expect(Opt(FALSE, NoD), Dflt, <<"b">>, <<>>).class = "usage"
ASSUME Expect(Opt(FALSE, "W2"), Dflt, <<"o">>, <<>>).class = "usage"

---------------------------------------------------------------------------
(* what the two documents leave open is classed as such *)
ASSUME E(FALSE, NoD, Dflt, 1, <<"a", BAD, NL>>).class = "open"
ASSUME E(FALSE, "", Dflt, 1, <<"a", BSL, NUL, "b", NUL>>).class = "open"
ASSUME E(TRUE, "", Dflt, 1, <<"a", BSL, NUL, "b", NUL>>).class = "ok"
(* an escaped delimiter is literal and does not end the line (manual, Compatibility) *)
ASSUME Only(FALSE, ":", Dflt, Chars("a\\:b:c"), "0", <<"a:b">>, 5)
(* the orphan backslash takes part in splitting (POSIX) - or is a quoting character (manual) *)
ASSUME Only(FALSE, NoD, Dflt, Chars("a \\"), "1", <<"a ">>, 3)
ASSUME E(FALSE, NoD, IfsOf(" \\"), 1, Chars("a b \\")).vals = {<<"a b ">>}
ASSUME E(FALSE, NoD, IfsOf(":\\"), 2, Chars("a:b\\")).vals = {<<"a", "b">>}

VARIABLE x
Init == x = 0
Next == UNCHANGED x
Spec == Init /\ [][Next]_x
=============================================================================
