-------------------------- MODULE Gen_FunctionSet --------------------------
(***************************************************************************)
(* Call-level binding of the table layer of ShFunctions.tla to             *)
(* yash_env::function::FunctionSet (doc comments of `define`, `unset`,     *)
(* `get`, `len`, `is_empty`, `iter`).  TLC enumerates every sequence of    *)
(* MaxOps operations over two names and two bodies; each complete sequence *)
(* is printed with, per operation, the result the table layer demands:     *)
(*   define n b ro  res "new" | "replaced" | "err"; old = body of the      *)
(*                  function returned (replaced) or reported (err: the     *)
(*                  existing read-only function), oro its read-only flag   *)
(*   unset n        res "absent" | "removed" | "err"; old / oro likewise   *)
(*   get n          res "none" | "some"; old = its body, oro = read-only   *)
(* and after every operation len and the sorted names.  A function defined *)
(* with ro = TRUE is read-only from the start (Function::make_read_only).  *)
(* harness/g12 (`api`) replays every sequence on a fresh FunctionSet.      *)
(***************************************************************************)
EXTENDS ShFunctions, Json, IOUtils

CONSTANTS MaxOps

VARIABLES T, hist
vars == <<T, hist>>

ApiNames == {"f", "g"}
Op(op, n, b, ro) == [op |-> op, n |-> n, b |-> b, ro |-> ro]
Ops == {Op("define", n, b, ro) : n \in ApiNames, b \in {1, 2}, ro \in BOOLEAN}
       \cup {Op(o, n, 0, FALSE) : o \in {"unset", "get"}, n \in ApiNames}

BodyOf(e) == IF e.d THEN e.b[1] ELSE 0

Apply(tab, o) ==
  CASE o.op = "define" ->
         LET R == TDefine(tab, o.n, [Entry(<<o.b>>, "", 0) EXCEPT !.ro = o.ro])
         IN [t |-> R.t, res |-> R.res, old |-> BodyOf(tab[o.n]), oro |-> tab[o.n].d /\ tab[o.n].ro]
    [] o.op = "unset" ->
         LET R == TUnset(tab, o.n)
         IN [t |-> R.t, res |-> R.res, old |-> BodyOf(tab[o.n]), oro |-> tab[o.n].d /\ tab[o.n].ro]
    [] OTHER ->
         [t |-> tab, res |-> IF tab[o.n].d THEN "some" ELSE "none", old |-> BodyOf(tab[o.n]),
          oro |-> tab[o.n].d /\ tab[o.n].ro]

RECURSIVE NamesFrom(_, _)
NamesFrom(tab, i) ==
  IF i > Len(NameOrder) THEN <<>>
  ELSE (IF tab[NameOrder[i]].d THEN <<NameOrder[i]>> ELSE <<>>) \o NamesFrom(tab, i + 1)

Init == T = EmptyTable /\ hist = <<>>
Next == /\ Len(hist) < MaxOps
        /\ \E o \in Ops :
             LET R == Apply(T, o)
                 ns == NamesFrom(R.t, 1)
             IN /\ T' = R.t
                /\ hist' = Append(hist, [op |-> o.op, n |-> o.n, b |-> o.b, ro |-> o.ro, res |-> R.res,
                                         old |-> R.old, oro |-> R.oro, len |-> Len(ns), names |-> ns])
Spec == Init /\ [][Next]_vars

\* laws of the table layer
Laws ==
  /\ \A n \in Names : T[n].ro => T[n].d
  /\ RoundTrip(T)
  /\ \A n \in ApiNames : TUnset(T, n).res = "err" <=> IsRO(T, n)
  /\ \A n \in ApiNames : TUnset(TUnset(T, n).t, n).res \in {"absent", "err"}

Emit == (Len(hist) = MaxOps) => PrintT(ToJson([ops |-> hist]))
=============================================================================
