\* G08 enumeration: family ulimit, quick
SPECIFICATION Spec
VIEW View
CONSTANTS
  Family = "ulimit"
  Depth = 2
  Level = "quick"
INVARIANT Emit
