SPECIFICATION Spec
CONSTANTS
  Fuel = 24
  TickLimit = 3
  K = 7
  Alphabet <- AlphaLoops2
  ItemAlphabet <- NoItems
  Mode = "c02"
INVARIANT Emit
CHECK_DEADLOCK FALSE
