INIT Init
NEXT Next
VIEW view
CONSTANTS
  Variant = ""
  PNorm <- TokLP
  PLit <- LitLP
  PMacro <- MacLP
  PLen = 3
  SAlpha <- StrLP
  SLen = 3
  CfgSel = "lp"
  Kind = "match"
INVARIANT Emit
