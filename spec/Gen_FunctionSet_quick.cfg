SPECIFICATION Spec
CONSTANTS
  MaxDepth = 4
  Variant = ""
  MaxOps = 4
INVARIANTS Laws Emit
