------------------------------- MODULE Getopts -------------------------------
(***************************************************************************)
(* C20 -- the getopts built-in as a parser of single-character options.    *)
(*                                                                         *)
(* Written from POSIX.1-2024 XCU "getopts" (options are recognised per     *)
(* Utility Syntax Guidelines 3-10; an option character not in optstring    *)
(* yields name `?`, and OPTARG = the character when optstring starts with  *)
(* `:`, else OPTARG unset + diagnostic; a missing option-argument yields   *)
(* `:` with OPTARG = the character in the `:` mode, else `?`, OPTARG unset *)
(* + diagnostic; at the end of options name = `?`, OPTARG unset, OPTIND =  *)
(* index of the first operand, the `--` being skipped, exit status > 0),   *)
(* from /repo/docs/src/builtins/getopts.md, which says the same, and from  *)
(* the doc comments of yash_builtin::getopts::model (`next`: one option    *)
(* per call, `next_arg_index` / `next_char_index` = where parsing resumes).*)
(*                                                                         *)
(* Unlike a utility (OptParse), a getopts loop does not stop at an error:  *)
(* it reports it and goes on with the next option character, which may be  *)
(* in the same argument (guideline 5: grouping).  Hence the sanity theorem *)
(* checked by TLC (Gen_Getopts!Ungrouping): writing the letters of a group *)
(* as separate arguments yields the same sequence of reports and operands. *)
(*                                                                         *)
(* Text: arguments and optstring are sequences of one-character strings.   *)
(***************************************************************************)
EXTENDS Integers, Sequences, FiniteSets, TLC

GOChars(s) == [i \in 1..Len(s) |-> SubSeq(s, i, i)]

\* "N" no option-argument, "A" takes one, "U" not in optstring.
\* A colon never is an option character.
GOJudge(os, c) ==
  IF c = ":" \/ ~\E i \in 1..Len(os) : os[i] = c THEN "U"
  ELSE LET i == CHOOSE i \in 1..Len(os) : os[i] = c /\ \A j \in 1..(i - 1) : os[j] # c
       IN IF i < Len(os) /\ os[i + 1] = ":" THEN "A" ELSE "N"

GOSilent(os) == Len(os) >= 1 /\ os[1] = ":"

\* An argument that carries options: `-` followed by at least one character,
\* but not `--`.  Arguments `--x...` are outside the guidelines (guideline 3:
\* option names are alphanumeric) and outside the domain of this specification.
GOIsOptArg(w) == Len(w) >= 2 /\ w[1] = "-" /\ w # <<"-", "-">>
GOInDomain(argv) == \A n \in DOMAIN argv : ~(Len(argv[n]) > 2 /\ argv[n][1] = "-" /\ argv[n][2] = "-")

(***************************************************************************)
(* One invocation (model::next): parsing resumes at character ci (counted  *)
(* after the hyphen) of argument ai.  Result                               *)
(*   [opt |-> FALSE, ai |-> index of the first operand, ci |-> 1]   or     *)
(*   [opt |-> TRUE, ch, err \in {"", "U", "M"}, k, d, ai, ci]              *)
(* the option-argument is argv[k] from its d-th character (k = 0: none).   *)
(***************************************************************************)
GOEnd(ai) == [opt |-> FALSE, ch |-> "", err |-> "", k |-> 0, d |-> 0, ai |-> ai, ci |-> 1]
GOOcc(ch, err, k, d, ai, ci) == [opt |-> TRUE, ch |-> ch, err |-> err, k |-> k, d |-> d, ai |-> ai, ci |-> ci]

GONext(os, argv, ai, ci) ==
  IF ai > Len(argv) THEN GOEnd(ai)
  ELSE LET w == argv[ai] IN
    IF w = <<"-", "-">> THEN GOEnd(ai + 1)                 \* guideline 10
    ELSE IF ~GOIsOptArg(w) \/ ci + 1 > Len(w) THEN GOEnd(ai)  \* operand (`-` included)
    ELSE
      LET c == w[ci + 1]
          more == ci + 1 < Len(w)
          t == GOJudge(os, c)
      IN IF t = "U" THEN GOOcc(c, "U", 0, 0, IF more THEN ai ELSE ai + 1, IF more THEN ci + 1 ELSE 1)
         ELSE IF t = "N" THEN GOOcc(c, "", 0, 0, IF more THEN ai ELSE ai + 1, IF more THEN ci + 1 ELSE 1)
         ELSE IF more THEN GOOcc(c, "", ai, ci + 2, ai + 1, 1)
         ELSE IF ai < Len(argv) THEN GOOcc(c, "", ai + 1, 1, ai + 2, 1)
         ELSE GOOcc(c, "M", 0, 0, ai + 1, 1)

\* The whole loop `while getopts os name argv...`: all reports, then the end.
\* (TLC re-evaluates a LET definition at each use: the recursion returns one
\* sequence -- the reports followed by the end result -- used once per level.)
RECURSIVE GOLoopSeq(_, _, _, _)
GOLoopSeq(os, argv, ai, ci) ==
  LET r == GONext(os, argv, ai, ci) IN
  IF ~r.opt THEN <<r>> ELSE <<r>> \o GOLoopSeq(os, argv, r.ai, r.ci)
GOLoopOf(q) == [reports |-> SubSeq(q, 1, Len(q) - 1), optind |-> q[Len(q)].ai]
GOLoop(os, argv) == GOLoopOf(GOLoopSeq(os, argv, 1, 1))

GOArgText(argv, r) == IF r.k = 0 THEN <<>> ELSE SubSeq(argv[r.k], r.d, Len(argv[r.k]))

\* What the script sees for one report: <<value of name, OPTARG or "unset">>
\* (strings); OPTARG is set to the empty string for an empty option-argument.
RECURSIVE GOJoin(_)
GOJoin(cs) == IF cs = <<>> THEN "" ELSE cs[1] \o GOJoin(Tail(cs))
GOVisible(os, argv, r) ==
  IF r.err = "" THEN <<r.ch, IF r.k = 0 THEN "unset" ELSE GOJoin(GOArgText(argv, r))>>
  ELSE IF GOSilent(os) THEN <<IF r.err = "M" THEN ":" ELSE "?", r.ch>>
  ELSE <<"?", "unset">>
GODiagnostic(os, loop) == ~GOSilent(os) /\ \E n \in DOMAIN loop.reports : loop.reports[n].err # ""

\* Abstract content of a run, independent of the spelling: reports as
\* <<character, error, option-argument text>> and the operands.
GOAbstract(argv, loop) ==
  [reports |-> [n \in DOMAIN loop.reports |->
                  <<loop.reports[n].ch, loop.reports[n].err, loop.reports[n].k # 0,
                    GOArgText(argv, loop.reports[n])>>],
   operands |-> SubSeq(argv, loop.optind, Len(argv))]

\* The vector with every group of letters written as separate arguments
\* (an attached option-argument stays attached to its letter).
RECURSIVE GOSplitArg(_, _, _), GOUngroup(_, _)
GOSplitArg(os, w, j) ==     \* letters of w from position j on
  IF j > Len(w) THEN <<>>
  ELSE IF GOJudge(os, w[j]) = "A" THEN << <<"-">> \o SubSeq(w, j, Len(w)) >>
  ELSE << <<"-", w[j]>> >> \o GOSplitArg(os, w, j + 1)
\* walks the vector like the loop does, so that option-arguments and
\* operands are copied verbatim
GOUngroup(os, argv) ==
  IF argv = <<>> THEN <<>>
  ELSE LET w == Head(argv) IN
    IF ~GOIsOptArg(w) THEN argv
    ELSE LET parts == GOSplitArg(os, w, 2)
             last == parts[Len(parts)]
             takes == GOJudge(os, last[2]) = "A" /\ Len(last) = 2
         IN IF takes /\ Len(argv) >= 2
            THEN parts \o <<argv[2]>> \o GOUngroup(os, SubSeq(argv, 3, Len(argv)))
            ELSE parts \o GOUngroup(os, Tail(argv))
=============================================================================
