\* NEGATIVE configuration: the named wrong order "no_loop" replaces the correct
\* protocol; TLC MUST report a deadlock / invariant violation here.
SPECIFICATION Spec
CONSTANTS
  Variant = "no_loop"
  MaxP = 7
  Scripts <- CatNegWait
INVARIANTS NoErr InvReapOnce InvStatusTrue InvNoFgLeft InvJobsSound InvDenotation
