---------------------------- MODULE Gen_HereDoc ----------------------------
(***************************************************************************)
(* spec -> impl enumeration for G03.  TLC's breadth-first search is the    *)
(* enumerator: a state is (family, header, lines so far); Next appends one *)
(* line of the family's alphabet.  For every state the invariant Emit      *)
(* prints one JSON line: the scenario, the script text, and what           *)
(* HereDoc.tla expects of it (class, event groups, standard output,        *)
(* here-document nodes, printed commands).  harness/g03 runs the script on *)
(* the real shell and compares.                                            *)
(*                                                                         *)
(* Families (constant Fams selects, Deep = 1 enlarges):                    *)
(*   core2   one operator at top level, every pair of the 33 line kinds    *)
(*   core3   ... every triple of the 14 core line kinds (Deep: of all 33)  *)
(*   core4   ... every quadruple of 8 line kinds                           *)
(*   delims  18 spellings of the delimiter word x strip x fd x blank,      *)
(*           lines derived from the delimiter                              *)
(*   two     two operators in six shapes (one command; redirections        *)
(*           first / in the middle; `;`, `&&`, `|`), same / different      *)
(*           descriptors, same / different delimiters                      *)
(*   three   three operators                                               *)
(*   places  25 placements: brace group, subshell, function called twice,  *)
(*           for loop run twice, "$( )", pipelines, newline after | and    *)
(*           &&, for-in word list, if / while / case, !, a command that    *)
(*           never runs, redirection on a compound command / function      *)
(*           body, exec, alias value, eval operand, a second document, ... *)
(*   places3 the same with three lines of a small alphabet                 *)
(*   bare    the script ends with the delimiter line, with and without a   *)
(*           final newline                                                 *)
(***************************************************************************)
EXTENDS HereDoc, Json, IOUtils

CONSTANTS Fams, Deep

VARIABLE st
vars == <<st>>

Op(strip, word, fd, sp) == [strip |-> strip, word |-> word, fd |-> fd, sp |-> sp]
Hd(place, shape, ops) == [place |-> place, shape |-> shape, ops |-> ops]

AllLines == {"a", "\ta", "\t\tb c", " \tc", "$x", "\\$x", "\\\\", "a\\", "\\", "E", "\tE", "", QuoteLine,
             "E ", " E", "$((n+1))", "$(echo s)", "`echo s`", "\\a\\\"", "${y}z", "$t", "$d", "a\\\\", "\t",
             "probe k", "probe $i", "\tprobe k", "$xy", "\t$x", "EE", "\\E", "\t\\", "\t a"}
Core14 == {"a", "\ta", "$x", "\\$x", "a\\", "\\", "E", "\tE", "", "$t", "probe k", "\t\\", "E ", "\\\\"}
Core8 == {"a", "\t$x", "a\\", "\\", "E", "\tE", "probe k", ""}

Core1Ops == {<<Op(s, w, 0, FALSE)>> : s \in BOOLEAN, w \in {"E", "'E'"}}

DelimWords == {"E", "'E'", "\\E", "\"E\"", "E''", "EOF", "'E F'", "E\\ F", "$x", "\"$x\"", "-E", "E\\\tF",
               "'\tE'", "\"a\\\\b\"", "\"\\a\"", "E\\\\", "''", "\"\""}
\* descriptor 3 is the lowest free one (where the shell's own temporary file lands), 4 is not
DelimOps == {<<Op(s, w, f, sp)>> : s \in BOOLEAN, w \in DelimWords, f \in {0, 4}, sp \in BOOLEAN}
DelimOK(op) == ~(At(op.word, 1) = "-" /\ ~op.strip /\ ~op.sp)
DelimLines(op) == LET d == Delim(op)
                  IN {"a", d, TAB \o d, d \o " ", "$x", op.word, BSL \o d, "\t\t" \o d, " " \o d}

TwoShapes == {"post", "pre", "mid", "semi", "and", "pipe"}
TwoOps == {<<Op(s1, w1, f[1], FALSE), Op(s2, w2, f[2], FALSE)>> :
             s1 \in BOOLEAN, s2 \in BOOLEAN, w1 \in {"E", "'E'"}, w2 \in {"F", "'F'", "E"},
             f \in IF Deep = 1 THEN {<<0, 0>>, <<0, 3>>, <<3, 0>>, <<3, 3>>, <<4, 3>>} ELSE {<<0, 0>>, <<0, 3>>, <<3, 3>>}}
TwoLines == IF Deep = 1 THEN {"a", "$x", "E", "F", "\tE", "\tF"} ELSE {"$x", "E", "F", "\tE", "\tF"}

ThreeOps == { <<Op(FALSE, "E", 0, FALSE), Op(TRUE, "'F'", 3, FALSE), Op(FALSE, "E", 0, TRUE)>>,
              <<Op(TRUE, "E", 0, FALSE), Op(FALSE, "F", 0, FALSE), Op(TRUE, "'E'", 0, FALSE)>> }
ThreeLines == {"$x", "E", "\tF"}

Places == {"top", "top2", "seq", "comment", "brace", "sub", "func", "for", "subst", "pipeL", "pipeR",
           "pipeNL", "andNL", "forin", "if", "case", "bredir", "fredir", "while", "bang", "never",
           "alias", "eval", "exec"}
PlaceOps == {<<Op(s, w, f, FALSE)>> : s \in BOOLEAN, w \in {"E", "'E'"}, f \in {0, 4}}
PlaceShapes(p) == IF p \in {"bredir", "fredir", "exec"} THEN {"post"}
                  ELSE IF p = "top" THEN {"pre", "mid"}   \* top/post and top/cat are in core and delims
                  ELSE {"post", "cat"}
PlaceLines == IF Deep = 1 THEN {"a", "$i$x", "E", "\tE", "probe k", "probe $i", "", "a\\", "\t$i"}
              ELSE {"$i$x", "E", "\tE", "probe k", "probe $i", "", "a\\"}
PlaceLines3 == {"$i$x", "E", "probe $i"}

BareLines == {"a", "E", "\tE", "probe k", "a\\"}

Hdrs(f) ==
  CASE f \in {"core2", "core3", "core4"} -> {Hd("top", "post", o) : o \in Core1Ops}
    [] f = "delims" -> {Hd("top", sh, o) : sh \in {"post", "cat"}, o \in {x \in DelimOps : DelimOK(x[1])}}
    [] f = "two" -> {Hd("top", sh, o) : sh \in TwoShapes, o \in TwoOps}
    [] f = "three" -> {Hd("top", sh, o) : sh \in {"post", "semi", "pipe"}, o \in ThreeOps}
    [] f \in {"places", "places3"} -> UNION {{Hd(p, sh, o) : sh \in PlaceShapes(p), o \in PlaceOps} : p \in Places}
    [] f = "bare" -> {Hd("bare", "post", o) : o \in Core1Ops}
Alpha(f, h) ==
  CASE f = "core2" -> AllLines
    [] f = "core3" -> IF Deep = 1 THEN AllLines ELSE Core14
    [] f = "core4" -> Core8
    [] f = "delims" -> DelimLines(h.ops[1])
    [] f = "two" -> TwoLines
    [] f = "three" -> ThreeLines
    [] f = "places" -> PlaceLines
    [] f = "places3" -> PlaceLines3
    [] f = "bare" -> BareLines
MaxLen(f) ==
  CASE f = "core2" -> 2
    [] f = "core3" -> 3
    [] f = "core4" -> 4
    [] f = "delims" -> 2 + Deep
    [] f = "two" -> 3 + Deep
    [] f = "three" -> 4 + Deep
    [] f = "places" -> 2
    [] f = "places3" -> 3 + Deep
    [] f = "bare" -> 3
NLs(f) == IF f = "bare" THEN BOOLEAN ELSE {TRUE}

Init == \E f \in Fams : \E h \in Hdrs(f) : \E nl \in NLs(f) :
          st = [fam |-> f, h |-> h, lines |-> <<>>, nl |-> nl]
Next == /\ Len(st.lines) < MaxLen(st.fam)
        /\ \E l \in Alpha(st.fam, st.h) : st' = [st EXCEPT !.lines = Append(@, l)]
Spec == Init /\ [][Next]_vars

RECURSIVE AsSeq(_, _)
AsSeq(f, i) == IF i > Len(f) THEN <<>> ELSE <<f[i]>> \o AsSeq(f, i + 1)

Out(s) ==
  LET e == Expect(s.h, s.lines, s.nl)
  IN [fam |-> s.fam, place |-> s.h.place, shape |-> s.h.shape, ops |-> s.h.ops, lines |-> s.lines,
      nl |-> e.nl, script |-> e.script, class |-> e.class,
      groups |-> AsSeq([i \in 1..Len(e.groups) |-> AsSeq(e.groups[i], 1)], 1),
      out |-> e.out, docs |-> AsSeq(e.docs, 1), printed |-> AsSeq(e.printed, 1)]

Emit == PrintT(ToJson(Out(st)))
=============================================================================
