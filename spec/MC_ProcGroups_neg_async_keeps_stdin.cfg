\* negative configuration: the wrong variant "async_keeps_stdin" must be refuted (law AsyncLaw)
SPECIFICATION Spec
CONSTANTS
  Variant = "async_keeps_stdin"
  Fams = {"fg", "async", "stop1", "tty", "nomon"}
  Cfgs = {"m", "mi", "-", "ml", "mib"}
  Enf = {TRUE}
ALIAS Brief
INVARIANT AsyncLaw
