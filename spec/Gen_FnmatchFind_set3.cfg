INIT Init
NEXT Next
CONSTANTS
  SAlpha <- StrSet
  SLen = 3
  Shards = 16
INVARIANT Emit
