SPECIFICATION Spec
CONSTANT Family = "w"
CONSTANT Slice = 40
CONSTANT Level = 1
CONSTANT Depth = 0
CONSTANT RLen = 0
VIEW View
INVARIANT Emit
