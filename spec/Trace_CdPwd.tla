---------------------------- MODULE Trace_CdPwd ----------------------------
(***************************************************************************)
(* G01, impl -> spec: every record                                         *)
(*   {nodes, cwd, env, s0, steps: [{pre, k, opts, args,                    *)
(*                                  st, out, pwd, oldpwd, cwd, miss}]}     *)
(* recorded from one run of the real shell (file tree; working directory   *)
(* and PWD / OLDPWD of the environment it was started with; $PWD, $OLDPWD  *)
(* and working directory observed right after the start; then for every    *)
(* step the assignments and the cd / pwd command with the exit status,     *)
(* the lines on standard output, $PWD, $OLDPWD and the working directory   *)
(* observed after it) is judged against CdPwd.tla: the specification       *)
(* state starts as Start(..) and follows Step(..); every observation must  *)
(* be the one the specification allows.                                    *)
(*                                                                         *)
(* Records are independent.  The state of this checker is an index range   *)
(* (lo, hi) that Next halves; the record at lo = hi is judged by the       *)
(* invariant, which prints a verdict line for every record that is not     *)
(* plainly accepted (the driver lib/checks/g01.py turns verdicts into      *)
(* violations and checks that every record was reached):                   *)
(*   "reject"     step k (0 = the start) has an observation (field f)      *)
(*                that the specification does not allow                    *)
(*   "unspec"     step k is one the specification leaves open; the steps   *)
(*                before it were accepted, those after it are not judged   *)
(*   "bad-input"  the record is not a well-formed case (tool error)        *)
(***************************************************************************)
EXTENDS CdPwd, Json, IOUtils

Rec == ndJsonDeserialize(IOEnv.TRACE)

VARIABLES lo, hi
vars == <<lo, hi>>

TreeOfNodes(ns) ==
  [p \in {ns[i].p : i \in 1..Len(ns)} |->
     LET i == CHOOSE i \in 1..Len(ns) : ns[i].p = p IN [k |-> ns[i].k, to |-> ns[i].to]]

V(v, k, f) == [v |-> v, k |-> k, f |-> f]

GoodStep(o) ==
  /\ o.k \in {"cd", "pwd"}
  /\ \A i \in 1..Len(o.pre) : Len(o.pre[i]) = 2 /\ o.pre[i][1] \in {"HOME", "CDPATH", "OLDPWD", "readonly"}
                             /\ (o.pre[i][1] = "readonly" => o.pre[i][2] \in {"PWD", "OLDPWD"})

RECURSIVE JudgeFrom(_, _, _, _)
JudgeFrom(T, r, S, k) ==
  IF k > Len(r.steps) THEN V("ok", 0, "")
  ELSE LET o == r.steps[k] IN
       IF ~GoodStep(o) THEN V("bad-input", k, "")
       ELSE LET R == Step(T, S, [pre |-> o.pre, k |-> o.k, opts |-> o.opts, args |-> o.args]) IN
            IF R.unspec THEN V("unspec", k, "")
            ELSE IF o.miss THEN V("reject", k, "no-observation")
            ELSE IF o.st < R.st[1] \/ o.st > R.st[2] THEN V("reject", k, "status")
            ELSE IF o.out # R.out THEN V("reject", k, "stdout")
            ELSE IF o.cwd # AbsStr(R.S.cwd) THEN V("reject", k, "cwd")
            ELSE IF o.pwd # R.S.pwd THEN V("reject", k, "pwd")
            ELSE IF o.oldpwd # R.S.oldpwd THEN V("reject", k, "oldpwd")
            ELSE JudgeFrom(T, r, R.S, k + 1)

Judge(r) ==
  LET T == TreeOfNodes(r.nodes) IN
  IF ~WellFormedTree(T) \/ Kind(T, r.cwd) # "d" THEN V("bad-input", 0, "")
  ELSE LET S0 == Start(T, r.cwd, r.env) IN
       IF r.s0.miss THEN V("reject", 0, "no-observation")
       ELSE IF r.s0.cwd # AbsStr(S0.cwd) THEN V("reject", 0, "cwd")
       ELSE IF r.s0.pwd # S0.pwd THEN V("reject", 0, "pwd")
       ELSE IF r.s0.oldpwd # S0.oldpwd THEN V("reject", 0, "oldpwd")
       ELSE JudgeFrom(T, r, S0, 1)

TraceInit == lo = 1 /\ hi = Len(Rec)

TraceNext ==
  /\ lo < hi
  /\ LET mid == (lo + hi) \div 2 IN
     \/ lo' = lo /\ hi' = mid
     \/ lo' = mid + 1 /\ hi' = hi

Verdict ==
  lo = hi => LET v == Judge(Rec[lo]) IN
             IF v.v = "ok" THEN TRUE ELSE PrintT(ToJson([i |-> lo, v |-> v.v, k |-> v.k, f |-> v.f]))

TraceSpec == TraceInit /\ [][TraceNext]_vars
=============================================================================
