SPECIFICATION FairSpec
CONSTANTS
  NT = 3
  NP = 1
  NS = 1
  Cap = 2
  MaxNow = 12
  Budget = 2
  MaxExt = 1
  MaxSel = 12
  MaxSpur = 0
  Base0 = {}
  Variant = "ok"
  Hist = "off"
  Loop = TRUE
  Peek = FALSE
  Sym = TRUE
  Fam = "tmr"
  Ops <- FamOps
  Exts <- FamExts
PROPERTY L_Terminates
PROPERTY L_TimerFires
PROPERTY L_Polled
