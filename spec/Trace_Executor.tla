--------------------------- MODULE Trace_Executor ---------------------------
(***************************************************************************)
(* P2/P3 validation for C15: the events recorded by the instrumented       *)
(* futures on the real yash-executor must form a behaviour of the abstract *)
(* contract ExecutorAbs (any woken task may be polled - a different but    *)
(* fair poll order is accepted), every event's wake_count must equal the   *)
(* number of woken tasks, and the invariants of the property must hold     *)
(* after every event.  A `reset` record starts a new run.                  *)
(* Record: [ev, t, a, r, b, v, wc]; wc = -1 means "not observed".          *)
(***************************************************************************)
EXTENDS ExecutorAbs, Json, IOUtils

Rec == ndJsonDeserialize(IOEnv.TRACE)

VARIABLE l
tvars == <<st, woken, cur, ph, blk, left, sig, wt, relay, rw, par, seen, ov, run, rc, l>>

TraceInit == l = 1 /\ AInit

WcOK(r) == IF r.wc = -1 THEN TRUE ELSE r.wc = Cardinality(woken')

Match(r) ==
  \/ r.ev = "reset"    /\ AReset
  \/ r.ev = "spawn"    /\ Spawn(r.t, r.a, r.b)
  \/ r.ev = "kick"     /\ Kick(r.t, r.a)
  \/ r.ev = "try"      /\ Try(r.a, r.r, r.v)
  \/ r.ev = "pb"       /\ r.t \in Tasks /\ \E D \in SUBSET DoneWoken : PollBeginD(r.t, D)
  \/ r.ev = "rb"       /\ RunBegin
  \/ r.ev = "re"       /\ RunEnd(r.v)
  \/ r.ev = "noop"     /\ r.b /\ \E d \in woken : Noop(d)
  \/ r.ev = "pe"       /\ PollEnd(r.t, r.b)
  \/ r.ev = "stall"    /\ Stall
  \/ r.ev = "yield"    /\ Yield(r.t)
  \/ r.ev = "wait"     /\ Wait(r.t, r.a, r.b, r.r)
  \/ r.ev = "signal"   /\ Signal(r.t, r.a)
  \/ r.ev = "await"    /\ Await(r.t, r.a, r.b, r.r, r.v)
  \/ r.ev = "complete" /\ Complete(r.t)
  \* "panic" (or any other record) matches nothing: the contract has no panics

TraceNext ==
  /\ l <= Len(Rec)
  /\ Match(Rec[l])
  /\ WcOK(Rec[l])
  /\ l' = l + 1

TraceSpec == TraceInit /\ [][TraceNext]_tvars

\* the forward-only clauses, within one run
IsReset == l <= Len(Rec) /\ Rec[l].ev = "reset"
TForward == [][IsReset \/ (RelayFwdStep /\ StatusFwdStep)]_tvars

Accepted ==
  LET d == TLCGet("stats").diameter
  IN IF d - 1 = Len(Rec) THEN TRUE
     ELSE Print(<<"REJECT", d, ToJson(Rec[d])>>, FALSE)
=============================================================================
