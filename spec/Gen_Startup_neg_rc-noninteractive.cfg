SPECIFICATION Spec
CONSTANT Fams = {"rc"}
CONSTANT Deep = 0
CONSTANT Variant = "rc-noninteractive"
INVARIANT Check
