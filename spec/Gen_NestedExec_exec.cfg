SPECIFICATION Spec
CONSTANTS
  Fuel = 24
  TickLimit = 2
  K = 3
  Alphabet <- AlphaExec
  Opts <- OptsExec
INVARIANT Emit
CHECK_DEADLOCK FALSE
