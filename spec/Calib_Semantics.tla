-------------------------- MODULE Calib_Semantics --------------------------
(***************************************************************************)
(* Calibration of the oracle Semantics.tla (DESIGN.md 4.4): worked         *)
(* examples transcribed by hand from the project manual (docs/src) and     *)
(* from the POSIX-conformance scripts yash-cli/tests/scripted_test/*-p.sh, *)
(* for the part inside the modelled fragment.  `echo x` is transcribed as  *)
(* an observation point mk(m, 0); the ASSUMEs state which observation      *)
(* points fire, in which order, the value of $? they see where the         *)
(* example prints it, and the final status where the example states it.    *)
(* A failing ASSUME is a defect of the oracle (tool error), never a        *)
(* violation.                                                              *)
(***************************************************************************)
EXTENDS Semantics

L(k, n, s, m) == [k |-> k, n |-> n, s |-> s, w |-> 0, r |-> 0, m |-> m, c |-> <<>>]
N(k, s, c) == [k |-> k, n |-> 0, s |-> s, w |-> 0, r |-> 0, m |-> 0, c |-> c]
Echo(m) == L("mk", 0, "", m)           \* echo ...        (records marker m and $?)
Mk(m, n) == L("mk", n, "", m)
P(m) == L("P", 0, "", m)                 \* echo ... $?  without changing $?
True == L("cmd", 0, "true", 0)
False == L("cmd", 0, "false", 0)
Tick == L("tick", 0, "", 0)
Brk(n) == L("brk", n, "", 0)
Cnt(n) == L("cnt", n, "", 0)
Ret(n) == L("ret", n, "", 0)
Exit(n) == L("exit", n, "", 0)
Inv(f) == L("cmd", 0, f, 0)
Rx(t) == [t EXCEPT !.r = 1]
Cw(t) == [t EXCEPT !.w = 1]
RECURSIVE SeqL(_)
SeqL(cs) == IF Len(cs) = 1 THEN cs[1] ELSE N("seq", "", <<cs[1], SeqL(Tail(cs))>>)
And(a, b) == N("and", "", <<a, b>>)
Or(a, b) == N("or", "", <<a, b>>)
Not(a) == N("not", "", <<a>>)
Pipe(a, b) == N("pipe", "", <<a, b>>)
Subsh(a) == N("sub", "", <<a>>)
If(c, t) == N("if", "", <<c, t>>)
Ife(c, t, e) == N("ife", "", <<c, t, e>>)
While(c, b) == N("while", "", <<c, b>>)
Until(c, b) == N("until", "", <<c, b>>)
For(ws, b) == N("for", ws, <<b>>)
Def(f, b) == N("def", f, <<b>>)
Esac == L("esac", 0, "", 0)
Empty == L("empty", 0, "", 0)
Item(p, term, body, rest) == [k |-> "item", n |-> term, s |-> p, w |-> 0, r |-> 0, m |-> 0, c |-> <<body, rest>>]
Case(subj, items) == N("case", subj, <<items>>)

O(e) == [e |-> e, t |-> 0, y |-> 0]
R(t, e) == Run(t, O(e))
Ms(r) == [i \in 1..Len(r.tr) |-> r.tr[i][1]]       \* which observation points fired
Seen(r) == r.tr                                      \* with the $? they saw

\* ---- docs/src/language/commands/exit_status.md, "And-or lists" ----
\* false && echo foo || echo bar  -> bar
ASSUME Ms(R(Or(And(False, Echo(1)), Echo(2)), 0)) = <<2>>
\* false && { echo foo || echo bar; }  -> nothing
ASSUME Ms(R(And(False, Or(Echo(1), Echo(2))), 0)) = <<>>
\* true || echo foo && echo bar -> bar
ASSUME Ms(R(And(Or(True, Echo(1)), Echo(2)), 0)) = <<2>>
\* true || { echo foo && echo bar; } -> nothing
ASSUME Ms(R(Or(True, And(Echo(1), Echo(2))), 0)) = <<>>
\* "Exiting on errors": set -e; test -e /nonexistent && true; echo "status was $?" -> 1
ASSUME Seen(R(SeqL(<<And(False, True), P(1)>>), 1)) = <<<<1, 1>>>>
\* "Inverting exit status"
ASSUME R(Not(False), 0).st = 0 /\ R(Not(True), 0).st = 1 /\ R(Not(Mk(1, 3)), 0).st = 0
\* if without a taken branch: exit status 0
ASSUME R(SeqL(<<Mk(1, 3), If(False, True)>>), 0).st = 0

\* ---- docs/src/language/commands/loops.md ----
\* for over three words; break at the third; continue at the third of five
ASSUME Ms(R(For("abc", Echo(1)), 0)) = <<1, 1, 1>>
ASSUME Ms(R(For("", Echo(1)), 0)) = <<>> /\ R(SeqL(<<Mk(1, 3), For("", Echo(2))>>), 0).st = 0
\* break 2 out of the inner of two loops: "Inner loop: 1, a / Breaking outer loop at 1, b"
ASSUME Ms(R(For("ab", For("abc", SeqL(<<Case("v", Item("b", 0, SeqL(<<Echo(1), Brk(2)>>), Esac)), Echo(2)>>))), 0))
         = <<2, 1>>
\* "the exit status of the condition does not affect the exit status of the loop"
ASSUME R(SeqL(<<Mk(1, 3), While(False, True)>>), 0).st = 0
ASSUME R(While(Tick, Mk(1, 3)), 0).st = 3

\* ---- docs/src/language/commands/case.md ----
\* ;& continues with the next branch; ;;& continues matching
ASSUME Ms(R(Case("a", Item("a", 1, Echo(1), Item("b", 0, Echo(2), Item("*", 0, Echo(3), Esac)))), 0)) = <<1, 2>>
ASSUME Ms(R(Case("a", Item("a", 2, Echo(1), Item("b", 0, Echo(2), Item("*", 0, Echo(3), Esac)))), 0)) = <<1, 3>>
\* no match / empty last branch: exit status 0
ASSUME R(SeqL(<<Mk(1, 3), Case("a", Item("b", 0, Mk(2, 4), Esac))>>), 0).st = 0
ASSUME R(SeqL(<<Mk(1, 3), Case("a", Item("a", 1, Mk(2, 4), Item("b", 0, Empty, Esac)))>>), 0).st = 0
ASSUME R(Case("a", Item("a", 0, Mk(2, 4), Esac)), 0).st = 4

\* ---- docs/src/language/functions.md: is_positive ----
ASSUME Seen(R(SeqL(<<Def("f", SeqL(<<If(True, SeqL(<<Echo(1), Ret(1)>>)), Echo(2), Ret(-1)>>)), Inv("f"), P(3)>>), 0))
         = <<<<1, 0>>, <<3, 1>>>>
\* a function that was not defined: 127
ASSUME R(Inv("f"), 0).st = 127

\* ---- docs/src/termination.md ----
\* EXIT trap runs on exit, once; exit status of the shell = last command
ASSUME Run(SeqL(<<Echo(1), Exit(-1)>>), [e |-> 0, t |-> 1, y |-> 0]).tr = <<<<1, 0>>, <<0, 0>>>>
\* subshell: exit leaves the subshell only
ASSUME Seen(R(SeqL(<<Subsh(Exit(4)), P(1)>>), 0)) = <<<<1, 4>>>>
\* redirection error of an ordinary command: continues without errexit, exits with it
ASSUME Ms(R(SeqL(<<Rx(Echo(1)), Echo(2)>>), 0)) = <<2>> /\ Ms(R(SeqL(<<Rx(Echo(1)), Echo(2)>>), 1)) = <<>>
\* redirection error of a special built-in: exits; not through `command`
ASSUME Ms(R(SeqL(<<Rx(L("nop", 0, "", 0)), Echo(2)>>), 0)) = <<>>
ASSUME Ms(R(SeqL(<<Cw(Rx(L("nop", 0, "", 0))), Echo(2)>>), 0)) = <<2>>
\* assignment / expansion errors: exit
ASSUME Ms(R(SeqL(<<L("asg", 0, "", 0), Echo(2)>>), 0)) = <<>> /\ R(SeqL(<<L("asg", 0, "", 0), Echo(2)>>), 0).st < 0
ASSUME Ms(R(SeqL(<<L("exp", 0, "", 1), Echo(2)>>), 0)) = <<>>
\* command not found: continues
ASSUME Seen(R(SeqL(<<Inv("nosuch"), P(2)>>), 0)) = <<<<2, 127>>>>

\* simple.md "Exit status": no fields after expansion and no command substitution: zero
ASSUME Seen(R(SeqL(<<Mk(1, 3), L("nil", 0, "", 0), P(2)>>), 0)) = <<<<1, 0>>, <<2, 0>>>>

\* ---- errexit-p.sh ----
ASSUME Ms(R(SeqL(<<False, Echo(1)>>), 0)) = <<1>> /\ R(SeqL(<<False, Echo(1)>>), 0).st = 0
ASSUME Ms(R(SeqL(<<False, Echo(1)>>), 1)) = <<>> /\ R(SeqL(<<False, Echo(1)>>), 1).st # 0
\* middle of pipeline / last of pipeline / negated pipeline
ASSUME Ms(R(SeqL(<<Pipe(False, Pipe(False, True)), Echo(1)>>), 1)) = <<1>>
ASSUME Ms(R(SeqL(<<Pipe(True, Pipe(True, False)), Echo(1)>>), 1)) = <<>>
ASSUME Ms(R(SeqL(<<Not(Pipe(False, Pipe(False, True))), Not(Pipe(True, Pipe(True, False))), Echo(1)>>), 1)) = <<1>>
\* and/or lists
ASSUME Ms(R(SeqL(<<And(And(False, Not(Echo(1))), Not(Echo(2))), Echo(3)>>), 1)) = <<3>>
ASSUME Ms(R(SeqL(<<And(And(True, True), False), Echo(3)>>), 1)) = <<>>
ASSUME Ms(R(SeqL(<<Or(Or(False, False), True), Echo(3)>>), 1)) = <<3>>
ASSUME Ms(R(SeqL(<<Or(Or(False, False), False), Echo(3)>>), 1)) = <<>>
\* subshell: (echo 1; false; echo 2) | cat; (echo 3; false; echo 4); echo 5
ASSUME Ms(R(SeqL(<<Pipe(Subsh(SeqL(<<Echo(1), False, Echo(2)>>)), True), Subsh(SeqL(<<Echo(3), False, Echo(4)>>)), Echo(5)>>), 0))
         = <<1, 2, 3, 4, 5>>
ASSUME Ms(R(SeqL(<<Pipe(Subsh(SeqL(<<Echo(1), False, Echo(2)>>)), True), Subsh(SeqL(<<Echo(3), False, Echo(4)>>)), Echo(5)>>), 1))
         = <<1, 3>>
\* grouping: { echo 1; false; echo 2; } | cat; { echo 3; false; echo 4; }; echo 5
ASSUME Ms(R(SeqL(<<Pipe(SeqL(<<Echo(1), False, Echo(2)>>), True), SeqL(<<Echo(3), False, Echo(4)>>), Echo(5)>>), 1))
         = <<1, 3>>
\* for loop body (second iteration fails), case body
ASSUME Ms(R(SeqL(<<For("abc", SeqL(<<Echo(1), Case("v", Item("b", 0, False, Esac)), Echo(2)>>)), Echo(3)>>), 1))
         = <<1, 2, 1>>
ASSUME Ms(R(SeqL(<<Case("a", Item("a", 0, SeqL(<<Echo(1), False, Echo(2)>>), Esac)), Echo(3)>>), 1)) = <<1>>
\* if/elif conditions, then/else bodies
ASSUME Ms(R(SeqL(<<Ife(SeqL(<<False, True>>), Echo(1), Echo(2)), Echo(3)>>), 1)) = <<1, 3>>
ASSUME Ms(R(SeqL(<<Ife(False, True, Ife(SeqL(<<False, True>>), Echo(1), Echo(2))), Echo(3)>>), 1)) = <<1, 3>>
ASSUME Ms(R(SeqL(<<If(True, SeqL(<<Echo(1), False, Echo(2)>>)), Echo(3)>>), 1)) = <<1>>
ASSUME Ms(R(SeqL(<<Ife(False, True, SeqL(<<Echo(1), False, Echo(2)>>)), Echo(3)>>), 1)) = <<1>>
\* while/until conditions and bodies
ASSUME Ms(R(SeqL(<<While(False, True), Echo(1)>>), 1)) = <<1>>
ASSUME Ms(R(SeqL(<<Until(SeqL(<<False, True>>), True), Echo(1)>>), 1)) = <<1>>
ASSUME Ms(R(SeqL(<<Until(False, SeqL(<<Echo(1), False, Echo(2), Brk(1)>>)), Echo(3)>>), 0)) = <<1, 2, 3>>
ASSUME Ms(R(SeqL(<<Until(False, SeqL(<<Echo(1), False, Echo(2), Brk(1)>>)), Echo(3)>>), 1)) = <<1>>
\* ignored failure in subshell / grouping / if body
ASSUME Ms(R(SeqL(<<Subsh(And(False, True)), Echo(1)>>), 1)) = <<>>
ASSUME Ms(R(SeqL(<<And(False, True), Echo(1)>>), 1)) = <<1>>
ASSUME Ms(R(SeqL(<<If(True, And(False, True)), Echo(1)>>), 1)) = <<1>>

\* ---- break-p.sh / continue-p.sh ----
\* breaking one for loop, unnested: in 1 / done 0
ASSUME Seen(R(SeqL(<<For("abc", SeqL(<<Echo(1), Brk(1), Echo(2)>>)), P(3)>>), 0)) = <<<<1, 0>>, <<3, 0>>>>
\* breaking one for loop nested in a for loop: in 1, in 1 a, out 1, in 2, ...
ASSUME Ms(R(For("ab", SeqL(<<Echo(1), For("abc", SeqL(<<Echo(2), Brk(1), Echo(3)>>)), Echo(4)>>)), 0))
         = <<1, 2, 4, 1, 2, 4>>
\* breaking two loops; breaking more loops than there are
ASSUME Ms(R(SeqL(<<For("ab", SeqL(<<Echo(1), For("abc", SeqL(<<Echo(2), Brk(2), Echo(3)>>)), Echo(4)>>)), Echo(5)>>), 0))
         = <<1, 2, 5>>
ASSUME Ms(R(SeqL(<<For("ab", SeqL(<<Echo(1), Brk(2), Echo(3)>>)), Echo(5)>>), 0)) = <<1, 5>>
\* continue: next iteration of the n-th enclosing loop
ASSUME Ms(R(For("ab", SeqL(<<Echo(1), Cnt(1), Echo(2)>>)), 0)) = <<1, 1>>
ASSUME Ms(R(For("ab", SeqL(<<Echo(1), For("ab", SeqL(<<Echo(2), Cnt(2), Echo(3)>>)), Echo(4)>>)), 0)) = <<1, 2, 1, 2>>
ASSUME Seen(R(SeqL(<<While(Tick, SeqL(<<Mk(1, 3), Cnt(1)>>)), P(2)>>), 0)) = <<<<1, 0>>, <<1, 0>>, <<1, 0>>, <<2, 0>>>>

\* ---- return-p.sh / function-p.sh / exit-p.sh ----
\* return leaves the innermost function only, with the operand or $?
ASSUME Seen(R(SeqL(<<Def("g", SeqL(<<Ret(5), Echo(9)>>)), Def("f", SeqL(<<Inv("g"), P(1), Ret(-1)>>)), Inv("f"), P(2)>>), 0))
         = <<<<1, 5>>, <<2, 5>>>>
\* return inside a loop inside a function
ASSUME Ms(R(SeqL(<<Def("f", SeqL(<<For("ab", SeqL(<<Echo(1), Ret(3)>>)), Echo(2)>>)), For("ab", SeqL(<<Inv("f"), Echo(3)>>))>>), 0))
         = <<1, 3, 1, 3>>
\* return in a subshell inside a function (2.13: the subshell is a duplicate of the environment that
\* is executing the function; bash, dash and yash agree): it ends the subshell with that status,
\* the function goes on:  f() { (return 3; echo no); echo $?; return; }; f; echo $?
ASSUME Seen(R(SeqL(<<Def("f", SeqL(<<Subsh(SeqL(<<Ret(3), Echo(9)>>)), P(1), Ret(-1)>>)), Inv("f"), P(2)>>), 0))
         = <<<<1, 3>>, <<2, 3>>>>
\* f() ( return 3 ); f; echo $?      and      f() { echo a | return 3; echo $?; }
ASSUME Seen(R(SeqL(<<Def("f", Subsh(Ret(3))), Inv("f"), P(2)>>), 0)) = <<<<2, 3>>>>
ASSUME Seen(R(SeqL(<<Def("f", SeqL(<<Pipe(Echo(1), Ret(3)), P(2)>>)), Inv("f")>>), 0)) = <<<<1, 0>>, <<2, 3>>>>
\* exit in a function, in a loop; exit without operand keeps $?
ASSUME Ms(R(SeqL(<<Def("f", Exit(4)), For("ab", SeqL(<<Echo(1), Inv("f"), Echo(2)>>)), Echo(3)>>), 0)) = <<1>>
ASSUME R(SeqL(<<Def("f", Exit(4)), Inv("f")>>), 0).st = 4 /\ R(SeqL(<<Mk(1, 3), Exit(-1)>>), 0).st = 3
\* a function overrides a regular built-in, not through `command`
ASSUME Ms(R(SeqL(<<Def("true", Echo(1)), Inv("true"), Cw(Inv("true"))>>), 0)) = <<1>>

\* ---- pipeline-p.sh ----
ASSUME R(Pipe(Mk(1, 3), True), 0).st = 0 /\ R(Pipe(True, Mk(1, 3)), 0).st = 3
ASSUME R(Not(Pipe(True, Mk(1, 3))), 0).st = 0

\* ---- syntax error on a later line: earlier lines run, then the shell exits ----
ASSUME LET r == Run(SeqL(<<Echo(1), Echo(2)>>), [e |-> 0, t |-> 1, y |-> 1])
       IN Ms(r) = <<1, 0>> /\ r.st < 0 /\ r.nt = 1
=============================================================================
