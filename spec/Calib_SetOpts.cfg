INIT Init
NEXT Next
