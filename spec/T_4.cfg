SPECIFICATION Spec
CONSTANTS
  NT = 3
  NP = 1
  NS = 1
  Cap = 2
  MaxNow = 2
  Budget = 2
  MaxExt = 2
  MaxSel = 2
  MaxSpur = 0
  Base0 = {}
  Variant = "ok"
  Hist = "off"
  Loop = FALSE
  Peek = FALSE
  Sym = TRUE
  Fam = "mix"
  Ops <- FamOps
  Exts <- FamExts
INVARIANT TypeOK
