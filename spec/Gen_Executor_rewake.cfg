SPECIFICATION Spec
CONSTANTS
  MaxTasks = 2
  NChan = 1
  Budget = 2
  MaxOver = 2
  YieldFree = FALSE
  MaxRoots = 2
  MaxExt = 3
  Lifo = FALSE
  Hist = TRUE
  Pinned = FALSE
VIEW view
INVARIANT DriverInv
INVARIANT FifoOnce
INVARIANT EmitState
PROPERTY RefinesAbs
PROPERTY RelayForward
PROPERTY StatusForward
