SPECIFICATION Spec
CONSTANTS
  Names = {"x"}
  Vals = {"a", "b"}
  MaxDepth = 4
  PosVals <- PosNone
  Thens = {"none", "assign", "ro"}
  MaxH = 100
VIEW view
INVARIANT TypeOK
INVARIANT Normalized
INVARIANT ObservationsAgree
INVARIANT EmitState
PROPERTY RefinesVarRef
PROPERTY ReadOnlyNeverChanges
PROPERTY ReadOnlyVisible
