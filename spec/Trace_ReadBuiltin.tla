------------------------- MODULE Trace_ReadBuiltin -------------------------
(***************************************************************************)
(* impl -> spec validation for G05.  Every record of the ndjson file       *)
(* IOEnv.TRACE was produced by harness/g05 from one run of the real `read` *)
(* built-in:                                                               *)
(*   d, raw   the options (d = "none": no -d)                              *)
(*   ifs      [set, v] the value of IFS                                    *)
(*   k        kinds of the variable operands (string over o, r, b)         *)
(*   inp      the tokens on descriptor 0;  feed: how they got there        *)
(*            ("closed": descriptor 0 is closed)                           *)
(*   obs      [done, st, vals, set, pre, oth, used, mid], see              *)
(*            ReadBuiltin!Conforms                                         *)
(* A record is accepted iff Conforms(Expect(..), obs) = "ok".              *)
(*                                                                         *)
(* The records are independent: the "behaviour" is a binary splitting of   *)
(* the index range (all TLC workers share the work); the invariant judges  *)
(* the record at every leaf and prints one JSON line per record that is    *)
(* rejected or whose class is not "ok".                                    *)
(***************************************************************************)
EXTENDS ReadBuiltin, Json, IOUtils

Rec == ndJsonDeserialize(IOEnv.TRACE)
N == Len(Rec)

VARIABLES lo, hi
vars == <<lo, hi>>

Init == lo = 1 /\ hi = N
Next == /\ lo < hi
        /\ LET mid == (lo + hi) \div 2
           IN \/ lo' = lo /\ hi' = mid
              \/ lo' = mid + 1 /\ hi' = hi
Spec == Init /\ [][Next]_vars

Verdict(r) ==
  LET o == Opt(r.raw, r.d)
      vk == Chars(r.k)
      ifs == [set |-> r.ifs.set, v |-> Chars(r.ifs.v)]
      e == IF r.feed = "closed" THEN ExpectUnreadable(o, vk) ELSE Expect(o, ifs, vk, r.inp)
  IN [v |-> Conforms(e, vk, r.obs), class |-> e.class]

Judge ==
  (lo = hi /\ N > 0) =>
     LET j == Verdict(Rec[lo])
     IN IF j.v = "ok" /\ j.class = "ok" THEN TRUE
        ELSE PrintT(ToJson([i |-> lo, v |-> j.v, class |-> j.class]))
=============================================================================
