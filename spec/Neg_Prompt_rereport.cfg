SPECIFICATION Spec
CONSTANT Fams = {"jobs"}
CONSTANT Deep = 0
CONSTANT Variant = "rereport"
INVARIANT Refute
