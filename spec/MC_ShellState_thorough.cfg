SPECIFICATION Spec
CONSTANTS
  Configs = {"vars", "alias", "func", "opt", "trap", "umask", "mixed"}
  Depth = 5
  Rich = FALSE
VIEW View
INVARIANT ListingsOK
INVARIANT HistoryOK
INVARIANT Emit
