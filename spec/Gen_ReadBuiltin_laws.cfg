SPECIFICATION Spec
CONSTANT Fams = {"core", "long", "wide", "delim", "bytes"}
CONSTANT Deep = 1
INVARIANT Laws
