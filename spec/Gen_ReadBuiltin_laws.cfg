SPECIFICATION Spec
CONSTANT Fams = {"core", "wide", "delim", "bytes"}
CONSTANT Deep = 1
INVARIANT Laws
