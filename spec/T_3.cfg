SPECIFICATION Spec
CONSTANTS
  NT = 3
  NP = 1
  NS = 1
  Cap = 2
  MaxNow = 3
  Budget = 2
  MaxExt = 3
  MaxSel = 3
  MaxSpur = 1
  Base0 = {}
  Variant = "ok"
  Hist = "off"
  Loop = FALSE
  Peek = TRUE
  Sym = TRUE
  Fam = "tmr"
  Ops <- FamOps
  Exts <- FamExts
INVARIANT TypeOK
