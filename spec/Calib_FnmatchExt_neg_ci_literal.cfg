INIT Init
NEXT Next
CONSTANTS
  Variant = "ci_literal"
INVARIANT C_LitCI
