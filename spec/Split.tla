------------------------------- MODULE Split -------------------------------
(***************************************************************************)
(* Field splitting (POSIX XCU 2.6.5; docs/src/language/words/              *)
(* field_splitting.md) over attributed characters, and the splitting done  *)
(* by the `read` built-in (XCU read; docs/src/builtins/read.md).           *)
(*                                                                         *)
(* Two definitions are given and TLC checks that they agree on a bounded   *)
(* domain (MC_Split):                                                      *)
(*   - RangesDecl: a declarative characterisation written from the text of *)
(*     2.6.5 ("IFS white space is ignored at the beginning and end; each   *)
(*     occurrence of an IFS character that is not IFS white space, along   *)
(*     with any adjacent IFS white space, delimits a field; non-zero-length*)
(*     IFS white space delimits a field");                                 *)
(*   - RangesMachine: the three-state machine in the shape of              *)
(*     yash-env/src/semantics/expansion/split/ranges.rs (Ranges::next).    *)
(* Only RangesDecl is used as the oracle.                                  *)
(***************************************************************************)
EXTENDS Chars, FiniteSets

(* The value of IFS: [set |-> BOOLEAN, v |-> text].  Unset IFS behaves as   *)
(* <space><tab><newline> (2.6.5).                                           *)
IfsUnset == [set |-> FALSE, v |-> <<>>]
IfsOf(s) == [set |-> TRUE, v |-> Chars(s)]
IfsChars(ifs) == IF ifs.set THEN ifs.v ELSE <<" ", "\t", "\n">>

(* Class of a plain character: "W" IFS white space, "D" any other IFS      *)
(* character (a delimiter of its own), "N" not a separator.                *)
ClassOfChar(c, ifs) ==
  IF InSeq(c, IfsChars(ifs)) THEN (IF IsIfsWhiteSpaceChar(c) THEN "W" ELSE "D") ELSE "N"

(* Only unquoted results of expansions are candidates for splitting; every *)
(* other character (literal, quoted, quoting) belongs to its field.        *)
ClassOf(a, ifs) == IF a.k = "exp" THEN ClassOfChar(a.c, ifs) ELSE "N"
Classes(f, ifs) == [i \in DOMAIN f |-> ClassOf(f[i], ifs)]

---------------------------------------------------------------------------
(* Declarative characterisation.  A range <<a, b>> denotes positions a..b  *)
(* (b = a-1: the empty field delimited at position a).                     *)

(* A non-white-space separator at i closes the field before it if, looking *)
(* back over adjacent IFS white space, there is a field character.         *)
Attached(cs, i) ==
  \E j \in 1..(i-1) : cs[j] = "N" /\ \A m \in (j+1)..(i-1) : cs[m] = "W"

RunStart(cs, a) == cs[a] = "N" /\ (a = 1 \/ cs[a-1] # "N")
RunEnd(cs, a) ==
  CHOOSE b \in a..Len(cs) :
     /\ \A m \in a..b : cs[m] = "N"
     /\ (b = Len(cs) \/ cs[b+1] # "N")

RangeSetDecl(cs) ==
     \* every maximal run of non-separators is a field
     { <<a, RunEnd(cs, a)>> : a \in {a \in DOMAIN cs : RunStart(cs, a)} }
     \* every other non-white-space separator delimits an empty field
  \cup { <<i, i-1>> : i \in {i \in DOMAIN cs : cs[i] = "D" /\ ~Attached(cs, i)} }

RECURSIVE SortByStart(_)
SortByStart(S) ==
  IF S = {} THEN <<>>
  ELSE LET r == CHOOSE r \in S : \A q \in S : r[1] <= q[1]
       IN <<r>> \o SortByStart(S \ {r})

RangesDecl(cs) == SortByStart(RangeSetDecl(cs))

---------------------------------------------------------------------------
(* Implementation-shaped machine (Ranges::next): states "AD" (after a      *)
(* non-white-space separator; initial), "AW" (after IFS white space),      *)
(* "M" with the start index (in the middle of a field); index n+1 = end.   *)
RECURSIVE MachineFrom(_, _, _, _)
MachineFrom(cs, i, state, acc) ==
  IF i > Len(cs) + 1 THEN acc
  ELSE LET cl == IF i <= Len(cs) THEN cs[i] ELSE "END" IN
    IF state[1] = "M" THEN                     \* Midfield {start_index = state[2]}
      (CASE cl = "D" \/ cl = "END" -> MachineFrom(cs, i+1, <<"AD", 0>>, Append(acc, <<state[2], i-1>>))
         [] cl = "W" -> MachineFrom(cs, i+1, <<"AW", 0>>, Append(acc, <<state[2], i-1>>))
         [] OTHER -> MachineFrom(cs, i+1, state, acc))
    ELSE
      (CASE cl = "END" -> acc
         [] cl = "N" -> MachineFrom(cs, i+1, <<"M", i>>, acc)
         [] cl = "W" -> MachineFrom(cs, i+1, state, acc)
         [] state[1] = "AW" /\ cl = "D" -> MachineFrom(cs, i+1, <<"AD", 0>>, acc)
         [] OTHER -> MachineFrom(cs, i+1, <<"AD", 0>>, Append(acc, <<i, i-1>>)))   \* AD, D

RangesMachine(cs) == MachineFrom(cs, 1, <<"AD", 0>>, <<>>)

---------------------------------------------------------------------------
(* Splitting one field of attributed characters into fields.               *)
SplitRanges(f, ifs) == RangesDecl(Classes(f, ifs))
SplitField(f, ifs) ==
  LET R == SplitRanges(f, ifs) IN [k \in 1..Len(R) |-> SubSeq(f, R[k][1], R[k][2])]

RECURSIVE SplitFields(_, _)
SplitFields(fs, ifs) ==
  IF fs = <<>> THEN <<>> ELSE SplitField(Head(fs), ifs) \o SplitFields(Tail(fs), ifs)

---------------------------------------------------------------------------
(* The `read` built-in: line (attributed: a backslash-escaped character is *)
(* "qtd" preceded by a "qm" backslash, everything else "exp") into n >= 1  *)
(* variables.  The first n-1 variables get the first fields; the last one  *)
(* gets "the remainder": from the start of the n-th field to the last      *)
(* character that is not (splittable) IFS white space.                     *)
(*                                                                         *)
(* Allowed set: when the line has exactly n fields and the n-th is         *)
(* followed by one non-white-space separator, POSIX.1-2024 (the unsplit    *)
(* remaining input, trailing IFS white space removed) keeps that separator *)
(* while docs/src/builtins/read.md ("if there are more fields than         *)
(* variables ...") and read-p.sh ('exact number of fields with             *)
(* non-whitespace IFS') assign the bare field; both are allowed.           *)
LastNonWs(cs) ==
  LET S == {i \in DOMAIN cs : cs[i] # "W"} IN
  IF S = {} THEN 0 ELSE CHOOSE i \in S : \A j \in S : j <= i

ReadAllowed(line, n, ifs) ==
  LET cs == Classes(line, ifs)
      R  == RangesDecl(cs)
      m  == Len(R)
      Fld(k) == IF k <= m THEN SubSeq(line, R[k][1], R[k][2]) ELSE <<>>
      Rem == SubSeq(line, R[n][1], LastNonWs(cs))
      Lasts == IF m < n THEN { <<>> }
               ELSE IF m = n THEN { Fld(n), Rem }
               ELSE { Rem }
  IN { [k \in 1..n |-> Plain(RemoveQuotes(IF k < n THEN Fld(k) ELSE last))] : last \in Lasts }

---------------------------------------------------------------------------
(* Sanity theorems about the oracle itself (checked by TLC in MC_Split).   *)
(* R is RangesDecl(cs), passed in so that it is computed once.             *)
InRange(r, i) == r[1] <= i /\ i <= r[2]

ThMachineAgrees(cs, R) == RangesMachine(cs) = R

(* no field contains a splittable IFS character *)
ThNoSeparatorInField(cs, R) ==
  \A k \in DOMAIN R : \A i \in R[k][1]..R[k][2] : cs[i] = "N"

(* empty fields arise only at non-white-space separators *)
ThEmptyOnlyFromDelimiter(cs, R) ==
  \A k \in DOMAIN R : R[k][2] < R[k][1] => cs[R[k][1]] = "D"

(* fields are in order and disjoint; what lies outside them is exactly the *)
(* separators: concatenating fields and consumed separators gives the input*)
ThPartition(cs, R) ==
  /\ \A k \in DOMAIN R : k > 1 => R[k-1][2] < R[k][1] /\ R[k-1][1] < R[k][1]
  /\ \A i \in DOMAIN cs : (cs[i] = "N") <=> (\E k \in DOMAIN R : InRange(R[k], i))

(* a stretch of non-splittable text is never divided between two fields *)
ThQuotedNeverSplit(cs, R) ==
  \A i \in 1..(Len(cs)-1) : cs[i] = "N" /\ cs[i+1] = "N" =>
      \E k \in DOMAIN R : InRange(R[k], i) /\ InRange(R[k], i+1)

(* white space alone never creates a field *)
ThWhiteSpaceOnlyNoFields(cs, R) ==
  (\A i \in DOMAIN cs : cs[i] = "W") => R = <<>>

(* every non-white-space separator ends exactly one field, every field    *)
(* that is not ended by one is a run                                       *)
ThCount(cs, R) ==
  LET nD == Cardinality({i \in DOMAIN cs : cs[i] = "D"})
      nRuns == Cardinality({a \in DOMAIN cs : RunStart(cs, a)})
  IN nD <= Len(R) /\ nRuns <= Len(R) /\ Len(R) <= nD + nRuns

(* read with enough variables assigns exactly the split fields; read into  *)
(* one variable strips leading and trailing IFS white space only           *)
ThReadConsistent(line, ifs) ==
  LET F == SplitField(line, ifs)
      m == Len(F)
      A == ReadAllowed(line, m + 1, ifs)
  IN /\ A = { [k \in 1..(m+1) |-> IF k <= m THEN Plain(RemoveQuotes(F[k])) ELSE <<>>] }
     /\ \A v \in ReadAllowed(line, 1, ifs) :
          /\ (v[1] # <<>> /\ \A a \in DOMAIN line : line[a].k = "exp") =>
               /\ ClassOfChar(v[1][1], ifs) # "W"
               /\ ClassOfChar(v[1][Len(v[1])], ifs) # "W"

SplitTheorems(f, ifs) ==
  LET cs == Classes(f, ifs)
      R == RangesDecl(cs)
  IN /\ ThMachineAgrees(cs, R)
     /\ ThNoSeparatorInField(cs, R)
     /\ ThEmptyOnlyFromDelimiter(cs, R)
     /\ ThPartition(cs, R)
     /\ ThQuotedNeverSplit(cs, R)
     /\ ThWhiteSpaceOnlyNoFields(cs, R)
     /\ ThCount(cs, R)
     /\ ThReadConsistent(f, ifs)
=============================================================================
