SPECIFICATION Spec
CONSTANT MaxLen = 6
INVARIANT Theorems
INVARIANT EmptyIfsNoSplit
INVARIANT AllQuotedOneField
