SPECIFICATION GSpec
CONSTANTS
  Names = {"x"}
  Vals = {"a"}
  MaxDepth = 3
  PosVals <- PosNone
  Thens = {"none", "assign", "ro"}
INVARIANT TypeOK
INVARIANT ProjectionFaithful
INVARIANT EnvExact
INVARIANT ScopedOpsAreLocal
INVARIANT PopRestores
INVARIANT LocalsVanish
INVARIANT AssignThenLookup
PROPERTY GReadOnlyNeverChanges
PROPERTY GReadOnlyVisible
