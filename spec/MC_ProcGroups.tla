---------------------------- MODULE MC_ProcGroups ----------------------------
(***************************************************************************)
(* The bounded model of G16: a scenario of the catalogue is chosen, then   *)
(* the processes, the terminal driver and the shell's own parent take      *)
(* steps in every order.  TLC checks the laws of ProcGroups on every       *)
(* reachable state, and - deadlock checking on - that a scenario without   *)
(* `pause` never gets stuck before the shell has finished.                 *)
(* With Variant # "ok" the same laws must be REFUTED (negative             *)
(* configurations MC_ProcGroups_neg_*.cfg).                                *)
(***************************************************************************)
EXTENDS ProcGroupsScn

CONSTANTS Fams, Cfgs, Enf

VARIABLES sc, st
vars == <<sc, st>>

Init == /\ sc \in Catalogue(Fams, Cfgs, Enf)
        /\ st = InitState(sc)

RECURSIVE HasPause(_)
HasPause(list) ==
  \E k \in DOMAIN list :
     \/ list[k].op = "pause"
     \/ \E b \in DOMAIN list[k].body : HasPause(list[k].body[b])

ProcStep == \E p \in DOMAIN st.proc : \E t \in Steps(sc, st, p) : st' = t
TtyAct == TtyEnabled(sc, st) /\ st' = TtyStep(sc, st)
OuterAct == OuterEnabled(st) /\ st' = OuterStep(st)
\* the end of a behaviour: the shell has finished and nothing else can move,
\* or a blocked (`pause`) job waits for a signal nobody sends any more
Rest == /\ Stuck(sc, st) /\ ~TtyEnabled(sc, st) /\ ~OuterEnabled(st)
        /\ ShellDone(st) \/ HasPause(sc.prog) \/ sc.id \div 10000 = FamNo("hang")
        /\ st' = st

Next == (ProcStep \/ TtyAct \/ OuterAct \/ Rest) /\ UNCHANGED sc

Spec == Init /\ [][Next]_vars

\* compact rendering of a state in error traces (cfg: ALIAS Brief)
Brief == [id |-> sc.id, v |-> <<sc.m, sc.i, sc.fg0, sc.spg, sc.sl, sc.enf>>, fg |-> st.fg, ei |-> st.ei,
          ps |-> [q \in DOMAIN st.proc |->
                    <<st.proc[q].st \o st.proc[q].ss, st.proc[q].pg, st.proc[q].md, st.proc[q].todo,
                      st.proc[q].pc, st.proc[q].mpc, st.proc[q].dp>>]]

AllLaws == Laws(sc, st)
OwnGroup == LawOwnGroup(sc, st)
ParentSees == LawParentSees(sc, st)
FgBeforeRun == LawFgBeforeRun(sc, st)
TakeBack == LawTakeBack(sc, st)
BgNeverFg == LawBgNeverFg(sc, st)
FgResumed == LawFgResumed(sc, st)
ShellRuns == LawShellRuns(sc, st)
NoGroups == LawNoGroups(sc, st)
AsyncLaw == LawAsync(sc, st)
JobDefaults == LawJobDefaults(sc, st)
ProbesLaw == LawProbes(sc, st)
BgResumes == LawBgResumes(sc, st)
=============================================================================
