SPECIFICATION Spec
CONSTANT Fams = {"exp1", "exp2", "ps2", "multi", "eof", "jobs", "read", "modes", "call", "guard"}
CONSTANT Deep = 0
CONSTANT Variant = "spec"
INVARIANT Emit
