\* G06 enumeration, quick: all roots, states within 1 successful operation; big fan of spellings at two roots
INIT Init
NEXT Next
VIEW View
CONSTANTS
  Depth = 1
  RootIds = {1, 2, 3, 4, 5, 6}
  BigRoots = {1, 4}
  Wide = FALSE
INVARIANT Emit
