SPECIFICATION Spec
CONSTANT Variant = "leak"
CONSTANT MaxLen = 1
CONSTANT PairSlice = 1
CONSTANT TripleSlice = 0
CONSTANT RawMax = 0
CONSTANT DoEmit = FALSE
INVARIANT InvContained
