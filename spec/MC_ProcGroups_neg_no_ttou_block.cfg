\* negative configuration: the wrong variant "no_ttou_block" must be refuted (law ShellRuns)
SPECIFICATION Spec
CONSTANTS
  Variant = "no_ttou_block"
  Fams = {"fg", "async", "stop1", "tty", "nomon"}
  Cfgs = {"m", "mi", "-", "ml", "mib"}
  Enf = {TRUE}
ALIAS Brief
INVARIANT ShellRuns
