SPECIFICATION TraceSpec
INVARIANT Verdict
CHECK_DEADLOCK FALSE
