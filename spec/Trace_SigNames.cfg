SPECIFICATION TraceSpec
CONSTANTS
  Variant = "none"
INVARIANT Verdict
CHECK_DEADLOCK FALSE
