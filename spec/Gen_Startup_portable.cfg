SPECIFICATION Spec
CONSTANT Fams = {"portable"}
CONSTANT Deep = 0
CONSTANT Variant = ""
INVARIANT Check
