------------------------------- MODULE Tilde -------------------------------
(***************************************************************************)
(* Tilde expansion (growth module G04, part A).                            *)
(*                                                                         *)
(* Written from POSIX.1-2024 XCU 2.6.1 (tilde expansion), 2.6 (order of    *)
(* the word expansions), 2.9.1.1/2.9.1.3 (declaration utilities), 2.9.4.3  *)
(* (case), 2.7.4 (here-document) and the manual                            *)
(* docs/src/language/words/tilde.md, docs/src/language/commands/simple.md. *)
(*                                                                         *)
(*  - A tilde-prefix is an unquoted `~` at the beginning of a word plus    *)
(*    all characters up to the first unquoted `/` (or the end).  In an     *)
(*    assignment (and in a name=word argument of a declaration utility)    *)
(*    tilde-prefixes start at the beginning of the value and after every   *)
(*    unquoted `:`, and end at the first unquoted `:` or `/`.              *)
(*  - If none of the characters of the tilde-prefix is quoted, what        *)
(*    follows the `~` is a login name: the empty name stands for $HOME,    *)
(*    any other name for the initial working directory of that user in     *)
(*    the user database.                                                   *)
(*  - "The pathname that replaces the tilde-prefix shall be treated as if  *)
(*    quoted to prevent it being altered by field splitting and pathname   *)
(*    expansion; if a <slash> follows the tilde-prefix and the pathname    *)
(*    ends with a <slash>, the trailing <slash> from the pathname [is]     *)
(*    omitted" (tilde.md: "one `/` is removed ... POSIX.1-2024 now         *)
(*    requires the behavior").  `~` alone with an empty HOME is one empty  *)
(*    field.                                                               *)
(*  - Unknown login name: undefined by POSIX; HOME unset: unspecified by   *)
(*    POSIX.  tilde.md: "the shell ignores any errors during tilde         *)
(*    expansion and leaves the tilde as is" -- the specification follows   *)
(*    the manual (tilde-prefix left unchanged).  `~+`, `~-` are not        *)
(*    supported ("may support ... in the future"): `+` and `-` are login   *)
(*    names like any other.                                                *)
(*  - A tilde-prefix containing an expansion (`~$x`) is outside the        *)
(*    modelled fragment (the login name would contain a `$`): skipped.     *)
(*  - Tilde expansion comes first and is not applied to the results of     *)
(*    other expansions (2.6: "beginning to end"); it is not performed      *)
(*    inside here-documents (2.7.4) nor inside double quotes.              *)
(*                                                                         *)
(* The definition is a rewriting in front of Expand.tla: every expanded    *)
(* tilde-prefix is replaced by a single-quoted unit holding the pathname   *)
(* ("treated as if quoted"); the rewritten word is expanded by Expand.tla  *)
(* (parameter expansion, field splitting, quote removal).                  *)
(*                                                                         *)
(* Words: sequences of the units of Expand.tla plus [t |-> "sp"], an       *)
(* unquoted blank separating the words of a command.                       *)
(* Environment: [home |-> [set, v], users |-> Seq([n |-> name, d |-> dir])]*)
(***************************************************************************)
EXTENDS Expand

WSp == <<[t |-> "sp"]>>

UserDir(users, name) ==
  IF \E i \in DOMAIN users : users[i].n = name
  THEN Val(users[CHOOSE i \in DOMAIN users : users[i].n = name].d)
  ELSE Unset

IsLitC(u, c) == u.t = "lit" /\ u.c = c

(* the position of the unit that ends the tilde-prefix whose characters    *)
(* after the tilde start at j (Len(w)+1: the prefix runs to the end)       *)
RECURSIVE PrefixEnd(_, _, _)
PrefixEnd(w, j, colon) ==
  IF j > Len(w) THEN j
  ELSE IF IsLitC(w[j], "/") THEN j
  ELSE IF colon /\ IsLitC(w[j], ":") THEN j
  ELSE PrefixEnd(w, j + 1, colon)

RECURSIVE NextColon(_, _)
NextColon(w, j) ==
  IF j > Len(w) THEN j ELSE IF IsLitC(w[j], ":") THEN j ELSE NextColon(w, j + 1)

LoginName(pre) == Str([i \in 1..(Len(pre) - 1) |-> pre[i + 1].c])

StripSlash(s, followedBySlash) ==
  IF followedBySlash /\ Len(s) > 0 /\ SubSeq(s, Len(s), Len(s)) = "/"
  THEN SubSeq(s, 1, Len(s) - 1) ELSE s

(* What replaces the tilde-prefix `pre` (units; pre[1] is the tilde).      *)
Replace(pre, followedBySlash, env) ==
  IF \E i \in 2..Len(pre) : \/ pre[i].t = "par"
                               \/ (pre[i].t = "sq" /\ pre[i].s = "")     \* ~'' : is anything quoted?
                               \/ (pre[i].t = "dq" /\ pre[i].u = <<>>)
  THEN [u |-> pre, skip |-> TRUE, failed |-> FALSE]
  ELSE IF \E i \in 2..Len(pre) : pre[i].t # "lit"
  THEN [u |-> pre, skip |-> FALSE, failed |-> FALSE]       \* a quoted character: no tilde expansion
  ELSE LET name == LoginName(pre)
           dir == IF name = "" THEN env.home ELSE UserDir(env.users, name)
       IN IF dir.set THEN [u |-> WSq(StripSlash(dir.v, followedBySlash)), skip |-> FALSE, failed |-> FALSE]
          ELSE [u |-> pre, skip |-> FALSE, failed |-> TRUE]   \* "leaves the tilde as is"

FollowedBySlash(w, e) == e <= Len(w) /\ IsLitC(w[e], "/")

(* ordinary word: only at the beginning, ended by a slash *)
TildeFront(w, env) ==
  IF w # <<>> /\ IsLitC(w[1], "~")
  THEN LET e == PrefixEnd(w, 2, FALSE)
           r == Replace(SubSeq(w, 1, e - 1), FollowedBySlash(w, e), env)
       IN [u |-> r.u \o SubSeq(w, e, Len(w)), skip |-> r.skip, failed |-> r.failed]
  ELSE [u |-> w, skip |-> FALSE, failed |-> FALSE]

(* assignment: at i (the beginning or the position after an unquoted colon) *)
RECURSIVE TildeAll(_, _, _)
TildeAll(w, i, env) ==
  IF i > Len(w) THEN [u |-> <<>>, skip |-> FALSE, failed |-> FALSE]
  ELSE LET isT == IsLitC(w[i], "~")
           e == IF isT THEN PrefixEnd(w, i + 1, TRUE) ELSE i
           r == IF isT THEN Replace(SubSeq(w, i, e - 1), FollowedBySlash(w, e), env)
                ELSE [u |-> <<>>, skip |-> FALSE, failed |-> FALSE]
           c == NextColon(w, e)
           mid == SubSeq(w, e, IF c > Len(w) THEN Len(w) ELSE c)
           rest == TildeAll(w, c + 1, env)
       IN [u |-> r.u \o mid \o rest.u, skip |-> r.skip \/ rest.skip, failed |-> r.failed \/ rest.failed]

---------------------------------------------------------------------------
HasBlank(w) == \E i \in DOMAIN w : w[i].t = "sp"

RECURSIVE SplitAtBlank(_, _, _)
SplitAtBlank(w, i, cur) ==      \* the words of w[i..], cur: the word in progress
  IF i > Len(w) THEN (IF cur = <<>> THEN <<>> ELSE <<cur>>)
  ELSE IF w[i].t = "sp" THEN (IF cur = <<>> THEN <<>> ELSE <<cur>>) \o SplitAtBlank(w, i + 1, <<>>)
  ELSE SplitAtBlank(w, i + 1, Append(cur, w[i]))

Skip == [k |-> "skip", f |-> <<>>]
Ok(f) == [k |-> "ok", f |-> f]

(* one word as a command argument (also a word of a `for` list): fields *)
OneArg(w, st, env) ==
  LET r == TildeFront(w, env) IN
  IF r.skip \/ AmbCount(w, st) > 0 THEN Skip
  ELSE LET o == ExpandWith(r.u, st, FALSE)
       IN IF o.k = "ok" THEN Ok(o.f) ELSE Skip

RECURSIVE ArgsFrom(_, _, _, _)
ArgsFrom(ws, i, st, env) ==
  IF i > Len(ws) THEN Ok(<<>>)
  ELSE LET a == OneArg(ws[i], st, env)
           b == ArgsFrom(ws, i + 1, st, env)
       IN IF a.k = "ok" /\ b.k = "ok" THEN Ok(a.f \o b.f) ELSE Skip

Args(w, st, env) == ArgsFrom(SplitAtBlank(w, 1, <<>>), 1, st, env)

(* the single string a word yields where no field splitting takes place    *)
(* (value of an assignment, word of `case`)                                *)
OneString(r, st) ==
  IF r.skip THEN Skip
  ELSE LET x == XUnits(r.u, st, FALSE, FALSE)
       IN IF x.err # "" \/ Len(x.ph) # 1 THEN Skip
          ELSE Ok(<<Str(Plain(RemoveQuotes(x.ph[1])))>>)

AssignValue(w, st, env) ==
  IF HasBlank(w) \/ AmbCount(w, st) > 0 THEN Skip ELSE OneString(TildeAll(w, 1, env), st)

CaseWord(w, st, env) ==
  IF HasBlank(w) \/ w = <<>> \/ AmbCount(w, st) > 0 THEN Skip ELSE OneString(TildeFront(w, env), st)

(* `${y-word}` with y unset, not in double quotes: 2.6.2 "word shall be    *)
(* subjected to tilde expansion, parameter expansion, ...".  The literal   *)
(* text of word is subject to field splitting here (Expand.tla), so        *)
(* whether a tilde-prefix that could not be expanded (undefined /          *)
(* unspecified by POSIX) is split matters: such words are skipped.         *)
SwitchWord(w, st, env) ==
  IF HasBlank(w) \/ st.y.set \/ AmbCount(w, st) > 0 THEN Skip
  ELSE LET r == TildeFront(w, env) IN
       IF r.skip \/ r.failed THEN Skip
       ELSE LET o == ExpandWith(WSw("y", FALSE, "-", r.u), st, FALSE)
            IN IF o.k = "ok" THEN Ok(o.f) ELSE Skip

(* a pattern of `case`: which of the subjects it matches.  The subjects    *)
(* are the string the pattern denotes when taken literally, and that       *)
(* string with every `*` replaced by "zz" and every `?` by "q" (matched    *)
(* only if the character was an unquoted pattern character).               *)
Unglob(s) == Str(Flatten([i \in 1..Len(s) |->
                LET c == SubSeq(s, i, i) IN
                IF c = "*" THEN <<"z", "z">> ELSE IF c = "?" THEN <<"q">> ELSE <<c>>]))

CasePattern(w, st, env) ==
  IF HasBlank(w) \/ w = <<>> \/ AmbCount(w, st) > 0 THEN Skip
  ELSE LET r == TildeFront(w, env) IN
       IF r.skip THEN Skip
       ELSE LET x == XUnits(r.u, st, FALSE, FALSE) IN
            IF x.err # "" \/ Len(x.ph) # 1 \/ ~PatSupported(x.ph[1]) THEN Skip
            ELSE LET lit == Str(Plain(RemoveQuotes(x.ph[1])))
                     alt == Unglob(lit)
                     pat == PatChars(x.ph[1])
                     m(s) == IF PatMatch(pat, Chars(s)) THEN "Y" ELSE "N"
                 IN Ok(<<lit, m(lit), alt, m(alt)>>)

(* a line of a here-document with an unquoted delimiter (2.7.4): parameter *)
(* expansion only; quotes are ordinary characters; a backslash quotes only *)
(* $ ` \                                                                   *)
RECURSIVE HereText(_, _)
HereText(w, st) ==
  IF w = <<>> THEN ""
  ELSE LET u == Head(w)
           t == CASE u.t = "lit" -> u.c
                  [] u.t = "sp" -> " "
                  [] u.t = "bs" -> IF u.c \in {"$", "`", "\\"} THEN u.c ELSE "\\" \o u.c
                  [] u.t = "sq" -> "'" \o u.s \o "'"
                  [] u.t = "dq" -> "\"" \o HereText(u.u, st) \o "\""
                  [] u.t = "par" -> LET v == Lookup(u.p, st) IN IF v.set THEN v.v ELSE ""
       IN t \o HereText(Tail(w), st)

HereOk(w) == \A i \in DOMAIN w :
                \/ w[i].t \in {"lit", "sp", "bs", "sq"}
                \/ (w[i].t = "par" /\ w[i].m = "none" /\ w[i].p \in {"x", "y"})
                \/ (w[i].t = "dq" /\ \A j \in DOMAIN w[i].u : w[i].u[j].t = "lit")

HereDoc(w, st, env) == IF HereOk(w) THEN Ok(<<HereText(w, st)>>) ELSE Skip

---------------------------------------------------------------------------
(* Contexts:                                                               *)
(*   "arg"     probe W                 fields                              *)
(*   "for"     for i in W; do probe "$i"; done          fields             *)
(*   "assign"  z=W; probe "$z"                          <<value>>          *)
(*   "export" "readonly" "typeset" "cmdexport"                             *)
(*             export z=W; probe "$z"  (declaration utilities; `command    *)
(*             export`)                                 <<value>>          *)
(*   "case"    case W in (...)                          <<string>>         *)
(*   "pat"     case S in (W)                 <<lit, Y/N, alt, Y/N>>        *)
(*   "sw"      probe ${y-W}  (y unset)                  fields             *)
(*   "here"    here-document line                       <<text>>           *)
Contexts == {"arg", "for", "assign", "export", "readonly", "typeset", "cmdexport", "case", "pat", "sw", "here"}

Outcome(ctx, w, st, env) ==
  CASE ctx \in {"arg", "for"} -> IF SplitAtBlank(w, 1, <<>>) = <<>> THEN Skip ELSE Args(w, st, env)
    [] ctx \in {"assign", "export", "readonly", "typeset", "cmdexport"} -> AssignValue(w, st, env)
    [] ctx = "case" -> CaseWord(w, st, env)
    [] ctx = "pat" -> CasePattern(w, st, env)
    [] ctx = "sw" -> SwitchWord(w, st, env)
    [] ctx = "here" -> HereDoc(w, st, env)

(* an observation [k |-> "ok", f] agrees with an outcome *)
Agree(obs, out) == out.k = "ok" /\ obs.k = "ok" /\ obs.f = out.f
=============================================================================
