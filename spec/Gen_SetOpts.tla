---------------------------- MODULE Gen_SetOpts ----------------------------
(***************************************************************************)
(* G06, P1 + P4 (enumeration, spec -> impl).  TLC explores, for each root  *)
(* (a command line the shell is started with), every state                 *)
(* [on, pos, arg0] reachable by at most Depth successful operations, and   *)
(* for every such state                                                    *)
(*   - checks the theorems of SetOpts.tla about every operation of the     *)
(*     fan (a failure is a defect of the specification = tool error);      *)
(*   - prints one JSON line: the command line, the witness (script lines   *)
(*     and expected events leading to the state) and, for every operation  *)
(*     of the fan, the events the specification prescribes.                *)
(* The first line also carries the script lines of the fans and the        *)
(* catalogue of command lines (each with its prescribed first              *)
(* observation, or "error" / "info").                                      *)
(* harness/g06 runs <command line> with the script <witness; operation>    *)
(* on the real shell for every (state, operation) and compares.  Because   *)
(* every operation out of every explored state is compared, sequences of   *)
(* Depth + 1 operations (function bodies add up to two more) are covered.  *)
(***************************************************************************)
EXTENDS SetOpts, Json

CONSTANTS Depth,      \* number of successful operations leading to a state
          RootIds,    \* subset of 1..Len(Roots)
          BigRoots,   \* roots whose initial state also gets the big fan of spellings
          Wide        \* TRUE: every operation of the core fan extends a state at depth >= 1; FALSE: only StepFan

VARIABLES root, S, w
vars == <<root, S, w>>

(***************************************************************************)
(* Roots.  "@C" stands for the command string, /tmp/script for the file.   *)
(***************************************************************************)
Roots == <<
  <<"yash", "-c", "@C", "nm", "a", "b c", "-e">>,
  <<"sh", "-s", "x", "", "--">>,
  <<"yash", "/tmp/script", "q">>,
  <<"-yash", "-o", "portable", "-c", "@C", "n0", "a", "b">>,
  <<"yash", "-eu", "-o", "pipefail", "-c", "@C", "n1", "p">>,
  <<"yash", "-c", "@C">> >>

(***************************************************************************)
(* The core fan: tried in every state.                                     *)
(***************************************************************************)
Map(q, f(_)) == [i \in 1..Len(q) |-> f(q[i])]
RECURSIVE Cat(_)
Cat(qq) == IF Len(qq) = 0 THEN <<>> ELSE Head(qq) \o Cat(Tail(qq))

SetLetters == <<"a", "b", "C", "e", "f", "h", "m", "n", "u", "v", "x">>
F_short == Map(SetLetters, LAMBDA c : SetOp(<<"-" \o c>>)) \o Map(SetLetters, LAMBDA c : SetOp(<<"+" \o c>>))
F_unsettable ==
  Cat(Map(<<"c", "i", "s">>, LAMBDA c : <<CSetOp(<<"-" \o c>>), CSetOp(<<"+" \o c>>), SetOp(<<"-" \o c>>), CSetOp(<<"-e" \o c>>)>>))
F_badshort ==
  <<CSetOp(<<"-z">>), SetOp(<<"-z">>), CSetOp(<<"+Z">>), CSetOp(<<"-1">>), CSetOp(<<"-ez">>), CSetOp(<<"-+">>),
    CSetOp(<<"+-">>), CSetOp(<<"-e-">>), CSetOp(<<"-eo">>), CSetOp(<<"-o", "errexit", "+o">>), CSetOp(<<"-A">>),
    CSetOp(<<"-E">>), CSetOp(<<"-c", "--", "x">>), SetOp(<<"+a", "-o">>), CSetOp(<<"-a", "+z", "--", "k">>)>>
F_group ==
  <<SetOp(<<"-ex">>), SetOp(<<"+ex">>), SetOp(<<"-aCu">>), SetOp(<<"-fu", "+x">>), SetOp(<<"-e", "+e">>), SetOp(<<"+e", "-e">>),
    SetOp(<<"-xo", "errexit">>), SetOp(<<"-oerrexit">>), SetOp(<<"-aoerrexit">>), SetOp(<<"+oerrexit">>),
    SetOp(<<"+xoverb">>), SetOp(<<"-ex", "+a", "-o", "noclobber", "-u">>), SetOp(<<"-ao", "errexit", "+o", "allexport">>),
    SetOp(<<"+aeu", "-f">>), SetOp(<<"-o", "vi", "-o", "ignoreeof", "+o", "log">>), SetOp(<<"-bh", "+C">>),
    SetOp(<<"-onoglob">>), SetOp(<<"+o", "nounset", "-o", "nounset">>)>>

Settable(o) == o \notin StartupOnly
LongForms(o) ==
  LET mk(args) == IF Settable(o) THEN SetOp(args) ELSE CSetOp(args) IN
  <<mk(<<"-o", o>>), mk(<<"+o", o>>), mk(<<"-o", "no" \o o>>), mk(<<"+o", "no" \o o>>),
    mk(<<"--" \o o>>), mk(<<"++" \o o>>), mk(<<"--no" \o o>>), mk(<<"++no" \o o>>)>>
LongOpts == SelectSeq(OptSeq, LAMBDA o : o # "login")
F_long == Cat(Map(LongOpts, LongForms)) \o <<SetOp(<<"-o", "cmdline">>), SetOp(<<"++stdin">>), SetOp(<<"--interactive">>)>>

F_spell ==
  <<SetOp(<<"--all-export">>), SetOp(<<"--ALLEXPORT">>), SetOp(<<"---All*Ex!PorT">>), SetOp(<<"-o", "Err_Exit">>),
    SetOp(<<"+o", "NO-CLOBBER">>), SetOp(<<"++No Clobber">>), SetOp(<<"--cl">>), CSetOp(<<"--c">>), SetOp(<<"--err">>),
    CSetOp(<<"--e">>), SetOp(<<"--x">>), CSetOp(<<"--no">>), CSetOp(<<"--n">>), SetOp(<<"--not">>), CSetOp(<<"--nolo">>),
    SetOp(<<"--nolog">>), SetOp(<<"--log">>), CSetOp(<<"--lo">>), SetOp(<<"--nonot">>), SetOp(<<"--vi">>),
    CSetOp(<<"--v">>), SetOp(<<"--verb">>), CSetOp(<<"--p">>), SetOp(<<"--pi">>), SetOp(<<"--por">>), SetOp(<<"--pos">>),
    CSetOp(<<"--po">>), CSetOp(<<"--bogus">>), CSetOp(<<"-o", "bogus">>), SetOp(<<"-o", "bogus">>), SetOp(<<"--bogus">>),
    CSetOp(<<"-o", "">>), CSetOp(<<"++">>), SetOp(<<"-o", "nou">>), SetOp(<<"++nou">>), CSetOp(<<"--nonoclobber">>),
    SetOp(<<"-o", "x">>), SetOp(<<"--x-trace">>), SetOp(<<"--err exit">>), CSetOp(<<"-o", "errexit1">>),
    CSetOp(<<"--errexitx">>), SetOp(<<"-o", "a">>), SetOp(<<"+o", "NOA">>), CSetOp(<<"-o", "-e">>), SetOp(<<"--h">>),
    SetOp(<<"--m">>), SetOp(<<"--g">>), CSetOp(<<"--i">>), CSetOp(<<"--u">>), SetOp(<<"--un">>), SetOp(<<"--ex">>),
    CSetOp(<<"--ha", "sh">>), SetOp(<<"--noti", "fy">>), SetOp(<<"-o", "pipe-fail", "x">>), CSetOp(<<"--st">>), CSetOp(<<"--cm">>)>>

F_pos ==
  <<SetOp(<<"--">>), SetOp(<<"--", "a", "b">>), SetOp(<<"a", "b">>), SetOp(<<"-">>), SetOp(<<"-", "a">>), SetOp(<<"--", "-e">>),
    SetOp(<<"--", "--">>), SetOp(<<"--", "-">>), SetOp(<<"-", "--">>), SetOp(<<"-", "-">>), SetOp(<<"a", "-e">>), SetOp(<<"+">>),
    SetOp(<<"+", "a">>), SetOp(<<"-e", "--", "a", "b">>), SetOp(<<"-e", "a">>), SetOp(<<"-e", "--">>), SetOp(<<"+e", "-">>),
    SetOp(<<"--", "">>), SetOp(<<"", "x">>), SetOp(<<"">>), SetOp(<<"--", "a b", "c">>), SetOp(<<"-o", "errexit", "--", "foo", "bar">>),
    SetOp(<<"--", "\"$@\"", "new">>), SetOp(<<"\"$@\"">>), SetOp(<<"--", "\"$@\"">>), SetOp(<<"\"$#\"", "\"$@\"">>),
    SetOp(<<"x", "--", "y">>), SetOp(<<"-u", "x", "-e", "--errexit">>), SetOp(<<"--errexit", "a">>), SetOp(<<"a", "+o", "bogus">>),
    SetOp(<<"--", "-o", "bogus">>), SetOp(<<"1", "2", "3", "4", "5", "6", "7", "8", "9", "10", "11">>),
    SetOp(<<"-C", "-", "+C">>), SetOp(<<"--", "*", "$x", "a\"b">>), SetOp(<<>>), SetOp(<<"-o">>), SetOp(<<"+o">>),
    CSetOp(<<"--", "c">>), CSetOp(<<"-e", "q">>)>>

ShiftArgs == <<<<>>, <<"0">>, <<"1">>, <<"2">>, <<"3">>, <<"4">>, <<"9">>, <<"x">>, <<"-1">>, <<"1", "2">>, <<"--", "1">>,
               <<"--">>, <<"\"$#\"">>, <<"">>, <<"01">>, <<"1x">>, <<"00">>, <<"--", "0">>, <<"--", "9">>, <<" 1">>, <<"0x1">>,
               <<"1", "">>, <<"-n">>, <<"--", "-1">>>>
F_shift == Map(ShiftArgs, ShiftOp) \o Map(ShiftArgs, CShiftOp)

Bodies == <<<<ShiftOp(<<>>)>>, <<SetOp(<<"--", "x", "y", "z">>)>>, <<SetOp(<<"-e">>)>>, <<CShiftOp(<<"5">>)>>,
            <<SetOp(<<"x">>), ShiftOp(<<>>)>>, <<ShiftOp(<<"9">>)>>, <<SetOp(<<"--">>), ListOOp>>, <<SetOp(<<"-o", "bogus">>)>>,
            <<SetOp(<<"+e", "--", "\"$@\"", "t">>)>>, <<SetOp(<<"-n">>)>>, <<ShiftOp(<<"2">>), CSetOp(<<"-Z">>)>>,
            <<SetOp(<<"-C", "+u">>), ShiftOp(<<"\"$#\"">>)>>>>
CallArgs == <<<<>>, <<"p">>, <<"p", "q r", "-x">>, <<"\"$@\"", "z">>>>
F_call == Cat(Map(Bodies, LAMBDA b : Map(CallArgs, LAMBDA a : CallOp(a, b))))

F_list == <<ListOOp, ListPOp, Op("lo", TRUE, <<>>, <<>>), Op("lp", TRUE, <<>>, <<>>)>>

F_portable ==
  <<SetOp(<<"-o", "portable">>), SetOp(<<"+o", "portable">>), CSetOp(<<"-o", "portable", "--errexit">>),
    SetOp(<<"+o", "portable", "--errexit">>), SetOp(<<"-o", "portable", "-o", "noclobber", "-e">>),
    CSetOp(<<"-o", "portable", "-o", "clobber">>), CSetOp(<<"-o", "portable", "-oerrexit">>),
    SetOp(<<"--errexit", "-o", "portable">>), CSetOp(<<"-o", "portable", "-o", "Portable">>),
    SetOp(<<"-o", "portable", "+o", "portable", "-o", "err">>), CSetOp(<<"-o", "portable", "++portable">>),
    SetOp(<<"-o", "portable", "-aCefhmuvxb", "--", "k">>), CSetOp(<<"-o", "portable", "-o", "noportable">>),
    SetOp(<<"-o", "portable", "-o", "nolog", "+o", "noglob", "-o", "pipefail">>), CSetOp(<<"-oportable", "-o", "err">>),
    CSetOp(<<"--portable", "-oerrexit">>)>>

CoreFan == F_short \o F_unsettable \o F_badshort \o F_group \o F_long \o F_spell \o F_pos \o F_shift \o F_call \o F_list \o F_portable

\* the operations that extend a state at depth >= 1 when Wide = FALSE
StepFan ==
  <<SetOp(<<"-e">>), SetOp(<<"-o", "portable">>), SetOp(<<"-u">>), SetOp(<<"-C">>), SetOp(<<"--">>), SetOp(<<"--", "-x", "", "y z">>),
    ShiftOp(<<>>), SetOp(<<"-o", "vi", "-o", "posixlycorrect">>), SetOp(<<"+o", "portable">>), SetOp(<<"-afb">>),
    SetOp(<<"-", "--", "+o">>), ShiftOp(<<"2">>)>>

(***************************************************************************)
(* The big fan of spellings: every prefix of every name (with and without  *)
(* `no`), as --p and ++p; case and punctuation variants of every name.     *)
(***************************************************************************)
RECURSIVE SetToSeq(_)
SetToSeq(s) == IF s = {} THEN <<>> ELSE LET e == CHOOSE e \in s : TRUE IN <<e>> \o SetToSeq(s \ {e})
Prefixes == SetToSeq(UNION {{SubSeq(f, 1, k) : k \in 1..Len(f)} : f \in FullNames})
UpperOf(s) == StrOf([i \in 1..Len(s) |-> ToUpper(Ch(s, i))])
Spaced(s, sep) == JoinWith(Chars(s), sep)
F_big ==
  Cat(Map(Prefixes, LAMBDA p : <<CSetOp(<<"--" \o p>>), CSetOp(<<"++" \o p>>)>>))
  \o Cat(Map(LongOpts, LAMBDA o : <<CSetOp(<<"--" \o UpperOf(o)>>), CSetOp(<<"+o", SubSeq(o, 1, 2) \o "-" \o Drop(o, 2)>>),
                                    CSetOp(<<"-o", Spaced(o, "_")>>), CSetOp(<<"++no-" \o UpperOf(o)>>),
                                    CSetOp(<<"-o" \o o>>), CSetOp(<<"+o" \o "no" \o o>>)>>))

(***************************************************************************)
(* The catalogue of command lines (first observation only).                *)
(***************************************************************************)
C(rest) == <<"yash", "-c", "@C">> \o rest
Starts ==
  Roots \o
  <<<<"yash">>, <<"sh">>, <<"/bin/sh">>, <<"/usr/local/bin/yash">>, <<"-yash">>, <<"-sh">>, <<"sh/">>, <<"ash">>, <<"bin/sh", "-c", "@C">>,
    <<"yash", "-c", "@C", "only0">>, <<"yash", "-c", "@C", "", "">>, <<"yash", "-c", "--", "@C", "n", "1">>, <<"yash", "-c", "-", "@C", "n", "1">>,
    <<"yash", "-c">>, <<"yash", "-c", "--">>, <<"yash", "-cs", "@C">>, <<"yash", "-c", "-s", "@C">>,
    <<"yash", "-s", "-c", "@C">>, <<"yash", "-s">>, <<"yash", "-s", "a", "b c">>, <<"yash", "-s", "-", "--", "2">>, <<"yash", "-s", "--", "-", "2">>,
    <<"yash", "-">>, <<"yash", "--">>, <<"yash", "-", "/tmp/script", "z">>, <<"yash", "--", "/tmp/script">>, <<"yash", "/tmp/script">>,
    <<"yash", "/tmp/script", "-e", "--", "-c">>, <<"yash", "-e", "/tmp/script", "1">>, <<"yash", "-s", "-e">>, <<"yash", "-es", "-x">>,
    <<"yash", "-a", "-c", "@C">>, <<"yash", "-abCefuvx", "-c", "@C">>, <<"sh", "-abCefsuvx", "+mn">>, <<"yash", "-abCcefhluvx", "@C">>,
    <<"yash", "-abCefhlsuvx">>, <<"yash", "-ac", "@C", "x", "y">>, <<"yash", "-ca", "@C", "x", "y">>, <<"yash", "+a", "-c", "@C">>,
    <<"yash", "+C", "-C", "-c", "@C">>, <<"yash", "-C", "+C", "-c", "@C">>, <<"yash", "-n", "-c", "@C">>, <<"yash", "-o", "noexec", "-s">>,
    <<"yash", "+n", "-c", "@C">>, <<"yash", "-m", "-c", "@C">>, <<"yash", "-l", "-c", "@C">>, <<"yash", "--login", "-c", "@C">>,
    <<"yash", "--cmdline", "--log-in", "@C">>, <<"yash", "+i", "-c", "@C">>, <<"yash", "-i", "-c", "@C">>, <<"yash", "--stdin", "p">>,
    <<"yash", "-o", "stdin", "p", "q">>, <<"yash", "-o", "cmdline", "@C", "nm">>, <<"yash", "-o", "errexit", "-c", "@C">>,
    <<"yash", "+o", "clobber", "-c", "@C">>, <<"yash", "-o", "noclobber", "+o", "nounset", "-c", "@C">>, <<"yash", "--allexport", "-c", "@C">>,
    <<"yash", "-a", "++allexport", "-c", "@C">>, <<"yash", "-oerrexit", "-c", "@C">>, <<"yash", "-aoerrexit", "-c", "@C">>,
    <<"yash", "-ao", "errexit", "-c", "@C">>, <<"yash", "-co", "errexit", "@C">>, <<"yash", "--all-export", "--No_Glob", "-c", "@C">>,
    <<"yash", "--posix", "-c", "@C">>, <<"yash", "--pi", "--vi", "--ign", "-c", "@C">>, <<"yash", "-o", "allex", "-c", "@C">>,
    <<"yash", "-z", "-c", "@C">>, <<"yash", "-cz", "@C">>, <<"yash", "--bogus", "-c", "@C">>, <<"yash", "--p", "-c", "@C">>,
    <<"yash", "--c", "@C">>, <<"yash", "--cm", "@C">>, <<"yash", "-o">>, <<"yash", "-c", "-o">>, <<"yash", "-o", "bogus", "-c", "@C">>,
    <<"yash", "--no", "-c", "@C">>, <<"yash", "--noprofile", "-c", "@C">>, <<"yash", "--norcfile", "--noprofile", "-c", "@C">>,
    <<"yash", "--nor", "-c", "@C">>, <<"yash", "--nop", "-c", "@C">>, <<"yash", "--noprof", "-c", "@C">>, <<"yash", "--profile", "x", "-c", "@C">>,
    <<"yash", "--profile=x", "-c", "@C">>, <<"yash", "--rcfile", "x", "-c", "@C">>, <<"yash", "--rc=x", "/tmp/script">>, <<"yash", "--profile">>,
    <<"yash", "--pro", "-c">>, <<"yash", "++noprofile", "-c", "@C">>, <<"yash", "++profile", "-c", "@C">>, <<"yash", "--noprofile=x", "-c", "@C">>,
    <<"yash", "--help">>, <<"yash", "--version">>, <<"yash", "--he">>, <<"yash", "--vers">>, <<"yash", "--ver">>, <<"yash", "--h">>,
    <<"yash", "--v", "-c", "@C">>, <<"yash", "-c", "--help", "@C">>, <<"yash", "++help">>, <<"yash", "--help=1">>,
    <<"yash", "-V">>, <<"yash", "+c">>, <<"yash", "+s", "/tmp/script">>, <<"yash", "-c", "+c", "-s">>,
    <<"yash", "-o", "portable", "--allexport">>, <<"yash", "-o", "portable", "++allexport">>, <<"yash", "-o", "portable", "-o", "clobber">>,
    <<"yash", "-o", "portable", "-o", "allex">>, <<"yash", "-o", "portable", "-oerrexit">>, <<"yash", "-o", "portable", "-l">>,
    <<"yash", "-o", "portable", "+c">>, <<"yash", "-o", "portable", "+s">>, <<"yash", "-o", "portable", "+i">>, <<"yash", "-o", "portable", "--help">>,
    <<"yash", "-o", "portable", "--norcfile">>, <<"yash", "-o", "portable", "-a", "-o", "noclobber">>, <<"yash", "--allexport", "-o", "portable">>,
    <<"yash", "-o", "portable", "+o", "portable", "--allexport">>, <<"yash", "--rcfile", "myrc", "-o", "portable", "/tmp/script">>,
    <<"yash", "-o", "portable", "--rcfile", "myrc", "/tmp/script">>, <<"yash", "-oportable", "-c", "@C">>, <<"yash", "--portable", "-cl", "@C">>,
    <<"yash", "-o", "portable", "-c", "@C", "a", "b">>, <<"yash", "-o", "portable", "-o", "Errexit", "-c", "@C">>,
    <<"yash", "-o", "portable", "-o", "portable", "-abCefhmuvx", "-c", "@C">>, <<"yash", "-o", "portable", "-o", "noportable", "-c", "@C">>,
    <<"yash", "-e", "+e", "-u", "+u", "-c", "@C">>, <<"yash", "-f", "-h", "-b", "-v", "-x", "-s", "*">>>>

StartCase(argv) ==
  LET p == Prog(argv, <<>>)
      r == ParseOpts(argv, 2, FALSE, <<>>, "sh")
  IN [argv |-> argv, k |-> p.k, mode |-> p.mode, script |-> p.script, evs |-> p.evs,
      cls |-> IF p.k = "run" THEN "run:" \o p.mode ELSE IF p.k = "error" /\ r.err # "" THEN "error:" \o r.err ELSE p.k]

(***************************************************************************)
(* Exploration.                                                            *)
(***************************************************************************)
S0(r) == Start(Roots[r]).S

Init ==
  /\ root \in RootIds
  /\ S = S0(root)
  /\ w = <<>>

Extends(F) ==
  \E i \in 1..Len(F) :
     LET R == Exec(S, 0, F[i]) IN
     /\ ~R.unspec /\ ~R.cut /\ R.st = 0
     /\ \A j \in 1..Len(R.evs) : R.evs[j].t # "x"
     /\ R.S # S
     /\ S' = R.S
     /\ w' = Append(w, F[i])

Next ==
  /\ Len(w) < Depth
  /\ IF Len(w) = 0 \/ Wide THEN Extends(CoreFan) ELSE Extends(StepFan)
  /\ UNCHANGED root

View == <<S, IF Len(w) = 0 THEN root ELSE 0>>

(***************************************************************************)
(* One line per state; the theorems.                                       *)
(***************************************************************************)
\* cls: which clause of the argument syntax decides a `set` command (census for the evidence)
ClassOf(op) ==
  IF op.k # "set" \/ ~WordsOk(op.args) THEN op.k
  ELSE LET args == ExpandArgs(S, op.args)
           r == ParseOpts(args, 1, "portable" \in S.on, <<>>, "set")
       IN IF Len(args) = 0 THEN "set:variables"
          ELSE IF args \in {<<"-o">>, <<"+o">>} THEN "set:listing"
          ELSE IF r.unspec THEN "set:open"
          ELSE IF r.err # "" THEN "set:" \o r.err
          ELSE IF r.i > Len(args) THEN "set:options"
          ELSE IF Len(r.chg) = 0 THEN "set:operands" ELSE "set:options+operands"

Outcome(op) ==
  LET R == Exec(S, 0, op) IN
  [unspec |-> R.unspec, cls |-> ClassOf(op),
   evs |-> IF R.unspec THEN <<>> ELSE R.evs \o (IF R.cut THEN <<>> ELSE <<EvE(R.st)>>)]

Flip == [on |-> (OptNames \ S.on), pos |-> <<"t">>, arg0 |-> "t0"]     \* a very different state

Theorems(F) ==
  /\ \A i \in 1..Len(F) : IF F[i].k = "call" THEN ThmCall(S, F[i]) ELSE ThmBasic(S, F[i])
  /\ ThmListings(S, Flip) /\ ThmListings(S, S0(root)) /\ ThmListings(S, [Flip EXCEPT !.on = @ \ {"portable"}])
  /\ ThmDash(S)

First == root = (CHOOSE r \in RootIds : \A q \in RootIds : r <= q) /\ Len(w) = 0
HasBig == Len(w) = 0 /\ root \in BigRoots

Emit ==
  LET st == Start(Roots[root])
      pre == RunOps(st.S, 0, w)
  IN /\ Theorems(CoreFan)
     /\ (HasBig => Theorems(F_big))
     /\ pre.S = S /\ ~pre.cut /\ ~pre.unspec /\ st.k = "run"
     /\ PrintT(ToJson(
          [root |-> root, argv |-> Roots[root], mode |-> st.mode, script |-> st.script,
           s |-> [on |-> OnSeq(S), pos |-> S.pos, arg0 |-> S.arg0],
           prelines |-> OpsLines(w), preevs |-> <<EvP(st.S, 0)>> \o pre.evs,
           fan |-> Map(CoreFan, Outcome),
           big |-> IF HasBig THEN Map(F_big, Outcome) ELSE <<>>,
           fanlines |-> IF First THEN Map(CoreFan, OpLines) ELSE <<>>,
           biglines |-> IF First THEN Map(F_big, OpLines) ELSE <<>>,
           starts |-> IF First THEN Map(Starts, StartCase) ELSE <<>>]))
=============================================================================
