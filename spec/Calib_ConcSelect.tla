-------------------------- MODULE Calib_ConcSelect --------------------------
(***************************************************************************)
(* Calibration of ConcSelect against the worked examples of the project:   *)
(* the example in the documentation of `Concurrent`, the scenarios of the  *)
(* unit tests next to the code (their names are the project's statement of *)
(* intended behaviour) and POSIX-conformance cases of the scripted tests.  *)
(* Each example is transcribed by hand as the sequence of events it shows  *)
(* (-9 / "*" / <<-9>> = not stated); TLC explores exactly the behaviours   *)
(* of ConcSelect that follow some example and must reach the end of every  *)
(* one (POSTCONDITION AllReached) - the specification admits each worked   *)
(* example with the documented outcome.  Examples that say "never" are     *)
(* checked as state predicates at the end of the example.                  *)
(***************************************************************************)
EXTENDS MC_ConcSelect, TLCExt

\* pattern <<e, t, a, b, r, x, y, w>>
W_ == <<-9>>
P(e, t, a, b, r, x, y) == <<e, t, a, b, r, x, y, W_>>
PW(e, t, a, b, r, x, y, w) == <<e, t, a, b, r, x, y, w>>
Poll_(t) == P("poll", t, 0, 0, "", <<>>, <<>>)
PeP(t) == P("pe", t, 0, 0, "P", <<>>, <<>>)
PeR(t) == P("pe", t, 0, 0, "R", <<>>, <<>>)
Ok_(t) == P("res", t, 0, 0, "ok", <<>>, <<>>)
OpE(t, k, a, b) == P("op", t, a, b, k, <<>>, <<>>)
\* set_disposition(s, Catch) of task t, complete
Catch_(t, s) == <<OpE(t, "D", s, 1), P("sm", t, 1, 0, "ok", <<s>>, <<>>), P("sa", t, s, 1, "*", <<>>, <<>>), Ok_(t)>>
RdBlk(t, fd) == <<OpE(t, "R", fd, 1), P("rd", t, fd, 1, "EAGAIN", <<0>>, <<>>), PeP(t)>>
WrBlk(t, fd) == <<OpE(t, "W", fd, 1), P("wr", t, fd, 1, "EAGAIN", <<0>>, <<>>), PeP(t)>>
Sb(pk) == P("sb", 0, pk, 0, "", <<>>, <<>>)
Sc(to, mk, rd, wr) == P("sc", 0, to, mk, "", rd, wr)
Sw == P("sw", 0, 0, 0, "", <<>>, <<>>)
Sr(k, rd, wr) == P("sr", 0, 0, 0, k, rd, wr)
Se(k, woken) == <<"se", 0, 0, 0, k, woken, W_, W_>>
X_(k, a, b) == P(k, 0, a, b, "", <<>>, <<>>)

Targets == <<
  \* 1  yash-env/src/system/concurrency.rs:64-102 (example in the documentation of Concurrent):
  \*    the read task is stalled, the write task writes a byte, "we need to wake it up by
  \*    calling select or peek", then the read task proceeds to the end
  <<Poll_(1)>> \o RdBlk(1, 3)
    \o <<Poll_(2), OpE(2, "WA", 4, 1), P("wr", 2, 4, 1, "ok", <<1>>, <<>>), Ok_(2), PeR(2)>>
    \o <<Sb(1), Sc(0, 0, <<3>>, <<>>), Sr("ok", <<3>>, <<>>), Se("ok", <<1>>)>>
    \o <<Poll_(1), P("rd", 1, 3, 1, "ok", <<1>>, <<>>), P("res", 1, 1, 0, "ok", <<>>, <<>>), PeR(1)>>,
  \* 2  concurrency.rs:727 peek_with_no_conditions_returns_immediately
  <<Sb(1), Sc(0, 0, <<>>, <<>>), Sr("ok", <<>>, <<>>), Se("ok", <<>>)>>,
  \* 3  concurrency.rs:733 select_with_no_conditions_never_completes
  <<Sb(0), Sc(-1, 0, <<>>, <<>>), Sw>>,
  \* 4  concurrency.rs:770 pipe_read_becomes_ready_on_data_available (two reads of one descriptor)
  <<Poll_(1)>> \o RdBlk(1, 3) \o <<Poll_(2)>> \o RdBlk(2, 3)
    \o <<Sb(0), Sc(-1, 0, <<3>>, <<>>), Sw, X_("xw", 1, 1), Sr("ok", <<3>>, <<>>), Se("ok", <<1, 2>>)>>,
  \* 5  concurrency.rs:806 select_wakes_only_read_tasks_with_ready_fd
  <<Poll_(1)>> \o RdBlk(1, 3) \o <<Poll_(2)>> \o RdBlk(2, 5)
    \o <<Sb(0), Sc(-1, 0, <<3, 5>>, <<>>), Sw, X_("xw", 1, 1), Sr("ok", <<3>>, <<>>), Se("ok", <<1>>)>>,
  \* 6  concurrency.rs:903 pipe_write_becomes_ready_on_buffer_space
  <<X_("xw", 1, 2), Poll_(1)>> \o WrBlk(1, 4) \o <<Poll_(2)>> \o WrBlk(2, 4)
    \o <<Sb(0), Sc(-1, 0, <<>>, <<4>>), Sw, X_("xr", 1, 2), Sr("ok", <<>>, <<4>>), Se("ok", <<1, 2>>)>>,
  \* 7  concurrency.rs:946 select_wakes_only_write_tasks_with_ready_fd
  <<X_("xw", 1, 2), X_("xw", 2, 2), Poll_(1)>> \o WrBlk(1, 4) \o <<Poll_(2)>> \o WrBlk(2, 6)
    \o <<Sb(0), Sc(-1, 0, <<>>, <<4, 6>>), Sw, X_("xr", 1, 2), Sr("ok", <<>>, <<4>>), Se("ok", <<1>>)>>,
  \* 8  concurrency.rs:1023 sleep_completes_after_duration
  <<Poll_(1), OpE(1, "S", 1, 0), PeP(1), Sb(0), Sc(1, 0, <<>>, <<>>), Sw, X_("xt", 1, 0),
    Sr("ok", <<>>, <<>>), Se("ok", <<1>>), Poll_(1), Ok_(1), PeR(1)>>,
  \* 9  concurrency.rs:1056 signal_wait_completes_on_signal (two signals, one list)
  <<Poll_(1)>> \o Catch_(1, 1) \o Catch_(1, 2) \o <<OpE(1, "G", 0, 0), PeP(1)>>
    \o <<Sb(0), Sc(-1, 1, <<>>, <<>>), Sw, X_("xs", 1, 0), X_("xs", 2, 0), Sr("EINTR", <<>>, <<>>), Se("EINTR", <<1>>)>>
    \o <<Poll_(1), P("res", 1, 0, 0, "ok", <<1, 2>>, <<>>), PeR(1)>>,
  \* 10 concurrency.rs:1101 select_does_not_consume_caught_signals_until_tasks_are_waiting_for_signals
  <<Poll_(1)>> \o Catch_(1, 1) \o <<PeR(1), X_("xs", 1, 0), Poll_(2)>> \o RdBlk(2, 3)
    \o <<X_("xw", 1, 1), Sb(0), Sc(-1, 0, <<3>>, <<>>), Sr("ok", <<3>>, <<>>), Se("ok", <<2>>)>>
    \o <<Poll_(3), OpE(3, "G", 0, 0), PeP(3), Sb(0), Sc(-1, 1, <<>>, <<>>), Sr("EINTR", <<>>, <<>>), Se("EINTR", <<3>>)>>
    \o <<Poll_(3), P("res", 3, 0, 0, "ok", <<1>>, <<>>), PeR(3)>>,
  \* 11 concurrency.rs:1134 wait_for_signals_can_be_used_many_times (each wait has its own list)
  <<Poll_(1)>> \o Catch_(1, 1) \o Catch_(1, 2) \o <<OpE(1, "G", 0, 0), PeP(1)>>
    \o <<X_("xs", 1, 0), Sb(0), Sc(-1, 1, <<>>, <<>>), Sr("EINTR", <<>>, <<>>), Se("EINTR", <<1>>)>>
    \o <<Poll_(2), OpE(2, "G", 0, 0), PeP(2), X_("xs", 2, 0), Sb(0), Sc(-1, 1, <<>>, <<>>), Sr("EINTR", <<>>, <<>>), Se("EINTR", <<2>>)>>
    \o <<Poll_(1), P("res", 1, 0, 0, "ok", <<1>>, <<>>), PeR(1), Poll_(2), P("res", 2, 0, 0, "ok", <<2>>, <<>>), PeR(2)>>,
  \* 12 concurrency.rs:1277 select_wakes_all_reads_and_writes_on_ebadf
  <<X_("xw", 2, 2), Poll_(1)>> \o RdBlk(1, 3) \o <<Poll_(2)>> \o WrBlk(2, 6)
    \o <<Sb(0), Sc(-1, 0, <<3>>, <<6>>), Sw, X_("xc", 3, 0), Sr("EBADF", <<>>, <<>>), Se("EBADF", <<1, 2>>)>>,
  \* 13 concurrency.rs:1325 select_does_not_wake_reads_or_writes_on_eintr
  <<X_("xw", 2, 2), Poll_(1)>> \o Catch_(1, 1) \o RdBlk(1, 3) \o <<Poll_(2)>> \o WrBlk(2, 6)
    \o <<Poll_(3), OpE(3, "G", 0, 0), PeP(3), X_("xs", 1, 0)>>
    \o <<Sb(0), Sc(-1, 1, <<3>>, <<6>>), Sr("EINTR", <<>>, <<>>), Se("EINTR", <<3>>)>>,
  \* 14 concurrency.rs:1373 signal_wait_is_made_ready_by_peek_after_caught
  <<Poll_(1)>> \o Catch_(1, 1) \o <<OpE(1, "G", 0, 0), PeP(1)>>
    \o <<Sb(1), Sc(0, 1, <<>>, <<>>), Sr("ok", <<>>, <<>>), Se("ok", <<>>)>>
    \o <<X_("xs", 1, 0), Sb(1), Sc(0, 1, <<>>, <<>>), Sr("EINTR", <<>>, <<>>), Se("EINTR", <<1>>)>>
    \o <<Poll_(1), P("res", 1, 0, 0, "ok", <<1>>, <<>>), PeR(1)>>,
  \* 15 concurrency/signal.rs:222 setting_disposition_from_default_to_catch: "when the disposition
  \*    is set to Catch, the signal is blocked" - it stays pending, the process keeps running
  <<Poll_(1)>> \o Catch_(1, 1)
    \o <<PeR(1), PW("xs", 0, 1, 0, "", <<>>, <<>>, <<0, 0, 0, 1, 1, 1, 1, 0, 0, 0, 0, 1, 0, 1, 0>>)>>,
  \* 16 yash-cli/tests/scripted_test/trap-p.sh:12-16 'setting ignore trap': the signal has no effect
  <<Poll_(1), OpE(1, "D", 1, 2), P("sa", 1, 1, 2, "Default", <<>>, <<>>), P("sm", 1, 2, 0, "ok", <<1>>, <<>>), Ok_(1), PeR(1),
    PW("xs", 0, 1, 0, "", <<>>, <<>>, <<0, 0, 0, 1, 1, 1, 1, 0, 0, 0, 0, 0, 0, 0, 0>>)>>,
  \* 17 concurrency/run_virtual.rs:156 run_virtual_completes_normally_when_task_alternates_between_pending_and_ready
  <<Poll_(1), OpE(1, "S", 1, 0), PeP(1), Sb(0), Sc(1, 0, <<>>, <<>>), Sw, X_("xt", 1, 0), Sr("ok", <<>>, <<>>), Se("ok", <<1>>),
    Poll_(1), Ok_(1), OpE(1, "S", 1, 0), PeP(1), Sb(0), Sc(1, 0, <<>>, <<>>), Sw, X_("xt", 1, 0), Sr("ok", <<>>, <<>>), Se("ok", <<1>>),
    Poll_(1), Ok_(1), PeR(1)>>,
  \* 18 yash-cli/tests/scripted_test/wait-p.sh:100-118 'trap interrupts wait' and trap-p.sh:18-24
  \*    'setting command trap': a trapped signal that arrives while the shell is blocked is caught
  <<Poll_(1)>> \o Catch_(1, 1) \o <<OpE(1, "G", 0, 0), PeP(1)>>
    \o <<Sb(0), Sc(-1, 1, <<>>, <<>>), Sw, X_("xs", 1, 0), Sr("EINTR", <<>>, <<>>), Se("EINTR", <<1>>)>>
    \o <<Poll_(1), P("res", 1, 0, 0, "ok", <<1>>, <<>>), PeR(1)>>,
  \* 19 yash-cli/tests/scripted_test/trap-p.sh:32-39 'specifying multiple signals': both are caught
  \*    (here: the second one while the first has not been handled yet - one list holds both)
  <<Poll_(1)>> \o Catch_(1, 1) \o Catch_(1, 2) \o <<OpE(1, "G", 0, 0), PeP(1)>>
    \o <<X_("xs", 1, 0), X_("xs", 2, 0), Sb(0), Sc(-1, 1, <<>>, <<>>), Sr("EINTR", <<>>, <<>>), Se("EINTR", <<1>>)>>
    \o <<Poll_(1), P("res", 1, 0, 0, "ok", <<1, 2>>, <<>>), PeR(1)>>,
  \* 20 yash-env/src/system/select.rs:106-128 (documentation of the inner select): EBADF when a
  \*    descriptor of the sets is not open - a reader whose descriptor was closed before the call
  <<Poll_(1)>> \o RdBlk(1, 3) \o <<X_("xc", 3, 0), Sb(0), Sc(-1, 0, <<3>>, <<>>), Sr("EBADF", <<>>, <<>>), Se("EBADF", <<1>>),
    Poll_(1), P("rd", 1, 3, 1, "EBADF", <<0>>, <<>>), P("res", 1, 0, 0, "EBADF", <<>>, <<>>), PeR(1)>>
>>

NTargets == Len(Targets)

M(e, p) ==
  /\ e[1] = p[1] /\ e[2] = p[2]
  /\ p[3] = -9 \/ e[3] = p[3]
  /\ p[4] = -9 \/ e[4] = p[4]
  /\ p[5] = "*" \/ e[5] = p[5]
  /\ p[6] = W_ \/ e[6] = p[6]
  /\ p[7] = W_ \/ e[7] = p[7]
  /\ p[8] = W_ \/ e[9] = <<>> \/ e[9] = p[8]

Follows(hh, T) == Len(hh) <= Len(T) /\ \A j \in 1 .. Len(hh) : M(hh[j], T[j])
Reached(k) == Len(h) = Len(Targets[k]) /\ Follows(h, Targets[k])

CalibInit == Init /\ \A k \in 1 .. NTargets : TLCSet(k, FALSE)
CalibNext == Next /\ \E k \in 1 .. NTargets : Follows(h', Targets[k])
CalibSpec == CalibInit /\ [][CalibNext]_vars

Mark == \A k \in 1 .. NTargets : Reached(k) => TLCSet(k, TRUE)

\* "never completes": at the end of example 3 the blocked select cannot return
Never3 == Reached(3) => ~ENABLED SelWake

AllReached ==
  \A k \in 1 .. NTargets :
    IF TLCGet(k) THEN TRUE ELSE Print(<<"calibration example not admitted by the specification", k>>, FALSE)
=============================================================================
