SPECIFICATION Spec
CONSTANTS
  Fuel = 24
  TickLimit = 2
  K = 4
  Alphabet <- AlphaErrors
  Opts <- OptsErr
INVARIANT Emit
CHECK_DEADLOCK FALSE
