SPECIFICATION Spec
CONSTANTS
  TableIds = {0, 14, 1255, 7000, 20000, 31103}
  ModeIds = {0, 7}
  MaxLen = 3
  CheckSpellings = TRUE
INVARIANT TablesOK
INVARIANT Agree
INVARIANT OnlySpellings
