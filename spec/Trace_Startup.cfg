SPECIFICATION Spec
CONSTANT Variant = ""
INVARIANT Judge
CHECK_DEADLOCK FALSE
