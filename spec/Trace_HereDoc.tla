---------------------------- MODULE Trace_HereDoc ----------------------------
(***************************************************************************)
(* impl -> spec validation for G03.  Every record of the ndjson file        *)
(* IOEnv.TRACE was produced by harness/g03 from a random scenario:          *)
(*   sc      [place, shape, ops, lines, nl]  the scenario                   *)
(*   script  the script text the harness rendered (lines)                   *)
(*   runs    per mode (-c string, script on descriptor 0):                  *)
(*           [mode, outcome, ev (events in execution order), out (stdout)]  *)
(*   pres    "ok" / "err: ..." / "panic: ..." result of the real parser     *)
(*   docs    here-document nodes of the syntax tree [d, s, q, raw]          *)
(*   printed one-line printed form of the commands carrying an operator     *)
(* A record is accepted iff the script is the one HereDoc!Script gives for  *)
(* the scenario (otherwise the harness renderer is wrong: verdict           *)
(* "render", a tool error) and, when the scenario is specified (class       *)
(* "ok"), every run and the parse agree with HereDoc!Expect.  Records of    *)
(* the other classes must merely have terminated without a panic.           *)
(*                                                                         *)
(* The records are independent: the "behaviour" is a binary splitting of   *)
(* the index range (all TLC workers share the work); the invariant judges  *)
(* the record at every leaf and prints one JSON line per record that is    *)
(* not plainly accepted.                                                   *)
(***************************************************************************)
EXTENDS HereDoc, Json, IOUtils

Rec == ndJsonDeserialize(IOEnv.TRACE)
N == Len(Rec)

VARIABLES lo, hi
vars == <<lo, hi>>

Init == lo = 1 /\ hi = N
Next == /\ lo < hi
        /\ LET mid == (lo + hi) \div 2
           IN \/ lo' = lo /\ hi' = mid
              \/ lo' = mid + 1 /\ hi' = hi
Spec == Init /\ [][Next]_vars

CountIn(s, x) == Cardinality({i \in DOMAIN s : s[i] = x})
SameBag(a, b) == Len(a) = Len(b) /\ \A i \in DOMAIN a : CountIn(a, a[i]) = CountIn(b, a[i])
\* the observed events, in order, fall into the expected groups
RECURSIVE MatchG(_, _)
MatchG(evs, gs) ==
  IF gs = <<>> THEN Len(evs) = 0
  ELSE LET n == Len(Head(gs)) IN
       /\ Len(evs) >= n
       /\ SameBag(SubSeq(evs, 1, n), Head(gs))
       /\ MatchG(SubSeq(evs, n + 1, Len(evs)), Tail(gs))

Terminated(r) == \A i \in DOMAIN r.runs : r.runs[i].outcome = "completed"
NoPanic(r) == ~StartsAt(r.pres, 1, "panic")
SameSeq(a, b) == Len(a) = Len(b) /\ \A i \in 1..Len(a) : a[i] = b[i]

\* placements whose here-document is not in the tree of the script itself (it is inside
\* a command substitution / an alias value / the operand of eval)
NoTree == {"subst", "alias", "eval"}

Verdict(r) ==
  LET h == [place |-> r.sc.place, shape |-> r.sc.shape, ops |-> r.sc.ops]
      e == Expect(h, r.sc.lines, r.sc.nl)
  IN IF ~SameSeq(e.script, r.script) THEN [v |-> "render", class |-> e.class, why |-> "script"]
     ELSE IF ~(Terminated(r) /\ NoPanic(r)) THEN [v |-> "reject", class |-> e.class, why |-> "outcome"]
     ELSE IF e.class # "ok" THEN [v |-> "open", class |-> e.class, why |-> ""]
     \* (the harness parses without the alias: its verdict on an alias scenario means nothing)
     ELSE IF r.pres # "ok" /\ r.sc.place # "alias" THEN [v |-> "reject", class |-> e.class, why |-> "syntax-error"]
     ELSE IF \E i \in DOMAIN r.runs : ~MatchG(r.runs[i].ev, e.groups) THEN [v |-> "reject", class |-> e.class, why |-> "events"]
     ELSE IF \E i \in DOMAIN r.runs : r.runs[i].out # e.out THEN [v |-> "reject", class |-> e.class, why |-> "stdout"]
     ELSE IF r.sc.place \notin NoTree /\ ~SameSeq(r.docs, e.docs) THEN [v |-> "reject", class |-> e.class, why |-> "docs"]
     ELSE IF r.sc.place \notin NoTree /\ ~SameSeq(r.printed, e.printed) THEN [v |-> "reject", class |-> e.class, why |-> "printed"]
     ELSE [v |-> "ok", class |-> "ok", why |-> ""]

Judge ==
  (lo = hi /\ N > 0) =>
     LET j == Verdict(Rec[lo])
     IN IF j.v = "ok" THEN TRUE
        ELSE PrintT(ToJson([i |-> lo, v |-> j.v, class |-> j.class, why |-> j.why]))
=============================================================================
