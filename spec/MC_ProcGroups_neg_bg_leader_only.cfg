\* negative configuration: the wrong variant "bg_leader_only" must be refuted (law BgResumes)
SPECIFICATION Spec
CONSTANTS
  Variant = "bg_leader_only"
  Fams = {"fg", "async", "stop1", "tty", "nomon"}
  Cfgs = {"m", "mi", "-", "ml", "mib"}
  Enf = {TRUE}
ALIAS Brief
INVARIANT BgResumes
