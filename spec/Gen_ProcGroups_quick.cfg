SPECIFICATION Spec
CONSTANTS
  Variant = "ok"
  Fams = {"fg", "async", "stop1", "tty", "zomb", "nomon", "hang"}
  Cfgs = {"m", "mi", "-", "mib", "ml"}
  Enf = {TRUE, FALSE}
INVARIANT AllLaws
INVARIANT EmitScn
INVARIANT EmitEnd
