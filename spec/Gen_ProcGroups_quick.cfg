SPECIFICATION Spec
CONSTANTS
  Variant = "ok"
  Fams = {"fg", "async", "stop1", "tty", "zomb", "nomon"}
  Cfgs = {"m", "mi", "-", "mib"}
  Enf = {TRUE, FALSE}
INVARIANT AllLaws
INVARIANT EmitScn
INVARIANT EmitEnd
