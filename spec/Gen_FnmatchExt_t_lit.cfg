INIT Init
NEXT Next
VIEW view
CONSTANTS
  Variant = ""
  PNorm <- TokLit
  PLit <- LitLit
  PMacro <- MacLit
  PLen = 3
  SAlpha <- StrLit
  SLen = 3
  CfgSel = "all"
  Kind = "match"
INVARIANT Emit
