\* P1 + P2 generator, theme "lim", quick tier: every distinct state reachable by
\* <= 3 calls of the theme's alphabet, and the result of every call in each
\* of them (sequences of <= 4 calls).
SPECIFICATION Spec
CONSTANTS
  Theme = "lim"
  MaxFd = 6
  MaxLen = 6
  MaxPipe = 2
  MaxH = 3
VIEW view
CONSTRAINT Bounded
INVARIANT TypeOK
INVARIANT NoDanglingOfd
INVARIANT TreeClosed
INVARIANT NoIgnoredPending
INVARIANT EmitBounded
