SPECIFICATION TraceSpec
CONSTANTS
  Fuel = 400
  TickLimit = 3
POSTCONDITION Accepted
CHECK_DEADLOCK FALSE
