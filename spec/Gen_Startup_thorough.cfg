SPECIFICATION Spec
CONSTANT Fams = {"modes", "rc", "vars", "portable", "files", "term"}
CONSTANT Deep = 1
CONSTANT Variant = ""
INVARIANT Check
