INIT Init
NEXT Next
CONSTANTS
  Variant = "ci_ascii_only"
INVARIANT C_FoldWide
