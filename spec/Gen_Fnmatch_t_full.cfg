INIT Init
NEXT Next
VIEW view
CONSTANTS
  PNorm <- AlphaFull
  PLit <- NoChars
  PMacro <- NoChars
  PLen = 5
  SAlpha <- StrFull
  SLen = 3
  Kind = "match"
INVARIANT Emit
