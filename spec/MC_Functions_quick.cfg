SPECIFICATION Spec
CONSTANTS
  MaxDepth = 4
  Variant = ""
  Fams = {"pos", "vars", "tabfn", "tabmain", "redir", "sub", "ns"}
  LB = 2
  LM = 1
  Wide = {}
  Stepwise = TRUE
INVARIANTS TypeOK BodyStable ListRoundTrip
PROPERTIES P_CallRestores P_ReadOnlyStable P_DefineInert P_OnlyChangers P_UnsetAll P_SubContained P_ObsFaithful P_CallRedirects
