---------------------------- MODULE MC_Functions ----------------------------
(***************************************************************************)
(* What TLC proves about the machine of ShFunctions.tla, run step by step  *)
(* (Stepwise = TRUE) over every scenario of the families of Gen_Functions: *)
(* state invariants and action properties that restate, independently of   *)
(* the way StepF is written, what POSIX and the manual say about the call  *)
(* protocol and the function table.  The negative configurations           *)
(* MC_Functions_neg_<variant>.cfg select a named wrong variant of the      *)
(* machine and must each be refuted by the property named in lib/checks/   *)
(* g12.py.                                                                 *)
(***************************************************************************)
EXTENDS Gen_Functions

SubIdx(T) == {j \in 1..Len(T.stk) : T.stk[j].k \in SubLike}
NumSub(T) == Cardinality(SubIdx(T))
TopSub(T) == T.stk[MaxOf(SubIdx(T))]
NonLoop(T) == MaxOf({j \in 1..Len(T.stk) : T.stk[j].k # "loop"})

Cur == Head(Top(S).code)       \* the command about to be executed (when there is one)

\* this step completes a function call: the end of the body is reached, or `return`
\* is executed with a call as the innermost activation that is not a loop
CompletesCall == \/ Kind(S) = "end_call"
                 \/ Kind(S) = "ret" /\ S.stk[NonLoop(S)].k = "call"
CompletedIdx == IF Kind(S) = "end_call" THEN Len(S.stk) ELSE NonLoop(S)

\* XCU 2.9.5 "When the function completes, the positional parameters shall be
\* restored to the values they had before the function was executed";
\* variables.md "Local variables are removed when the function returns";
\* simple.md "Redirections are canceled"; on EVERY way of completing.
CallRestores ==
  CompletesCall =>
    LET a == S.stk[CompletedIdx]
    IN /\ S'.pos = a.sv.pos
       /\ S'.loc = FrontOf(S.loc)
       /\ S'.fd1 = a.sv.fd1
       /\ Len(S'.stk) = CompletedIdx - 1
       /\ S'.funs = S.funs
P_CallRestores == [][CallRestores]_vars

\* functions.md "Read-only functions cannot be redefined or removed" -- in
\* one shell environment (leaving a subshell gives back the parent's table)
ReadOnlyStable ==
  (~S.done /\ NumSub(S') >= NumSub(S)) =>
    \A n \in Names : IsRO(S.funs, n) => S'.funs[n] = S.funs[n]
P_ReadOnlyStable == [][ReadOnlyStable]_vars

\* the function definition command defines: nothing is executed, expanded,
\* written or redirected; status 0 unless a read-only function is in the way
DefineInert ==
  (~S.done /\ Kind(S) = "def") =>
    /\ S'.out = S.out /\ S'.fo = S.fo /\ S'.fp = S.fp /\ S'.cap = S.cap
    /\ S'.glob = S.glob /\ S'.loc = S.loc /\ S'.pos = S.pos /\ S'.fd1 = S.fd1
    /\ Len(S'.stk) = Len(S.stk)
    /\ \A j \in 1..(Len(S.stk) - 1) : S'.stk[j] = S.stk[j]
    /\ \A n \in Names \ {Cur.n} : S'.funs[n] = S.funs[n]
    /\ IF IsRO(S.funs, Cur.n) THEN S'.st = NZ /\ S'.funs = S.funs
       ELSE S'.st = 0 /\ S'.funs[Cur.n] = Entry(Cur.b, Cur.r, Cur.i)
P_DefineInert == [][DefineInert]_vars

\* only the definition command, unset -f and typeset -fr change the table
\* (and leaving a subshell gives back the parent's)
TableChangers == {"def", "unsetf", "mkro"}
OnlyChangers ==
  (~S.done /\ Kind(S) \notin TableChangers /\ NumSub(S') >= NumSub(S)) => S'.funs = S.funs
P_OnlyChangers == [][OnlyChangers]_vars

\* unset -f a...: every operand that is not read-only is gone afterwards,
\* whether or not another operand was an error
UnsetAll ==
  (~S.done /\ Kind(S) = "unsetf" /\ NumSub(S') = NumSub(S)) =>
    /\ \A i \in 1..Len(Cur.a) : ~IsRO(S.funs, Cur.a[i]) => ~S'.funs[Cur.a[i]].d
    /\ \A n \in Names : (\A i \in 1..Len(Cur.a) : Cur.a[i] # n) => S'.funs[n] = S.funs[n]
P_UnsetAll == [][UnsetAll]_vars

\* XCU 2.13: a subshell (also a pipeline stage, a command substitution)
\* cannot change the table, the variables or the positional parameters of
\* the shell that created it
SubContained ==
  (~S.done /\ NumSub(S') < NumSub(S)) =>
    LET a == TopSub(S)
    IN /\ S'.funs = a.sv.funs /\ S'.glob = a.sv.glob /\ S'.loc = a.sv.loc /\ S'.pos = a.sv.pos
       /\ S'.fd1 = a.sv.fd1
P_SubContained == [][SubContained]_vars

\* the body is expanded when it is executed: an observation shows the state at that moment
Target(T) == CASE T.fd1 = "out" -> T.out [] T.fd1 = "o" -> T.fo [] T.fd1 = "p" -> T.fp
               [] OTHER -> T.cap[CapIdx(T.fd1)]
ObsFaithful ==
  (~S.done /\ Kind(S) = "obs") => (S'.fd1 = S.fd1 /\ Target(S') = Append(Target(S), ObsLine(S)))
P_ObsFaithful == [][ObsFaithful]_vars

\* redirections of the definition command are performed at each call, after those of the call
CallRedirects ==
  (~S.done /\ Kind(S) = "call" /\ Len(S'.stk) = Len(S.stk) + 1) =>
    LET fn == S.funs[Cur.n]
        want == CASE fn.r = ">o" -> "o" [] fn.r = ">>p" -> "p"
                  [] Cur.r = ">o" -> "o" [] Cur.r = ">>p" -> "p" [] OTHER -> S.fd1
    IN /\ S'.fd1 = want
       /\ S'.pos = ExpandArgs(Cur.a, S.pos, 1)
       /\ Len(S'.loc) = Len(S.loc) + 1
       /\ (fn.r = ">o" => S'.fo = <<>>)
P_CallRedirects == [][CallRedirects]_vars

\* the function being executed goes on with the body it was called with,
\* whatever happens to its name in the table meanwhile
IsSuffix(a, b) == Len(a) <= Len(b) /\ SubSeq(b, Len(b) - Len(a) + 1, Len(b)) = a
BodyStable ==
  \A j \in 1..Len(S.stk) : S.stk[j].k = "call" => IsSuffix(S.stk[j].code, S.stk[j].sv.body)

\* typeset -fp: "a format that can be evaluated as shell code to recreate the functions"
ListRoundTrip == RoundTrip(S.funs)

\* one frame of local variables per function being executed; statuses in range
TypeOK ==
  /\ Len(S.loc) = CallDepth(S)
  /\ S.st \in -1..255
  /\ S.cls \in {"ok", "open", "deep"}
  /\ S.done \/ (Len(S.stk) >= 1 /\ S.stk[1].k = "main")
  /\ Len(S.cap) = Cardinality({j \in 1..Len(S.stk) : S.stk[j].k \in {"pipe", "cs"}})

\* every run ends (the machine has no other deadlock than `done`)
Terminates == <>(S.done)
=============================================================================
