----------------------------- MODULE Gen_Arith -----------------------------
(***************************************************************************)
(* Generator configuration for C03 (P4 enumeration, spec -> implementation).*)
(* The state is a case under construction: a sequence of integer choices    *)
(* <<family, c1, .., ck>>; Next appends one choice, so TLC's breadth-first  *)
(* search enumerates every case of every family exactly once and its        *)
(* workers evaluate the oracle (Arith!Eval) in parallel.  For each complete *)
(* case the invariant Emit prints one JSON line                             *)
(*    {id, fam, text, env, allowed: [outcomes]}                             *)
(* which harness/c03 evaluates with the real yash_arith::eval.              *)
(*                                                                         *)
(* Families                                                                 *)
(*  1 bin  a OP b      all 18 non-assigning binary operators x all pairs of *)
(*                     boundary values, written as constants and as         *)
(*                     variables                                            *)
(*  2 asg  x OP= b     all 11 assignment operators, x over boundary values  *)
(*                     and unset                                            *)
(*  3 un   OP a, a OP  6 prefix and 2 postfix operators                     *)
(*  4 sc   short-circuit: A || S, A && S, A ? S : 7, A ? 7 : S, A ? S : S2   *)
(*                     where S has a side effect or an error                *)
(*  5 val  variables whose value is written in radix 8/16, signed, out of   *)
(*                     range, empty, non-numeric                            *)
(*  6 d2   (A o2 B) o1 C and A o1 (B o2 C): all 29 x 29 operator pairs      *)
(*  7 d2u  unary/postfix operators above, left of, right of each binary     *)
(*                     operator; unary stacks                               *)
(*  8 d2q  ?: above, left of, right of each binary operator; nested ?:      *)
(*  9 d2b  two arithmetic operators over boundary values (intermediate      *)
(*                     overflow)                                            *)
(* 10 tok  ALL token sequences of length <= NT over the 37 operator lexemes *)
(*                     and two operands, joined by spaces: if the C grammar *)
(*                     (Arith!Parse) accepts the sequence the outcome is    *)
(*                     that of the parsed tree, otherwise anything but a    *)
(*                     crash                                                *)
(***************************************************************************)
EXTENDS Arith, TLC, Json

CONSTANTS
  Families,    \* set of family numbers to generate
  NL,          \* number of leaves used by family 6 (d2): 2..5
  NB2,         \* number of boundary values used by family 9 (d2b)
  NT           \* maximal number of tokens in family 10 (tok)

VARIABLE c

-----------------------------------------------------------------------------
\* Tables

P(k) == Pow2(k)
\* boundary operands (property: 0, +-1, 2^31, 2^63-1, -2^63, shift counts 62..65; plus
\* small generic values, 2^32 and 2^62 for products, values next to the ends)
BV == << Zero, One, MinusOne, FromInt(2), FromInt(3), FromInt(7), FromInt(-7),
         P(31), Neg(P(31)), P(32), P(62), Max64, Min64, Add(Min64, One),
         FromInt(62), FromInt(63), FromInt(64), FromInt(65) >>
NB == Len(BV)

\* family 9 uses a prefix of this
BV2 == << Max64, Min64, MinusOne, One, FromInt(63), P(31), FromInt(2), Zero >>

BinOps1 == << "*", "/", "%", "+", "-", "<<", ">>", "<", "<=", ">", ">=", "==", "!=", "&", "^", "|", "&&", "||" >>
AsgOps  == << "=", "*=", "/=", "%=", "+=", "-=", "<<=", ">>=", "&=", "^=", "|=" >>
AllBin  == BinOps1 \o AsgOps
PreOps  == << "+", "-", "~", "!", "++", "--" >>
PostOps == << "++", "--" >>
Radixes == << "d", "o", "x", "X" >>

\* value v as an operand written with constants; INT64_MIN cannot be written
\* as a constant (its magnitude is not representable): variable z holds it
Lit(v, rsel) ==
  IF v = Min64 THEN Var("z")
  ELSE IF v.n THEN Pre("-", Const(Neg(v), Radixes[(rsel % 4) + 1]))
  ELSE Const(v, Radixes[(rsel % 4) + 1])

Env3(vx, vy, vz) == [n \in {"x", "y", "z"} |-> IF n = "x" THEN vx ELSE IF n = "y" THEN vy ELSE vz]
MinCell == NumCell(Min64)

Mode(k) == IF k % 3 = 0 THEN "s" ELSE IF k % 3 = 1 THEN "t" ELSE "w"
RECURSIVE SumFrom(_, _)
SumFrom(s, i) == IF i > Len(s) THEN 0 ELSE s[i] + SumFrom(s, i + 1)
Sum(s) == SumFrom(s, 1)

C(n) == Const(FromInt(n), "d")
X == Var("x")
Y == Var("y")

\* family 4: operands with a side effect or an error (y holds "foo")
SE == << Bin("=", X, C(5)), Post("++", X), Pre("--", X), Bin("+=", X, C(2)),
         Bin("/", C(1), C(0)), Bin("+", Const(Max64, "d"), C(1)), Bin("<<", C(1), C(64)),
         Bin("=", C(5), C(1)), Y, Post("++", C(5)), Bin("=", X, Y), Bin("%", C(1), C(0)),
         Bin(">>", C(1), Pre("-", C(1))), Pre("-", Var("z")) >>
SCond == << C(0), C(1), Pre("-", C(1)), Var("z"), Const(P(32), "x"), Pre("!", C(0)) >>

\* family 5: variable values (text) and the expressions reading them
VS == << <<"0","1","0">>, <<"0","x","1","0">>, <<"0","X","1","F">>, <<"-","0","1","0">>, <<"-","0","x","1","0">>,
         <<"+","5">>, <<"-","5">>, <<"+","0","1","0">>, <<"0","0">>, <<"0">>, <<"0","7">>, <<"0","0","1","7">>,
         <<>>, <<"f","o","o">>, <<"*">>, <<"-">>, <<"1"," ">>, <<" ","1">>, <<"0","8">>, <<"0","x">>, <<"1","a">>,
         <<"1",".","5">>, <<"3"," ","+"," ","4">>, <<"x">>,
         DecChars(Max64), DecChars(Min64), DecChars(Mk(FALSE, M2p63)), <<"-">> \o DecChars(Mk(FALSE, MAdd(M2p63, <<1>>))),
         ConstChars(Max64, "x"), ConstChars(Mk(FALSE, M2p63), "x"), ConstChars(Max64, "o"), ConstChars(Mk(FALSE, M2p63), "o"),
         <<"-">> \o ConstChars(Mk(FALSE, M2p63), "x"), <<"-">> \o ConstChars(Mk(FALSE, M2p63), "o"),
         ConstChars(Mk(FALSE, M2p64), "x"), <<"0","1","0","0">>, <<"0","x","4","0">> >>
VE == << X, Bin("+", X, C(1)), Bin("*", X, C(2)), Pre("-", X), Post("++", X), Pre("++", X), Pre("--", X),
         Bin("+=", X, C(1)), Bin("=", Y, X), Bin("||", X, C(0)), Bin("&&", C(0), X), Cond(C(1), C(2), X),
         Bin("||", C(1), X), Bin("==", X, C(8)), Bin("<<", C(1), X), Bin("=", X, Bin("+", X, C(1))),
         Bin("=", X, C(3)), Cond(X, C(1), C(2)), Pre("!", X), Pre("~", X) >>

\* form 2 of family 5: the same expression with the value spliced into the text
\* ("$x" in the shell): possible when the value is a signed integer constant
\* and the expression does not modify x
DollarOK(i, j) == ConstMag(IF Len(VS[i]) >= 1 /\ VS[i][1] \in {"+", "-"} THEN SubSeq(VS[i], 2, Len(VS[i])) ELSE VS[i]).ok
                  /\ "x" \notin Writes(VE[j])

\* family 10: the token alphabet (every operator lexeme of the language, "(" ")", two operands)
TA == << "?", ":", "|=", "||", "|", "^=", "^", "&=", "&&", "&", "==", "=", "!=", "<=", "<<=", "<<", "<", ">=", ">>=", ">>",
         ">", "+=", "++", "+", "-=", "--", "-", "*=", "*", "/=", "/", "%=", "%", "~", "!", "(", ")", "1", "x" >>
TokEnv == Env3(NumCell(FromInt(5)), Unset, Unset)
\* the tree of a parse result (operand tokens become constants and variables)
RECURSIVE FromSkeleton(_)
FromSkeleton(e) ==
  CASE e.k = "t" -> IF e.t = "1" THEN C(1) ELSE Var(e.t)
    [] e.k = "u" -> Pre(e.op, FromSkeleton(e.a))
    [] e.k = "p" -> Post(e.op, FromSkeleton(e.a))
    [] e.k = "b" -> Bin(e.op, FromSkeleton(e.l), FromSkeleton(e.r))
    [] e.k = "q" -> Cond(FromSkeleton(e.c), FromSkeleton(e.t), FromSkeleton(e.e))

\* families 6-8: leaves; environment x = 7, y = -3, z unset
Leaf == << X, Y, C(2), C(3), Var("z") >>
D2Env == Env3(NumCell(FromInt(7)), NumCell(FromInt(-3)), Unset)

\* family 9: boundary value k as an operand (x, y, z hold the three values)
-----------------------------------------------------------------------------
\* Choice domains: DomAt(c) = the set of choices for the next position, {} when complete

DomAt(s) ==
  LET f == s[1]
      k == Len(s)       \* next choice is number k
  IN CASE f = 1 -> IF k = 1 THEN 1..Len(BinOps1) ELSE IF k \in {2, 3} THEN 1..NB ELSE IF k = 4 THEN 1..2 ELSE {}
       [] f = 2 -> IF k = 1 THEN 1..Len(AsgOps) ELSE IF k = 2 THEN 0..NB ELSE IF k = 3 THEN 1..NB ELSE {}
       [] f = 3 -> IF k = 1 THEN 1..8 ELSE IF k = 2 THEN 1..NB ELSE IF k = 3 THEN 1..2 ELSE {}
       [] f = 4 -> IF k = 1 THEN 1..5 ELSE IF k = 2 THEN 1..Len(SCond) ELSE IF k = 3 THEN 1..Len(SE)
                   ELSE IF k = 4 THEN (IF s[2] = 5 THEN 1..Len(SE) ELSE {1}) ELSE {}
       [] f = 5 -> IF k = 1 THEN 1..Len(VS) ELSE IF k = 2 THEN 1..Len(VE)
                   ELSE IF k = 3 THEN (IF DollarOK(s[2], s[3]) THEN 1..2 ELSE {1}) ELSE {}
       [] f = 6 -> IF k = 1 THEN 1..2 ELSE IF k \in {2, 3} THEN 1..Len(AllBin) ELSE IF k \in {4, 5, 6} THEN 1..NL ELSE {}
       [] f = 7 -> IF k = 1 THEN 1..8 ELSE IF k = 2 THEN 1..8
                   ELSE IF k = 3 THEN (IF s[2] <= 3 \/ s[2] = 8 THEN 1..Len(AllBin) ELSE 1..8)
                   ELSE IF k \in {4, 5} THEN 1..3 ELSE {}
       [] f = 8 -> IF k = 1 THEN 1..6 ELSE IF k = 2 THEN (IF s[2] <= 3 THEN 1..Len(AllBin) ELSE {1})
                   ELSE IF k \in {3, 4, 5, 6} THEN 1..3 ELSE {}
       [] f = 9 -> IF k = 1 THEN 1..2 ELSE IF k \in {2, 3} THEN 1..12 ELSE IF k \in {4, 5, 6} THEN 1..NB2 ELSE {}
       [] f = 10 -> IF k = 1 THEN 1..NT ELSE IF k <= s[2] + 1 THEN 1..Len(TA) ELSE {}

Complete(s) == Len(s) >= 1 /\ DomAt(s) = {}

Init == c \in {<<f>> : f \in Families}
Next == \E v \in DomAt(c) : c' = Append(c, v)

-----------------------------------------------------------------------------
\* The case a complete choice sequence denotes: [e, env, sp]

UnOp(i, a) == IF i <= 6 THEN Pre(PreOps[i], a) ELSE Post(PostOps[i - 6], a)
D2bOps == << "+", "-", "*", "/", "%", "<<", ">>", "&", "|", "^", "<", "==" >>

Case(s) ==
  LET f == s[1]
      sp == Mode(Sum(s))
  IN CASE f = 1 ->
            LET a == BV[s[3]]  b == BV[s[4]]
            IN IF s[5] = 1
               THEN [e |-> Bin(BinOps1[s[2]], Lit(a, s[2] + s[3]), Lit(b, s[3] + s[4])), env |-> Env3(Unset, Unset, MinCell), sp |-> sp]
               ELSE [e |-> Bin(BinOps1[s[2]], X, Y), env |-> Env3(NumCell(a), NumCell(b), Unset), sp |-> sp]
       [] f = 2 ->
            [e |-> Bin(AsgOps[s[2]], X, Lit(BV[s[4]], s[2] + s[4])),
             env |-> Env3(IF s[3] = 0 THEN Unset ELSE NumCell(BV[s[3]]), Unset, MinCell), sp |-> sp]
       [] f = 3 ->
            IF s[4] = 1 THEN [e |-> UnOp(s[2], Lit(BV[s[3]], s[2] + s[3])), env |-> Env3(Unset, Unset, MinCell), sp |-> sp]
            ELSE [e |-> UnOp(s[2], X), env |-> Env3(NumCell(BV[s[3]]), Unset, Unset), sp |-> sp]
       [] f = 4 ->
            LET A == SCond[s[3]]  S == SE[s[4]]  S2 == SE[s[5]]
                e == CASE s[2] = 1 -> Bin("||", A, S)
                       [] s[2] = 2 -> Bin("&&", A, S)
                       [] s[2] = 3 -> Cond(A, S, C(7))
                       [] s[2] = 4 -> Cond(A, C(7), S)
                       [] s[2] = 5 -> Cond(A, S, S2)
            IN [e |-> e, env |-> Env3(NumCell(FromInt(41)), Cell(<<"f", "o", "o">>), MinCell), sp |-> sp]
       [] f = 5 -> IF s[4] = 1 THEN [e |-> VE[s[3]], env |-> Env3(Cell(VS[s[2]]), Unset, Unset), sp |-> sp]
                   ELSE [e |-> Subst(VE[s[3]], "x", SplicedConstant(VS[s[2]])), env |-> Env3(Cell(VS[s[2]]), Unset, Unset), sp |-> "s"]
       [] f = 6 ->
            LET o1 == AllBin[s[3]]  o2 == AllBin[s[4]]
                A == Leaf[s[5]]  B == Leaf[s[6]]  D == Leaf[s[7]]
            IN [e |-> IF s[2] = 1 THEN Bin(o1, Bin(o2, A, B), D) ELSE Bin(o1, A, Bin(o2, B, D)),
                env |-> D2Env, sp |-> sp]
       [] f = 7 ->
            LET A == Leaf[s[5]]  B == Leaf[s[6]]
                e == CASE s[2] = 1 -> UnOp(s[3], Bin(AllBin[s[4]], A, B))
                       [] s[2] = 2 -> Bin(AllBin[s[4]], UnOp(s[3], A), B)
                       [] s[2] = 3 -> Bin(AllBin[s[4]], A, UnOp(s[3], B))
                       [] s[2] = 4 -> UnOp(s[3], UnOp(s[4], A))
                       [] s[2] = 5 -> UnOp(s[3], UnOp(s[4], UnOp(s[3], B)))
                       [] s[2] = 6 -> Bin("-", UnOp(s[3], A), UnOp(s[4], B))
                       \* redundant parentheses: ( A ) as operand and as lvalue
                       [] s[2] = 7 -> UnOp(s[3], Group(UnOp(s[4], Group(A))))
                       [] s[2] = 8 -> Bin(AllBin[s[4]], Group(A), UnOp(s[3], Group(Group(B))))
            IN [e |-> e, env |-> D2Env, sp |-> sp]
       [] f = 8 ->
            LET o == AllBin[s[3]]
                A == Leaf[s[4]]  B == Leaf[s[5]]  D == Leaf[s[6]]  F == Leaf[s[7]]
                e == CASE s[2] = 1 -> Cond(Bin(o, A, B), D, F)
                       [] s[2] = 2 -> Bin(o, Cond(A, B, D), F)
                       [] s[2] = 3 -> Bin(o, F, Cond(A, B, D))
                       [] s[2] = 4 -> Cond(Cond(A, B, D), F, C(9))
                       [] s[2] = 5 -> Cond(A, Cond(B, D, F), C(9))
                       [] s[2] = 6 -> Cond(A, C(9), Cond(B, D, F))
            IN [e |-> e, env |-> D2Env, sp |-> sp]
       [] f = 10 ->
            LET ts == [i \in 1..s[2] |-> TA[s[i + 2]]]
                pr == Parse(ts)
            IN [e |-> IF pr.ok THEN FromSkeleton(pr.e) ELSE C(0), env |-> TokEnv, sp |-> "s",
                parsed |-> pr.ok, text |-> JoinFrom(ts, 1, "s")]
       [] f = 9 ->
            LET o1 == D2bOps[s[3]]  o2 == D2bOps[s[4]]
            IN [e |-> IF s[2] = 1 THEN Bin(o1, Bin(o2, X, Y), Var("z")) ELSE Bin(o1, X, Bin(o2, Y, Var("z"))),
                env |-> Env3(NumCell(BV2[s[5]]), NumCell(BV2[s[6]]), NumCell(BV2[s[7]])), sp |-> sp]

-----------------------------------------------------------------------------
\* Output

EnvJson(env) == [n \in DOMAIN env |-> [set |-> env[n].set, s |-> Str(env[n].s)]]
OutJson(o)   == [t |-> o.t, v |-> Str(DecChars(o.v)), c |-> o.c, env |-> EnvJson(o.env)]

\* One line per complete case; FALSE (a model error, never a violation) if the
\* oracle's own sanity conditions fail on the case:
\*  - every value result is a well-formed 64-bit number,
\*  - Parse(Toks(e)) = e: the parentheses printed are exactly those the C grammar needs.
Line(s) ==
  LET k == Case(s)
      tok == s[1] = 10
      S == IF tok /\ ~k.parsed THEN {U(k.env)} ELSE Allowed(k.e, k.env)
      pr == Parse(Toks(k.e))
      sane == /\ \A o \in S : o.t = "v" => InRange64(o.v) /\ IsNum(o.v)
              /\ pr.ok /\ pr.e = Skeleton(k.e)
  IN IF ~sane THEN [sane |-> FALSE]
     ELSE [sane |-> TRUE, id |-> s, text |-> IF tok THEN k.text ELSE Text(k.e, k.sp), env |-> EnvJson(k.env),
           \* family 5 form 2: the text as it is written in the shell
           dtext |-> IF s[1] = 5 /\ s[4] = 2 THEN Text(Subst(VE[s[3]], "x", Var("$x")), "s") ELSE "",
           allowed |-> {OutJson(o) : o \in S},
           \* outcomes under the named deviation of finding F3, where it applies
           dev |-> IF DeviationApplies(k.env) THEN {OutJson(o) : o \in AllowedDecimalOnly(k.e, k.env)} ELSE {}]

Emit == IF Complete(c) THEN LET ln == Line(c) IN ln.sane /\ PrintT(ToJson(ln)) ELSE TRUE
=============================================================================
