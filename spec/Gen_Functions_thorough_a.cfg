SPECIFICATION Spec
CONSTANTS
  MaxDepth = 4
  Variant = ""
  Fams = {"pos", "vars", "tabfn", "tabmain", "redir", "sub", "ns"}
  LB = 2
  LM = 2
  Wide = {"ns", "tabmain"}
  Stepwise = FALSE
INVARIANT Emit
