SPECIFICATION Spec
CONSTANTS
  MaxDepth = 4
  Variant = ""
  Fams = {"pos", "vars", "tabfn", "tabmain", "redir", "sub"}
  LB = 2
  LM = 2
  Stepwise = FALSE
INVARIANT Emit
