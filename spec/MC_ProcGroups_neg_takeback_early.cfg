\* negative configuration: the wrong variant "takeback_early" must be refuted (law FgBeforeRun)
SPECIFICATION Spec
CONSTANTS
  Variant = "takeback_early"
  Fams = {"fg", "async", "stop1", "tty", "nomon"}
  Cfgs = {"m", "mi", "-", "ml", "mib"}
  Enf = {TRUE}
ALIAS Brief
INVARIANT FgBeforeRun
