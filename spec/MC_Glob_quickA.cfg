\* P4 enumeration, quick, part A: rich + random trees x words of <= 3 units
INIT Init
NEXT Next
VIEW View
CONSTANTS
  MaxLen = 3
  FullLen = 2
  Core = {1, 3, 4, 5, 6, 7, 8, 9, 10, 11, 12, 13, 14, 21, 26, 27, 30, 33, 34}
  Families = {"rich", "rand"}
  NRand = 12
  RandSize = 9
INVARIANT TreesOK0
INVARIANT Emit
