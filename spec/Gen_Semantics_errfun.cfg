SPECIFICATION Spec
CONSTANTS
  Fuel = 24
  TickLimit = 2
  K = 6
  Alphabet <- AlphaErrFun
  ItemAlphabet <- NoItems
  Mode = "c10"
INVARIANT Emit
CHECK_DEADLOCK FALSE
