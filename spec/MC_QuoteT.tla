---- MODULE MC_QuoteT ----
EXTENDS MC_Quote
T1 == GoodQuote(s, QuoteRule(s))
====
