SPECIFICATION Spec
CONSTANTS
  Profile = "lex"
  MaxTok = 16
  MaxUnits = 0
INVARIANT GenInv
