SPECIFICATION Spec
CONSTANTS
  Alphabet = {97, 61, 36, 34, 39, 92, 96, 32, 9, 10, 59, 38, 124, 40, 41, 60, 62, 42, 63, 91, 93, 123, 125, 35, 126, 58, 33, 12288}
  MaxLen = 3
INVARIANT T1
