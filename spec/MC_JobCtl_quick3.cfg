SPECIFICATION Spec
CONSTANTS
  MaxLen = 3
  Modes = {TRUE}
  JobIdOps = {"%1", "%2", "%3", "%+", "%-", "%?f2", "%hold"}
  PidOps = {"$p1", "$p3", "9999"}
  Sigs = {"KILL", "TSTP", "STOP", "CONT"}
  JobsOpts = {"", "-l", "-p"}
  KillLNums = {}
  MonCmds = {}
  FgSlots = {}
  StartWith = "p3"
VIEW view
INVARIANT TableConsistent
INVARIANT TableMirrorsProcesses
INVARIANT ListingShape
INVARIANT ReportedOnce
INVARIANT EmitState
PROPERTY ReportedThenGone
PROPERTY WaitTrue
PROPERTY NumbersStable
