----------------------------- MODULE Gen_Expand -----------------------------
(***************************************************************************)
(* spec -> impl enumeration for C01.  TLC's breadth-first search is the    *)
(* enumerator: a state is (shell state, IFS, nounset, word of up to three  *)
(* units drawn from the alphabet U below); for every state the invariant   *)
(* Emit prints one JSON line {w, st, out} with the outcomes Expand.tla     *)
(* allows, which harness/c01 replays on the real shell.                    *)
(*                                                                         *)
(* Words:  every single unit of U;  every pair with at least one unit in   *)
(* Core (and a 1/PairSlice sample of the other pairs);  every triple       *)
(* Core x Mid x Core (Mid: quoting forms, $@ and $* ).                     *)
(* Slice > 1 keeps all one-unit words and a 1/Slice sample (selected by    *)
(* Seed) of the longer ones.  With nounset only words are printed whose    *)
(* result can differ (some parameter they mention is unset).               *)
(*                                                                         *)
(* The character "e" stands for a character outside ASCII (the harness     *)
(* writes it as U+00E9, two bytes in UTF-8).                               *)
(***************************************************************************)
EXTENDS Expand, Json, IOUtils

CONSTANTS Slice,       \* 1: everything; k: 1/k of the words of 2 and 3 units
          Level,       \* 1: reduced alphabet of modifier words; 2: full
          PairSlice    \* 0: no pairs without a Core unit; k: a 1/k sample of them

Seed == IF "SEED" \in DOMAIN IOEnv THEN (CHOOSE n \in 0..9999 : ToString(n) = IOEnv.SEED) ELSE 1

RECURSIVE SeqOfSet(_)
SeqOfSet(S) == IF S = {} THEN <<>> ELSE LET e == CHOOSE e \in S : TRUE IN <<e>> \o SeqOfSet(S \ {e})
RECURSIVE FlattenSeqs(_)
FlattenSeqs(ss) == IF ss = <<>> THEN <<>> ELSE Head(ss) \o FlattenSeqs(Tail(ss))

L(s) == WLit(s)
B(c) == WBs(c)
SQ(s) == WSq(s)
DQ(us) == WDq(us)
P(p) == WPar(p)

---------------------------------------------------------------------------
(* shell states: variables set to {a, "a b", " a:b ", ":" ...}, empty,     *)
(* unset; 0/1/2 positional parameters including empty ones                 *)
StateTable == <<
  [x |-> Unset,         y |-> Unset,     pos |-> <<>>,              st |-> "0"],
  [x |-> Val(""),       y |-> Val("b"),  pos |-> <<"">>,            st |-> "0"],
  [x |-> Val("a"),      y |-> Unset,     pos |-> <<"a">>,           st |-> "3"],
  [x |-> Val("a b"),    y |-> Val("*"),  pos |-> <<"a b", "">>,     st |-> "0"],
  [x |-> Val(" a:b "),  y |-> Val(":"),  pos |-> <<"", "c">>,       st |-> "0"],
  [x |-> Val(":"),      y |-> Val(" "),  pos |-> <<"a\\", "b">>,   st |-> "0"],
  [x |-> Val("::a"),    y |-> Val("a"),  pos |-> <<" ">>,           st |-> "0"],
  [x |-> Val("a  b:"),  y |-> Val(""),   pos |-> <<>>,              st |-> "0"],
  [x |-> Val("e"),      y |-> Unset,     pos |-> <<":">>,           st |-> "0"],
  [x |-> Val("a:"),     y |-> Val("?"),  pos |-> <<"a:b", "c d">>,  st |-> "0"],
  [x |-> Unset,         y |-> Val("a"),  pos |-> <<"e e">>,         st |-> "0"],
  [x |-> Val("a\tb"),   y |-> Val("a*"), pos |-> <<"", "">>,        st |-> "0"] >>
IfsTable == << [set |-> FALSE, v |-> ""], Val(""), Val(" "), Val(":"), Val(" :") >>

MkState(si, fi, nu) ==
  [x |-> StateTable[si].x, y |-> StateTable[si].y, pos |-> StateTable[si].pos,
   ifs |-> IfsTable[fi], nounset |-> nu, st |-> StateTable[si].st]

---------------------------------------------------------------------------
(* the unit alphabet *)
Core == L("a") \o L(":") \o B(" ") \o SQ("") \o DQ(<<>>) \o P("x") \o DQ(P("x"))
        \o P("@") \o DQ(P("@")) \o P("*") \o DQ(P("*"))

Mid == B(" ") \o SQ("") \o DQ(<<>>) \o DQ(P("x")) \o P("@") \o DQ(P("@")) \o P("*") \o DQ(P("*"))
       \o DQ(P("@") \o P("x"))

Singles ==
     L("e") \o B(":") \o B("a") \o SQ(" a") \o SQ(":")
  \o P("y") \o P("1") \o P("2") \o P("#") \o P("?")
  \o WLen("x") \o WLen("y") \o WLen("1") \o WLen("#")
  \o DQ(L(" ")) \o DQ(L(":")) \o DQ(B("\\")) \o DQ(B("a")) \o DQ(B("$")) \o DQ(L("'"))
  \o DQ(P("1")) \o DQ(P("y")) \o DQ(WLen("x"))
  \o DQ(L("a") \o P("@")) \o DQ(P("@") \o L("a")) \o DQ(P("y") \o P("@")) \o DQ(P("@") \o P("@"))
  \o DQ(P("@") \o L(" ") \o P("@")) \o DQ(P("*") \o P("x")) \o DQ(L("a") \o P("*"))

SwWords == IF Level = 1
           THEN << <<>>, L("b c"), DQ(P("@")), P("y") >>
           ELSE << <<>>, L("b c"), SQ(" b"), DQ(<<>>), DQ(P("@")), P("y"), P("@"), L("a:") \o P("x"),
                   P("*"), B(" ") \o L("c") >>
SwWordsDq == IF Level = 1 THEN << L("b c"), P("@") >>
             ELSE << <<>>, L("b c"), P("@"), P("y"), B("$") \o L("c"), P("*"), L("'a'") >>
TrimWords == IF Level = 1
             THEN << L("a"), L("*"), L("a*"), SQ("*"), P("y") >>
             ELSE << <<>>, L("a"), L("*"), L("?"), L("a*"), L("*a"), L("*:"), L(" *"), SQ("*"), B("*"),
                     P("y"), DQ(P("y")), L("?") \o P("y"), P("1") >>
TrimWordsDq == IF Level = 1 THEN << L("a*") >> ELSE << L("a*"), SQ("*"), P("y"), L("*") >>

Switches ==
  FlattenSeqs(SeqOfSet(
    { WSw("x", c, a, SwWords[i]) : c \in BOOLEAN, a \in {"-", "=", "?", "+"}, i \in DOMAIN SwWords }
    \cup { WSw("1", c, a, w) : c \in BOOLEAN, a \in {"-", "+", "="}, w \in {<<>>, L("b c")} }
    \cup { WSw("?", TRUE, a, L("b")) : a \in {"-", "+"} }
    \* the word assigns IFS itself: its results are split with the new value
    \cup { WSw("IFS", c, "=", w) : c \in BOOLEAN, w \in {L(":"), L(" :")} }
    \cup { WPar("IFS"), DQ(WPar("IFS")) }
    \cup { DQ(WSw("x", c, a, SwWordsDq[i])) : c \in BOOLEAN, a \in {"-", "=", "?", "+"}, i \in DOMAIN SwWordsDq }
    \cup { DQ(L("a") \o WSw("1", c, "-", P("@"))) : c \in BOOLEAN } ))

Trims ==
  FlattenSeqs(SeqOfSet(
    { WTrim("x", s, g, TrimWords[i]) : s \in {"#", "%"}, g \in BOOLEAN, i \in DOMAIN TrimWords }
    \cup { WTrim("1", s, g, w) : s \in {"#", "%"}, g \in BOOLEAN, w \in {L("a*"), L("*")} }
    \cup { WTrim("y", "#", FALSE, L("a")) }
    \cup { DQ(WTrim("x", s, g, TrimWordsDq[i])) : s \in {"#", "%"}, g \in BOOLEAN, i \in DOMAIN TrimWordsDq } ))

U == Core \o Singles \o Switches \o Trims
NU == Len(U)
NCore == Len(Core)

IdxIn(u, q) == IF \E i \in DOMAIN q : q[i] = u THEN CHOOSE i \in DOMAIN q : q[i] = u ELSE 0

---------------------------------------------------------------------------
VARIABLES si, fi, nu, i1, i2, i3    \* i1..i3: indices into U (i2 of a triple: into Mid), 0 = absent
vars == <<si, fi, nu, i1, i2, i3>>

Init == /\ si \in DOMAIN StateTable /\ fi \in DOMAIN IfsTable /\ nu \in BOOLEAN
        /\ i1 = 0 /\ i2 = 0 /\ i3 = 0

Triple == i3 # 0

Next ==
  /\ UNCHANGED <<si, fi, nu>>
  /\ \/ i1 = 0 /\ i1' \in 1..NU /\ UNCHANGED <<i2, i3>>
     \/ i1 # 0 /\ i2 = 0 /\ i3 = 0 /\ UNCHANGED <<i1, i3>>
          /\ i2' \in (IF i1 <= NCore THEN 1..NU
                       ELSE (1..NCore) \cup {j \in (NCore+1)..NU :
                               PairSlice > 0 /\ (i1 * 31 + j * 17 + si * 3 + fi * 5 + Seed) % PairSlice = 0})
     \* triples are stored as (core, -mid, core); reached from the pair (core, core)
     \/ i1 # 0 /\ i1 <= NCore /\ i2 # 0 /\ i2 <= NCore /\ i3 = 0 /\ UNCHANGED <<i1, i2>>
          /\ i3' \in 1..Len(Mid)

Spec == Init /\ [][Next]_vars

Word ==
  IF i1 = 0 THEN <<>>
  ELSE IF i2 = 0 THEN <<U[i1]>>
  ELSE IF i3 = 0 THEN <<U[i1], U[i2]>>
  ELSE <<U[i1], Mid[i3], U[i2]>>

RECURSIVE MentionsUnset(_, _)
MentionsUnset(us, st) ==
  \E k \in DOMAIN us :
    LET u == us[k] IN
    \/ u.t = "par" /\ u.p \notin {"@", "*"} /\ ~Lookup(u.p, st).set
    \/ u.t = "par" /\ u.p \in {"@", "*"} /\ st.pos = <<>>      \* set -u must not make these fail
    \/ u.t = "par" /\ u.m \in {"sw", "trim"} /\ MentionsUnset(u.w, st)
    \/ u.t = "dq" /\ MentionsUnset(u.u, st)

Selected ==
  /\ i1 # 0
  /\ (i2 # 0 /\ Slice > 1 /\ (i1 <= NCore \/ i2 <= NCore)) =>
        ((i1 * 7 + i2 * 13 + i3 * 29 + si * 3 + fi * 5 + Seed) % Slice = 0)
  /\ nu => MentionsUnset(Word, MkState(si, fi, nu))

Emit ==
  Selected =>
    LET st == MkState(si, fi, nu)
    IN PrintT(ToJson([w |-> Word, st |-> st, out |-> Outcomes(Word, st)]))

---------------------------------------------------------------------------
(* a few laws of the oracle on the whole enumerated domain (kept cheap)    *)
(*  - a word protected by double quotes as a whole that mentions no @      *)
(*    yields exactly one field;                                            *)
(*  - with an empty IFS no field is ever split: the number of fields is    *)
(*    the number of fields of the phrase that are not empty or are quoted  *)
Laws ==
  (Selected /\ ~nu) =>
    LET st == MkState(si, fi, nu)
        O == Outcomes(Word, st)
    IN (Len(Word) = 1 /\ Word[1].t = "dq" /\ ~HasAt(Word[1].u) /\ O[1].k = "ok") => Len(O[1].f) = 1
=============================================================================
