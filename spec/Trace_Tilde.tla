---------------------------- MODULE Trace_Tilde ----------------------------
(***************************************************************************)
(* impl -> spec validation for G04 (A).  Every record of the ndjson file   *)
(* IOEnv.TRACE was observed on the real shell:                             *)
(*   {ctx, w, env: {home: {set, v}, users: [{n, d}]}, st, obs: {k, f}}     *)
(* the word w in context ctx (see Tilde.tla) with that HOME / user         *)
(* database / shell state gave the fields f (k = "ok") or failed.  A       *)
(* record is accepted iff the observation is the outcome Tilde.tla         *)
(* prescribes; inputs outside the modelled fragment are reported as        *)
(* skipped.  Binary splitting of the index range as in Trace_Expand.       *)
(***************************************************************************)
EXTENDS Tilde, Json, IOUtils

Rec == ndJsonDeserialize(IOEnv.TRACE)
N == Len(Rec)

VARIABLES lo, hi
vars == <<lo, hi>>

Init == lo = 1 /\ hi = N
Next == /\ lo < hi
        /\ LET mid == (lo + hi) \div 2
           IN \/ lo' = lo /\ hi' = mid
              \/ lo' = mid + 1 /\ hi' = hi
Spec == Init /\ [][Next]_vars

Verdict(r) ==
  LET o == Outcome(r.ctx, r.w, r.st, r.env) IN
  IF o.k = "skip" THEN [v |-> "skip", exp |-> <<>>]
  ELSE IF Agree(r.obs, o) THEN [v |-> "ok", exp |-> <<>>]
  ELSE [v |-> "reject", exp |-> o.f]

Judge ==
  (lo = hi /\ N > 0) =>
     LET j == Verdict(Rec[lo])
     IN IF j.v = "ok" THEN TRUE
        ELSE PrintT(ToJson([i |-> lo, v |-> j.v, exp |-> j.exp]))
=============================================================================
