SPECIFICATION Spec
CONSTANTS
  MaxDepth = 4
  Variant = ""
  Fams = {"vars", "tabmain", "redir"}
  LB = 2
  LM = 2
  Stepwise = FALSE
INVARIANT Emit
