--------------------------- MODULE Gen_Functions ---------------------------
(***************************************************************************)
(* spec -> impl enumeration for G12 and the scenario families shared with  *)
(* MC_Functions.  A scenario is [args, main]: the positional parameters of *)
(* the script and its commands.  Families (constant Fams selects; LB / LM  *)
(* bound the length of the body of f / of the main part):                  *)
(*   pos     positional parameters, $#, "$@", return (also out of loops),  *)
(*           exit status, set inside a function, recursion with shift,     *)
(*           calls from loops and subshells                                *)
(*   vars    typeset locals, plain assignments, temporary assignments      *)
(*           t=x f, dynamic scope over three functions                     *)
(*   tabfn   the running function redefines / unsets / makes read-only     *)
(*           itself and others, nested definitions, name by expansion      *)
(*   tabmain definitions, typeset -fr, unset -f (with and without          *)
(*           `command`), listings with filters, at top level, length 3     *)
(*   redir   redirections on the definition command (performed at each     *)
(*           call) against redirections on the call                        *)
(*   sub     definitions / unset / typeset -fr inside ( ), a pipeline      *)
(*           stage and $( ), function bodies that are subshells            *)
(*   ns      a function and a variable both named v: separate namespaces   *)
(* The families in Wide get a main part one command longer.                *)
(* In enumeration mode (Stepwise = FALSE) every scenario is one state and  *)
(* Emit prints the script text and what Functions!Expect demands of it;    *)
(* harness/g12 runs the script on the real shell and compares.  With       *)
(* Stepwise = TRUE the machine of Functions.tla runs step by step (see     *)
(* MC_Functions.tla for what is checked on it).                            *)
(***************************************************************************)
EXTENDS ShFunctions, Json, IOUtils

CONSTANTS Fams, LB, LM, Wide, Stepwise

VARIABLES fam, sc, S
vars == <<fam, sc, S>>

RECURSIVE SeqN(_, _)
SeqN(A, k) == IF k = 0 THEN {<<>>} ELSE {Append(s, a) : s \in SeqN(A, k - 1), a \in A}
SeqsUpTo(A, n) == UNION {SeqN(A, k) : k \in 1..n}

\* ---- family pos ---------------------------------------------------------
PosF == {CObs, CRet(3), CRet(-1), CSt(4), CSet(<<"p", "q">>), CCall("g", <<"@">>), CCall("g", <<"x">>),
         CFor(2, <<CObs, CRet(5)>>), CFor(2, <<CCall("g", <<"y">>), CBrk>>), CRec("f")}
PosG == {<<CObs>>, <<CSet(<<"q">>), CObs, CRet(7)>>, <<CFor(1, <<CRet(-1)>>), CObs>>}
PosM == {CCall("f", <<>>), CCall("f", <<"a">>), CCall("f", <<"a", "b">>), CSt(3),
         CFor(2, <<CCall("f", <<"a">>)>>), CSub(<<CCall("f", <<"c">>)>>)}
PosArgs == {<<>>, <<"x", "y">>}

\* ---- family vars --------------------------------------------------------
VarH == <<CAsg("v", "9"), CObs>>
VarF == {CObs, CAsg("v", "1"), CLoc("v", "2"), CCall("g", <<>>), CCallX("g", <<>>, "T", ""), CRet(3),
         CSub(<<CAsg("v", "3"), CObs>>)}
VarG == {<<CObs>>, <<CAsg("v", "5"), CObs>>, <<CLoc("v", "6"), CCall("h", <<>>), CObs>>, <<CCall("h", <<>>)>>}
VarM == {CAsg("v", "0"), CCall("f", <<>>), CCallX("f", <<>>, "S", ""), CLoc("v", "8"), CCall("g", <<>>)}

\* ---- family tabfn -------------------------------------------------------
TabF == {CObs, CDef("f", <<CObs, CRet(4)>>), CDef("g", <<CObs>>), CUnset(<<"f">>, 0), CUnset(<<"f", "g">>, 1),
         CMkro(<<"f">>), CCall("g", <<>>), CCall("f", <<>>), CList(""), CDefX("h", <<CSt(8)>>, "var", 0, "")}
TabG == {<<CObs>>, <<CUnset(<<"g">>, 0), CSt(2)>>, <<CDef("f", <<CSt(6)>>)>>}
TabM == {CCall("f", <<>>), CCall("g", <<>>), CCall("h", <<>>), CMkro(<<"g">>)}

\* ---- family tabmain -----------------------------------------------------
TabMainM == {CCall("f", <<>>), CCall("g", <<>>), CDefX("g", <<CSt(5)>>, "quo", 0, ""), CDef("f", <<CSt(7)>>),
             CMkro(<<"f">>), CMkro(<<"g", "f">>), CMkro(<<"h">>), CUnset(<<"g">>, 0), CUnset(<<"f", "g">>, 1),
             CUnset(<<"g", "f">>, 1), CUnset(<<"h", "f">>, 0), CList(""), CList("r"), CList("nr")}

\* ---- family redir -------------------------------------------------------
RedF == {CObs, CCall("g", <<>>), CRet(2)}
RedM == {CCall("f", <<>>), CCallX("f", <<>>, "", ">>p"), CCallX("f", <<>>, "", ">o"), CCallX("f", <<>>, "", "<x"),
         CObs, CFor(2, <<CCall("f", <<>>)>>), CCall("g", <<>>), CCallX("g", <<>>, "", ">>p")}
RedFR == {"", ">o", ">>p", "<x"}
RedGR == {"", ">>p", ">o"}

\* ---- family sub ---------------------------------------------------------
SubF == {CObs, CSub(<<CDef("f", <<CSt(3)>>), CCall("f", <<>>)>>), CPipe(<<CDef("g", <<CObs>>), CCall("g", <<>>)>>),
         CCs(<<CUnset(<<"f">>, 0), CObs>>), CCall("g", <<>>), CSub(<<CSet(<<"z">>), CLoc("v", "4"), CObs>>)}
SubG == {<<CObs>>, <<CSt(9)>>}
SubM == {CCall("f", <<>>), CCall("g", <<>>), CSub(<<CDef("g", <<CSt(1)>>), CCall("g", <<>>)>>),
         CPipe(<<CMkro(<<"f">>), CList("")>>), CCs(<<CUnset(<<"g">>, 0), CCall("g", <<>>)>>),
         CSub(<<CUnset(<<"f">>, 0), CObs>>), CList(""), CMkro(<<"f">>), CCs(<<CSt(2)>>)}
SubP == {0, 1}     \* f() { ... } or f() ( ... )

\* ---- family ns ----------------------------------------------------------
NsM == {CDef("v", <<CObs, CRet(6)>>), CAsg("v", "1"), CUnset(<<"v">>, 0), CUnsetV("v"), CCall("v", <<"a">>),
        CMkro(<<"v">>), CList("np"), CCall("f", <<>>)}

Sc(args, main) == [args |-> args, main |-> main]

\* A scenario of family f is built from a body of f, a body of g, a main
\* part and one extra parameter.
FBs(f) == CASE f = "pos" -> SeqsUpTo(PosF, LB) [] f = "vars" -> SeqsUpTo(VarF, LB)
            [] f = "tabfn" -> SeqsUpTo(TabF, LB) [] f = "tabmain" -> {<<CSt(3)>>}
            [] f = "redir" -> SeqsUpTo(RedF, LB) [] f = "sub" -> SeqsUpTo(SubF, LB)
            [] f = "ns" -> {<<CAsg("v", "2"), CCall("v", <<>>), CUnsetV("v")>>}
GBs(f) == CASE f = "pos" -> PosG [] f = "vars" -> VarG [] f = "tabfn" -> TabG [] f = "tabmain" -> {<<>>}
            [] f = "redir" -> {<<CObs>>} [] f = "sub" -> SubG [] f = "ns" -> {<<>>}
LMf(f) == LM + (IF f \in Wide THEN 1 ELSE 0)
Ms(f) == CASE f = "pos" -> SeqsUpTo(PosM, LMf(f)) [] f = "vars" -> SeqsUpTo(VarM, LMf(f))
           [] f = "tabfn" -> SeqsUpTo(TabM, LMf(f)) [] f = "tabmain" -> SeqsUpTo(TabMainM, LMf(f) + 1)
           [] f = "redir" -> SeqsUpTo(RedM, LMf(f)) [] f = "sub" -> SeqsUpTo(SubM, LMf(f))
           [] f = "ns" -> SeqsUpTo(NsM, LMf(f) + 2)
Xs(f) == CASE f = "pos" -> PosArgs [] f = "redir" -> RedFR \X RedGR [] f = "sub" -> SubP [] OTHER -> {0}

Build(f, fb, gb, m, x) ==
  CASE f = "pos" -> Sc(x, <<CDef("f", fb), CDef("g", gb)>> \o m)
    [] f = "vars" -> Sc(<<>>, <<CDef("f", fb), CDef("g", gb), CDef("h", VarH)>> \o m)
    [] f = "tabfn" -> Sc(<<>>, <<CDef("f", fb), CDef("g", gb)>> \o m \o <<CList("")>>)
    [] f = "tabmain" -> Sc(<<>>, <<CDef("f", fb)>> \o m)
    [] f = "redir" -> Sc(<<>>, <<CDefX("f", fb, "lit", 0, x[1]), CDefX("g", gb, "lit", 0, x[2])>> \o m)
    [] f = "sub" -> Sc(<<"x">>, <<CDefX("f", fb, "lit", x, ""), CDef("g", gb)>> \o m)
    [] f = "ns" -> Sc(<<>>, <<CDef("f", fb)>> \o m)

Init == \E f \in Fams : \E fb \in FBs(f) : \E gb \in GBs(f) : \E m \in Ms(f) : \E x \in Xs(f) :
          /\ fam = f
          /\ sc = Build(f, fb, gb, m, x)
          /\ S = Start(sc)

\* one action per kind of step (so that coverage reports them separately)
Step == Stepwise /\ ~S.done /\ S' = StepF(S) /\ UNCHANGED <<fam, sc>>
ADefine == Kind(S) = "def" /\ Step
ACall == Kind(S) \in {"call", "rec"} /\ Step
AReturn == Kind(S) = "ret" /\ Step
AEndCall == Kind(S) = "end_call" /\ Step
AUnsetF == Kind(S) = "unsetf" /\ Step
AMakeReadonly == Kind(S) = "mkro" /\ Step
AList == Kind(S) = "list" /\ Step
AObserve == Kind(S) = "obs" /\ Step
AVariable == Kind(S) \in {"asg", "loc", "set", "st"} /\ Step
ALoop == Kind(S) \in {"for", "brk", "end_loop"} /\ Step
AEnterSub == Kind(S) \in {"sub", "pipe", "cs"} /\ Step
AEndSub == Kind(S) \in {"end_sub", "end_pipe", "end_cs"} /\ Step
AEndMain == Kind(S) = "end_main" /\ Step

Next == \/ ADefine \/ ACall \/ AReturn \/ AEndCall \/ AUnsetF \/ AMakeReadonly \/ AList
        \/ AObserve \/ AVariable \/ ALoop \/ AEnterSub \/ AEndSub \/ AEndMain
Spec == Init /\ [][Next]_vars

Out ==
  LET e == Expect(sc)
  IN [fam |-> fam, args |-> sc.args, script |-> e.script, cls |-> e.cls, out |-> e.out, st |-> e.st,
      fo |-> e.fo, fp |-> e.fp, tab |-> e.tab]

Emit == PrintT(ToJson(Out))
=============================================================================
