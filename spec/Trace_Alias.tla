---------------------------- MODULE Trace_Alias ----------------------------
(***************************************************************************)
(* Implementation -> specification direction of C17.  Every record is an   *)
(* observation of the real parser on a random (table, line) beyond the     *)
(* exhaustively enumerated bounds:                                         *)
(*   tb, line   the inputs (same vocabulary as Alias.tla)                  *)
(*   st         "ok" | "err" (syntax error) | "hang" | "panic"             *)
(*   wordsok    the words of the parsed commands could be collected        *)
(*   words      [t, o]: text of each word of the parsed commands and the   *)
(*              chain of aliases its Location says it results from         *)
(*              (outermost first), in tree order                           *)
(* A record is accepted iff the parser terminated normally and, when the   *)
(* line parsed, its words and their alias origins are those of an allowed  *)
(* by-hand result Result(tb, line).  For every accepted record the allowed *)
(* results are printed; the harness (`judge`) parses them with no aliases  *)
(* and compares the command lists with the recorded one.                   *)
(***************************************************************************)
EXTENDS Alias, IOUtils

Rec == ndJsonDeserialize(IOEnv.TRACE)

VARIABLE l
tvars == <<l, tb, line, st>>      \* tb, line, st: the variables of Alias, unused here

Count(q, x) == Cardinality({i \in 1..Len(q) : q[i] = x})
SameBag(p, q) == /\ Len(p) = Len(q)
                 /\ \A i \in 1..Len(p) : Count(p, p[i]) = Count(q, p[i])

WordsOf(s) == LET w == OutWords(s) IN [i \in 1..Len(w) |-> [t |-> w[i].t, o |-> w[i].o]]

Allowed(r) == Result(r.tb, r.line)

RecOK(r) ==
  LET R == Allowed(r)
      un == \E s \in R : s.unspec
  IN /\ r.st \in {"ok", "err"}                    \* termination, no panic
     /\ (r.st = "ok" /\ r.wordsok /\ ~un) => \E s \in R : SameBag(WordsOf(s), r.words)
     /\ PrintT(ToJson([id |-> r.id, unspec |-> un, res |-> {OutToks(s) : s \in R}]))

TraceInit == l = 1 /\ tb = <<>> /\ line = <<>> /\ st = InitSt(<<>>)
TraceNext == /\ l <= Len(Rec)
             /\ RecOK(Rec[l])
             /\ l' = l + 1
             /\ UNCHANGED <<tb, line, st>>
TraceSpec == TraceInit /\ [][TraceNext]_tvars

Accepted ==
  LET d == TLCGet("stats").diameter
  IN IF d - 1 = Len(Rec) THEN TRUE
     ELSE Print(<<"REJECT", d, ToJson(Rec[d])>>, FALSE)
=============================================================================
