SPECIFICATION Spec
CONSTANTS
  Cfg = "t3"
  Bug = "none"
  Sim = TRUE
INVARIANT TypeOK
INVARIANT InternalInv
INVARIANT Conforms
INVARIANT Emit
