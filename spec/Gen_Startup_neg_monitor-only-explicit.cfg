SPECIFICATION Spec
CONSTANT Fams = {"modes"}
CONSTANT Deep = 0
CONSTANT Variant = "monitor-only-explicit"
INVARIANT Check
