------------------------------ MODULE Executor ------------------------------
(***************************************************************************)
(* Implementation-shaped DRIVER model of yash-executor for property C15.   *)
(*                                                                         *)
(* It adds to the abstract contract (ExecutorAbs) what the code has:       *)
(*   queue   ExecutorState::wake_queue, a FIFO VecDeque<Rc<Task>>          *)
(*           - Executor::step pops the FRONT task *before* polling it      *)
(*             (executor.rs `step`), so a wake during the poll re-queues it*)
(*           - Task::wake pushes to the BACK unless the task is already    *)
(*             in the queue (task.rs `wake`, pointer equality)             *)
(*           - spawn pushes the new task to the back (`enqueue`)           *)
(*           - a finished task can still be queued by a stale waker; its   *)
(*             poll finds the future slot empty and returns true           *)
(*   wq      the registration ORDER of the waiters of a channel (the test  *)
(*           futures wake them in that order)                              *)
(* Every driver action is the conjunction of the abstract action (which    *)
(* updates the world and the abstract `woken` set) with the code's queue   *)
(* update; the invariant QueueRefines states that the two stay in step:    *)
(* the queue holds exactly the woken tasks (no lost wake-up, no poll       *)
(* without a wake) and each at most once (no duplicate).                   *)
(*                                                                         *)
(* The task scripts are lazy: the polled task chooses its next action      *)
(* non-deterministically within its budget, so the graph covers every      *)
(* system of <= MaxTasks tasks with scripts of <= Budget + 1 actions.      *)
(* `h` records the events of the behaviour in the vocabulary of the        *)
(* harness trace (hidden by the VIEW); each emitted history determines     *)
(* concrete scripts and an external schedule that the harness replays on   *)
(* the real executor.                                                      *)
(***************************************************************************)
EXTENDS ExecutorAbs, Json

CONSTANTS MaxRoots,  \* external spawns allowed
          MaxExt,    \* external kicks + try_receives allowed
          Lifo,      \* BOOLEAN: negative configs - a woken task goes to the FRONT
          Hist,      \* BOOLEAN: record the history
          Pinned     \* BOOLEAN: also spawn tasks without a receiver (spawn_pinned)

VARIABLES queue, wq,
          stl,   \* 0 = not stalled, 1 = step() returned None, 2 = run_until_stalled returned
          xo, h

dvars == <<st, woken, cur, ph, blk, left, sig, wt, relay, rw, par, seen, ov, run, rc, queue, wq, stl, xo, h>>
\* rc (like h) is a function of the path, not of the state: hidden
view  == <<st, woken, cur, ph, blk, left, sig, wt, relay, rw, par, seen, ov, run, queue, wq, stl, xo>>

InQ(q, t) == \E i \in 1 .. Len(q) : q[i] = t
ToSet(q)  == {q[i] : i \in 1 .. Len(q)}

\* Task::wake
Push(q, t) == IF InQ(q, t) THEN q
              ELSE IF Lifo THEN <<t>> \o q ELSE Append(q, t)

RECURSIVE PushAll(_, _)
PushAll(q, s) == IF s = <<>> THEN q ELSE PushAll(Push(q, Head(s)), Tail(s))

\* event record, as the harness writes it: [ev, t, a, r, b, v, wc]
Ev(ev, t, a, r, b, v) == <<ev, t, a, r, b, v, Len(queue')>>
Log(e) == h' = IF Hist THEN Append(h, e) ELSE h

Init ==
  /\ AInit
  /\ queue = <<>>
  /\ wq = [k \in Chans |-> <<>>]
  /\ stl = 0
  /\ xo = 0
  /\ h = <<>>

-----------------------------------------------------------------------------
\* Executor::step
DStep ==
  /\ cur = 0 /\ queue # <<>>
  /\ LET t == Head(queue) IN
       /\ queue' = Tail(queue)
       /\ IF st[t] = "D"
          THEN Noop(t) /\ (IF run THEN h' = h      \* not observable inside run_until_stalled
                                  ELSE Log(Ev("noop", 0, 0, "", TRUE, 0)))
          ELSE PollBegin(t) /\ Log(Ev("pb", t, 0, "", FALSE, 0))
  /\ stl' = 0
  /\ UNCHANGED <<wq, xo>>

DStall ==
  /\ cur = 0 /\ queue = <<>> /\ stl = 0
  /\ Stall
  /\ queue' = queue
  /\ stl' = 1
  /\ Log(Ev("stall", 0, 0, "", FALSE, 0))
  /\ UNCHANGED <<wq, xo>>

DPollEnd ==
  /\ cur # 0
  /\ queue' = queue
  /\ \E b \in BOOLEAN :
       /\ PollEnd(cur, b)
       \* inside run_until_stalled the future itself reports its return, before
       \* the spawn wrapper sends the result: no wake_count then
       /\ Log(<<"pe", cur, 0, "", b, 0, IF run /\ b THEN -1 ELSE Len(queue)>>)
  /\ UNCHANGED <<wq, stl, xo>>

\* Executor::run_until_stalled = step() until the queue is empty
DRunBegin ==
  /\ cur = 0 /\ stl = 0
  /\ RunBegin
  /\ queue' = queue
  /\ Log(Ev("rb", 0, 0, "", FALSE, 0))
  /\ UNCHANGED <<wq, stl, xo>>

DRunEnd ==
  /\ cur = 0 /\ run /\ queue = <<>>
  /\ RunEnd(rc)
  /\ queue' = queue
  /\ Log(Ev("re", 0, 0, "", FALSE, rc))
  /\ stl' = 2
  /\ UNCHANGED <<wq, xo>>

\* external operations (what the environment does between steps)
DExtSpawn ==
  /\ cur = 0
  /\ NextId <= MaxTasks
  /\ Cardinality({t \in Tasks : st[t] # "A" /\ par[t] = 0}) < MaxRoots
  /\ \E rl \in (IF Pinned THEN BOOLEAN ELSE {TRUE}) :
       /\ Spawn(0, NextId, rl)
       /\ queue' = Append(queue, NextId)
       /\ Log(Ev("spawn", 0, NextId, "", rl, 0))
  /\ stl' = 0
  /\ UNCHANGED <<wq, xo>>

DExtKick ==
  /\ cur = 0 /\ xo < MaxExt
  /\ \E u \in Tasks :
       /\ Kick(0, u)
       /\ queue' = Push(queue, u)
       /\ Log(Ev("kick", 0, u, "", FALSE, 0))
  /\ stl' = 0 /\ xo' = xo + 1
  /\ UNCHANGED wq

\* try_receive from outside, only on receivers nobody will await any more
DExtTry ==
  /\ cur = 0 /\ xo < MaxExt
  /\ queue' = queue
  /\ \E c \in Tasks, r \in {"ok", "already", "notsent"} :
       /\ st[c] # "A"
       /\ IF par[c] = 0 THEN TRUE ELSE st[par[c]] = "D"
       /\ Try(c, r, Val(c))
       /\ Log(Ev("try", 0, c, r, FALSE, IF r = "ok" THEN Val(c) ELSE 0))
  /\ stl' = 0 /\ xo' = xo + 1
  /\ UNCHANGED wq

\* actions of the polled task
DYield ==
  /\ cur # 0
  /\ Yield(cur)
  /\ queue' = Push(queue, cur)
  /\ Log(Ev("yield", cur, 0, "", FALSE, 0))
  /\ UNCHANGED <<wq, stl, xo>>

DWait ==
  /\ cur # 0
  /\ queue' = queue
  /\ \E k \in Chans, re \in BOOLEAN, r \in {"pass", "block"} :
       /\ Wait(cur, k, re, r)
       /\ wq' = IF r = "block" /\ ~InQ(wq[k], cur) THEN [wq EXCEPT ![k] = Append(@, cur)] ELSE wq
       /\ Log(Ev("wait", cur, k, r, re, 0))
  /\ UNCHANGED <<stl, xo>>

DSignal ==
  /\ cur # 0
  /\ \E k \in Chans :
       /\ Signal(cur, k)
       /\ queue' = PushAll(queue, wq[k])
       /\ wq' = [wq EXCEPT ![k] = <<>>]
       /\ Log(Ev("signal", cur, k, "", FALSE, 0))
  /\ UNCHANGED <<stl, xo>>

DSpawn ==
  /\ cur # 0
  /\ NextId <= MaxTasks
  /\ \E rl \in (IF Pinned THEN BOOLEAN ELSE {TRUE}) :
       /\ Spawn(cur, NextId, rl)
       /\ queue' = Append(queue, NextId)
       /\ Log(Ev("spawn", cur, NextId, "", rl, 0))
  /\ UNCHANGED <<wq, stl, xo>>

DKick ==
  /\ cur # 0
  /\ \E u \in Tasks :
       /\ Kick(cur, u)
       /\ queue' = Push(queue, u)
       /\ Log(Ev("kick", cur, u, "", FALSE, 0))
  /\ UNCHANGED <<wq, stl, xo>>

DAwait ==
  /\ cur # 0
  /\ queue' = queue
  /\ \E c \in Tasks, re \in BOOLEAN, r \in {"recv", "block"} :
       /\ Await(cur, c, re, r, Val(c))
       /\ Log(Ev("await", cur, c, r, re, IF r = "recv" THEN Val(c) ELSE 0))
  /\ UNCHANGED <<wq, stl, xo>>

\* Sender::send wakes the waker stored by Receiver::poll
DComplete ==
  /\ cur # 0
  /\ Complete(cur)
  /\ queue' = IF relay[cur] = "W" THEN Push(queue, rw[cur]) ELSE queue
  /\ h' = IF Hist THEN Append(h, <<"complete", cur, 0, "", FALSE, 0, -1>>) ELSE h
  /\ UNCHANGED <<wq, stl, xo>>

SchedNext == DStep \/ DRunEnd \/ DPollEnd \/ DYield \/ DWait \/ DSignal \/ DSpawn \/ DKick \/ DAwait \/ DComplete
ExtNext   == DExtSpawn \/ DExtKick \/ DExtTry \/ DStall \/ DRunBegin
Next == SchedNext \/ ExtNext

Spec     == Init /\ [][Next]_dvars
FairSpec == Spec /\ WF_dvars(SchedNext)

-----------------------------------------------------------------------------
\* Invariants of the driver

NoDup(q) == \A i, j \in 1 .. Len(q) : q[i] = q[j] => i = j

\* no lost wake-up (woken \subseteq queue), no poll without wake (queue
\* \subseteq woken), each task queued at most once
QueueRefines == ToSet(queue) = woken /\ NoDup(queue)

WaitersRefine == \A k \in Chans : ToSet(wq[k]) = wt[k] /\ NoDup(wq[k])

\* FIFO: nobody overtakes a woken task more than once
FifoOnce == \A u, t \in Tasks : ov[u][t] <= 1

DriverInv == AbsInv /\ QueueRefines /\ WaitersRefine

\* every driver step is a step of the abstract contract
RefinesAbs == [][ANext]_avars

\* FIFO no-starvation: a woken unfinished task is eventually polled, even if
\* other tasks re-wake themselves forever (YieldFree configs)
NoStarvation == \A t \in Tasks : (t \in woken /\ st[t] = "I" /\ cur # t) ~> (cur = t)

-----------------------------------------------------------------------------
\* generator: one line per distinct between-steps state (h hidden by VIEW)
EmitState == IF cur = 0 /\ ~run /\ h # <<>> THEN PrintT(ToJson(h)) ELSE TRUE
\* for the larger configurations: one line per distinct stalled state (a run
\* of a whole task system to quiescence)
\* as an ACTION_CONSTRAINT: one line per TRANSITION of the graph (also those
\* into states already seen), i.e. every (state, action) pair is replayed
EmitTrans == IF Hist /\ ~run' THEN PrintT(ToJson(h')) ELSE TRUE
EmitStalled == IF stl # 0 /\ h # <<>> THEN PrintT(ToJson(h)) ELSE TRUE
=============================================================================
