------------------------------ MODULE MC_Quote ------------------------------
(***************************************************************************)
(* C07 (i), P4 enumeration + design check: TLC's breadth-first search      *)
(* enumerates every string s over Alphabet up to MaxLen; on each one the   *)
(* documented rule of yash-quote must produce a word that the reader of    *)
(* Quote.tla reads back as exactly <<s>> in every expansion context.  One  *)
(* line {s, q} is printed per string (q = the rule's prediction, used only *)
(* to count drift); the harness computes the real quote(s).                *)
(***************************************************************************)
EXTENDS Quote, Json, TLC

CONSTANTS Alphabet, MaxLen

VARIABLE s
vars == <<s>>

Init == s = <<>>
Next == /\ Len(s) < MaxLen
        /\ \E c \in Alphabet : s' = Append(s, c)
Spec == Init /\ [][Next]_vars

DesignOK == GoodQuote(s, QuoteRule(s))

(* sanity of the rule itself: a bare result is the string itself, a quoted *)
(* one is never bare                                                       *)
RuleShape == LET q == QuoteRule(s) IN
             IF NeedsQuoting(s) THEN q[1] \in {SQ, DQ} /\ q[Len(q)] = q[1] ELSE q = s

Emit == PrintT(ToJson([s |-> s, q |-> QuoteRule(s)]))
=============================================================================
