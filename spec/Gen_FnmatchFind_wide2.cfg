INIT Init
NEXT Next
CONSTANTS
  SAlpha <- StrWide
  SLen = 2
  Shards = 16
INVARIANT Emit
