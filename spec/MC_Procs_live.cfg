SPECIFICATION FairSpec
CONSTANTS
  Variant = "ok"
  MaxP = 7
  Scripts <- CatAll
PROPERTY Termination
