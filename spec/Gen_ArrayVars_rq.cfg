SPECIFICATION Spec
CONSTANT Family = "r"
CONSTANT Slice = 1
CONSTANT Level = 1
CONSTANT Depth = 0
CONSTANT RLen = 2
VIEW View
INVARIANT Emit
