SPECIFICATION Spec
CONSTANT Fams = {"core", "long", "wide", "delim", "bytes"}
CONSTANT Deep = 0
INVARIANT Laws
