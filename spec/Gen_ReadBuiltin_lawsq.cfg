SPECIFICATION Spec
CONSTANT Fams = {"core", "wide", "delim", "bytes"}
CONSTANT Deep = 0
INVARIANT Laws
