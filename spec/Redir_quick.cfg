SPECIFICATION Spec
CONSTANTS
  Cfg = "quick"
  Bug = "none"
  Sim = TRUE
INVARIANT TypeOK
INVARIANT InternalInv
INVARIANT Conforms
INVARIANT Emit
