\* C08 quick: pipelines of 3 and 4 commands and negated pipelines, at most 1 mutator (prelude incl. pipefail, monitor)
CONSTANTS
  MaxPre = 1
  MaxChild = 2
  MaxPost = 1
  MaxTotal = 1
  MinPre = 0
  MinTotal = 0
  Leaky = FALSE
  ForkBug = "none"
  Alphabet <- CoreCmds
  PreAlphabet <- CorePreCmds
  Kinds <- WideKinds
  Modes <- ScriptMode
  Fins <- NormalFin
  Ctxs <- MainCtx
INIT Init
NEXT Next
INVARIANTS NoForeignTrapAction EntryIsForkImage PendingCleared ParentTrapOnce ContextDuplicated TrapRule SharedDescriptions Final Emit
PROPERTIES Isolation CopyNotReference
