\* P1: sanity theorems about the oracle on every word of <= 2 units over the
\* whole alphabet in the rich trees.  A failure is a defect of the
\* specification (tool error).
INIT Init
NEXT Next
VIEW View
CONSTANTS
  MaxLen = 2
  FullLen = 2
  Core = {}
  Families = {"rich"}
  NRand = 0
  RandSize = 0
INVARIANT TreesOK
INVARIANT T_Exist
INVARIANT T_Complete
INVARIANT T_Sorted
INVARIANT T_Quoted
INVARIANT T_Period
INVARIANT T_Fallback
