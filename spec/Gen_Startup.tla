---------------------------- MODULE Gen_Startup ----------------------------
(***************************************************************************)
(* spec -> impl enumeration for G09, and the laws of Startup.tla.          *)
(* TLC's search is the enumerator: an initial state fixes the family and   *)
(* the coarse part of a scenario (head), Next completes it.  For every     *)
(* complete scenario the invariant Check evaluates the laws of Startup.tla *)
(* and prints one JSON line: the scenario, its rendering (argv, standard   *)
(* input, files) and what Startup!Expect allows.  harness/g09 runs it on   *)
(* the real shell (simulated OS; a sample on the real OS through the true  *)
(* entry point) and compares.                                              *)
(*                                                                         *)
(* Families (constant Fams selects, Deep enlarges):                        *)
(*   modes    argv[0] x every sequence of <= 2 option items (13 items,     *)
(*            incl. unknown ones) x "-" / "--" x operand shapes x tty-ness *)
(*   rc       initialisation files: <= 2 items of {-i +i -c -s -l --rcfile *)
(*            F --norcfile --profile --noprofile} x $ENV (8 values) x      *)
(*            real/effective ids x tty-ness x missing files                *)
(*   vars     every subset of {PS1 PS2 PS4 IFS PPID OPTIND} in the         *)
(*            environment x source x programs before the observation       *)
(*   portable `-o portable` and what may follow it; non-portable names     *)
(*   files    command_file lookup: 6 spellings x 8 file sets x trap        *)
(*   term     termination: 9 contexts x 8 EXIT traps x every program of    *)
(*            <= 2 (Deep: <= 3 over 12 kinds) commands over 19 kinds       *)
(***************************************************************************)
EXTENDS Startup, Json, IOUtils

CONSTANTS Fams, Deep

VARIABLES stage, fam, sc
vars == <<stage, fam, sc>>

RECURSIVE SeqsUpTo(_, _)
SeqsUpTo(S, n) == IF n = 0 THEN {<<>>} ELSE LET r == SeqsUpTo(S, n - 1) IN r \cup {Append(x, y) : x \in {z \in r : Len(z) = n - 1}, y \in S}

Sc(a0, opts, sep, ops, tin, terr, ids, env, files, prog, trap) ==
  [a0 |-> a0, opts |-> opts, sep |-> sep, ops |-> ops, tin |-> tin, terr |-> terr, ids |-> ids, env |-> env,
   files |-> files, prog |-> prog, trap |-> trap]
Base == Sc("yash", <<>>, "", <<>>, FALSE, FALSE, "same", <<>>, <<"rc1", "rc2", "rc3", "scr", "dscr", "pa", "prof">>, <<"obs">>, "")

Extras == {<<>>, <<"x">>, <<"x", "y z">>, <<"x", "y z", "w">>}
\* operand lists that make sense for the meaning of the options (the program
\* text must be where the shell looks for it), plus the erroneous "no operand"
OpsFor(s) ==
  IF Has(s.opts, "-c") THEN {<<>>} \cup {<<"@P">> \o e : e \in Extras}
     ELSE IF Has(s.opts, "-s") THEN Extras
     ELSE {<<>>} \cup {<<f>> \o e : f \in {"scr", "d/scr"}, e \in {<<>>, <<"x">>, <<"x", "y z">>}}

ModeItems == {"-c", "-s", "-i", "+i", "-m", "+m", "-e", "-l", "-a", "--posixlycorrect", "-Z", "--bogus", "norc"}
RcFamItems == {"-i", "+i", "-c", "-s", "-l", "rc1", "rc2", "rc3", "rcno", "norc", "prof", "noprof"}
EnvENV == {<<>>} \cup {<<<<"RCD", "/w/d">>, <<"ENV", v>>>> : v \in EnvValues}
VarNames == {"PS1", "PS2", "PS4", "IFS", "PPID", "OPTIND"}
VarValue(n) == CASE n = "PS1" -> "P1>" [] n = "PS2" -> "P2>" [] n = "PS4" -> "P4>" [] n = "IFS" -> ":" [] n = "PPID" -> "99999" [] n = "OPTIND" -> "7"
VarOrder == <<"PS1", "PS2", "PS4", "IFS", "PPID", "OPTIND">>
EnvOfSet(S) == LET names == SelectSeq(VarOrder, LAMBDA n : n \in S) IN [i \in 1..Len(names) |-> <<names[i], VarValue(names[i])>>]
\* how the main program reaches the shell: options + operands
Ctx(k) == CASE k = "c" -> [opts |-> <<"-c">>, ops |-> <<"@P", "name", "p1">>, tty |-> FALSE]
            [] k = "s" -> [opts |-> <<"-s">>, ops |-> <<"p1">>, tty |-> FALSE]
            [] k = "stdin" -> [opts |-> <<>>, ops |-> <<>>, tty |-> FALSE]
            [] k = "f" -> [opts |-> <<>>, ops |-> <<"d/scr", "p1">>, tty |-> FALSE]
            [] k = "ic" -> [opts |-> <<"-i", "-c">>, ops |-> <<"@P">>, tty |-> FALSE]
            [] k = "is" -> [opts |-> <<"-i">>, ops |-> <<>>, tty |-> FALSE]
            [] k = "tty" -> [opts |-> <<>>, ops |-> <<>>, tty |-> TRUE]          \* interactive by its descriptors
            [] k = "ec" -> [opts |-> <<"-e", "-c">>, ops |-> <<"@P">>, tty |-> FALSE]
            [] k = "es" -> [opts |-> <<"-e">>, ops |-> <<>>, tty |-> FALSE]
            [] k = "if" -> [opts |-> <<"-i">>, ops |-> <<"scr">>, tty |-> FALSE]
WithCtx(s, k) == [s EXCEPT !.opts = Ctx(k).opts, !.ops = Ctx(k).ops, !.tin = Ctx(k).tty, !.terr = Ctx(k).tty]

TermKinds == Kinds \ {"obs", "penv"}
\* errexit is C10's: here only as one more way to exit
ErrexitKinds == {"true", "false", "st7", "echo", "exit", "notfound", "sig", "kill"}
DeepKinds == {"true", "st7", "echo", "exit", "exit3", "synerr", "dot", "experr", "redir", "execfail", "sig", "kill"}
TermProgs(errexit) ==
  IF errexit THEN SeqsUpTo(ErrexitKinds, 2) \ {<<>>}
  ELSE (SeqsUpTo(TermKinds, 2) \cup (IF Deep = 1 THEN SeqsUpTo(DeepKinds, 3) ELSE {})) \cup {<<>>}

NoRc1 == SelectSeq(Base.files, LAMBDA x : x # "rc1")
\* ---- heads (initial states) and completions
Heads(f) ==
  CASE f = "modes" -> {[Base EXCEPT !.a0 = at[1], !.opts = o, !.tin = at[2], !.terr = at[3]] :
                          at \in (IF Deep = 1 THEN {<<a, t[1], t[2]>> : a \in {"yash", "-yash", "sh", "/x/sh", "/x/yash"},
                                                                    t \in {<<FALSE, FALSE>>, <<TRUE, TRUE>>, <<TRUE, FALSE>>, <<FALSE, TRUE>>}}
                                   ELSE {<<"yash", FALSE, FALSE>>, <<"yash", TRUE, TRUE>>, <<"yash", TRUE, FALSE>>, <<"yash", FALSE, TRUE>>,
                                         <<"-yash", TRUE, TRUE>>, <<"sh", FALSE, FALSE>>, <<"/x/sh", TRUE, TRUE>>, <<"/x/yash", FALSE, FALSE>>}),
                          o \in SeqsUpTo(ModeItems, 2)}
    [] f = "rc" -> {[Base EXCEPT !.opts = o, !.env = e] : o \in SeqsUpTo(RcFamItems, 2), e \in EnvENV}
    [] f = "vars" -> {[Base EXCEPT !.env = EnvOfSet(S)] : S \in SUBSET VarNames}
    [] f = "portable" -> {[Base EXCEPT !.opts = o, !.prog = <<"penv", "echo", "obs">>] :
                            o \in {<<>>, <<"portable">>, <<"portable", "-e">>, <<"rc1", "portable">>, <<"portable", "rc1">>,
                                   <<"portable", "-l">>, <<"-l", "portable">>, <<"portable", "--posixlycorrect">>,
                                   <<"portable", "norc">>, <<"portable", "prof">>, <<"portable", "noprof">>, <<"-i", "portable">>,
                                   <<"--posixlycorrect", "portable", "-a">>}}
    [] f = "files" -> {[Base EXCEPT !.files = SelectSeq(Base.files, LAMBDA x : x \notin S)] : S \in SUBSET {"scr", "dscr", "pa"}}
    [] f = "term" -> {[WithCtx(Base, k) EXCEPT !.trap = t] : k \in {"c", "stdin", "f", "ic", "is", "tty", "ec", "es", "if"}, t \in TrapKinds}
Completions(f, h) ==
  CASE f = "modes" -> {[h EXCEPT !.sep = s, !.ops = p] : s \in {"", "-", "--"}, p \in OpsFor(h)} \ 
                      (IF Deep = 1 THEN {} ELSE {[h EXCEPT !.sep = s, !.ops = p] : s \in {"-", "--"}, p \in {q \in OpsFor(h) : Len(q) > 2}})
    [] f = "rc" -> {[h EXCEPT !.ids = x[1], !.tin = x[2], !.terr = x[2], !.ops = p, !.files = x[3]] :
                      x \in (IF Deep = 1 THEN {<<i, t, fl>> : i \in {"same", "uid", "gid"}, t \in BOOLEAN, fl \in {Base.files, NoRc1}}
                             ELSE {<<"same", FALSE, Base.files>>, <<"same", TRUE, Base.files>>, <<"same", TRUE, NoRc1>>,
                                   <<"uid", TRUE, Base.files>>, <<"gid", FALSE, Base.files>>}),
                      p \in (IF Has(h.opts, "-c") THEN {<<>>, <<"@P", "name", "p1">>} ELSE IF Has(h.opts, "-s") THEN {<<"p1">>}
                             ELSE {<<>>, <<"scr", "p1">>})}
    [] f = "vars" -> {[WithCtx(h, k) EXCEPT !.trap = t, !.prog = p] :
                        k \in {"c", "stdin", "f", "is"}, t \in {"", "t"}, p \in {<<"obs">>, <<"true", "obs">>, <<"st7", "echo", "obs", "echo">>}}
    [] f = "portable" -> {[h EXCEPT !.env = e, !.ops = p, !.opts = h.opts \o q] :
                            e \in {<<>>, <<<<"a-b", "1">>>>, <<<<"a-b", "1">>, <<"ENV", "/w/rc1">>>>},
                            q \in {<<"-c">>, <<>>}, p \in {<<"@P">>, <<>>} }
    [] f = "files" -> {[h EXCEPT !.ops = <<o>> \o e, !.trap = t, !.opts = q, !.prog = p] :
                         o \in ScriptOps, e \in {<<>>, <<"x">>}, t \in {"", "t"}, q \in {<<>>, <<"-e">>, <<"-i">>},
                         p \in {<<"obs">>, <<"echo", "exit3">>}}
    [] f = "term" -> {[h EXCEPT !.prog = p] : p \in TermProgs(Has(h.opts, "-e"))}

Init == \E f \in Fams : \E h \in Heads(f) : stage = 0 /\ fam = f /\ sc = h
Next == /\ stage = 0
        /\ \E c \in Completions(fam, sc) : WellFormed(c) /\ stage' = 1 /\ fam' = fam /\ sc' = c
Spec == Init /\ [][Next]_vars

RECURSIVE AsSeq(_, _)
AsSeq(f, i) == IF i > Len(f) THEN <<>> ELSE <<f[i]>> \o AsSeq(f, i + 1)
AltJson(a) == [out |-> AsSeq(a.out, 1), lo |-> a.lo, hi |-> a.hi, sig |-> a.sig, err |-> a.err]
Out(s) ==
  LET e == Expect(s)
  IN [fam |-> fam, sc |-> [s EXCEPT !.env = AsSeq(s.env, 1), !.files = AsSeq(s.files, 1)],
      argv |-> AsSeq(Argv(s), 1), stdin |-> StdinText(s), script |-> ScriptText(s), files |-> AsSeq(FilesOf(s), 1),
      plan |-> PlanOf(s), class |-> e.class, alts |-> AsSeq([i \in 1..Len(e.alts) |-> AltJson(e.alts[i])], 1)]

Check == stage = 1 =>
           /\ Laws(sc) /\ TrapNeutral(sc) /\ InteractiveSurvives(sc) /\ KilledSilently(sc)
           /\ (Variant = "" => PrintT(ToJson(Out(sc))))
=============================================================================
