SPECIFICATION Spec
CONSTANTS
  Cfg = "neg"
  Bug = "leak"
  Sim = TRUE
INVARIANT TypeOK
INVARIANT Conforms
