SPECIFICATION TraceSpec
CONSTANTS
  Fuel = 400
  TickLimit = 2
POSTCONDITION Accepted
CHECK_DEADLOCK FALSE
