SPECIFICATION Spec
CONSTANTS
  Theme = "mode"
  MaxFd = 4
  MaxLen = 6
  MaxPipe = 2
  MaxH = 1
VIEW view
CONSTRAINT Bounded
INVARIANT TypeOK
INVARIANT NoDanglingOfd
INVARIANT TreeClosed
INVARIANT NoIgnoredPending
INVARIANT EmitState
