\* negative configuration: the wrong variant "fg_cont_first" must be refuted (law FgResumed)
SPECIFICATION Spec
CONSTANTS
  Variant = "fg_cont_first"
  Fams = {"fg", "async", "stop1", "tty", "nomon"}
  Cfgs = {"m", "mi", "-", "ml", "mib"}
  Enf = {TRUE}
ALIAS Brief
INVARIANT FgResumed
