---------------------------- MODULE Gen_WordSubst ----------------------------
(***************************************************************************)
(* spec -> impl enumeration and laws for G15.  TLC's breadth-first search  *)
(* enumerates words: sequences of indices into the unit alphabet U (family *)
(* "word"; every word holds at least one command substitution or           *)
(* arithmetic expansion) and raw backquote texts over the token alphabet   *)
(* RawTok (family "raw").  For every word the invariant Emit prints one    *)
(* JSON line                                                               *)
(*    {fam, w, t, th, o: [[ctx, state, outcome], ...], ns}                 *)
(* with the text of the word (t; th inside a here-document), the outcome   *)
(* WordSubst.tla prescribes in every context x shell state in which the    *)
(* case is inside the specified fragment, and the number ns of cases left  *)
(* open.  The empty word prints the tables.  The invariant Laws checks the *)
(* laws below on every enumerated word; the negative configurations        *)
(* (Variant # "spec") must each be refuted by one of them.                 *)
(***************************************************************************)
EXTENDS WordSubst, Json, IOUtils

CONSTANTS MaxLen,      \* longest word of family "word" (units)
          PairCoreSlice, \* pairs of a new unit and a Core unit (both orders): 1 all, k a 1/k sample (by SEED), 0 none
          PairNewSlice,  \* pairs of two new units: likewise
          Wide,          \* TRUE: every context x state also for words of two and more units
          TripleSlice, \* 0: no triples; k: a 1/k sample of the triples Core x New x Core / New x Core x New
          RawMax,      \* longest raw backquote text (tokens)
          DoEmit       \* print the cases (FALSE: laws only)

Seed == IF "SEED" \in DOMAIN IOEnv THEN (CHOOSE n \in 0..9999 : ToString(n) = IOEnv.SEED) ELSE 1

L(s) == WLit(s)
P(p) == WPar(p)
DQ(us) == WDq(us)
SQ(s) == WSq(s)
B(c) == WBs(c)
C(b) == WPar0(b)
PutA == Put(<<L("a")>>)
NL == "\n"

---------------------------------------------------------------------------
(* bodies of command substitutions *)
Bodies == <<
  <<PutA>>,                                                   \* 1
  <<Echo(<<L("a")>>)>>,
  <<Put(<<SQ("a" \o NL \o NL)>>)>>,
  <<Put(<<SQ("a" \o NL \o "b" \o NL)>>)>>,
  <<Put(<<SQ(NL \o "a")>>)>>,                                 \* 5
  <<Put(<<SQ(" a  b ")>>)>>,
  <<Put(<<SQ(":a::b:")>>)>>,
  <<Put(<<SQ("$x")>>)>>,
  <<Put(<<SQ("a\\ b")>>)>>,
  <<Put(<<SQ("\"a b\"")>>)>>,                                 \* 10
  <<Put(<<SQ("~")>>)>>,
  <<Put(<<SQ("*")>>)>>,
  <<Put(<<SQ("f?")>>)>>,
  <<Put(<<P("x")>>)>>,
  <<Put(<<DQ(P("x"))>>)>>,                                    \* 15
  <<Put(<<P("y"), L("b")>>)>>,
  <<Asg("x", L("b")), Put(<<P("x")>>)>>,
  <<St("3")>>,
  <<PutA, St("3")>>,
  <<Exit("3"), Put(<<L("b")>>)>>,                             \* 20
  <<PutA, Exit("4"), Put(<<L("b")>>)>>,
  <<Put(<<C(<<PutA>>)>>)>>,
  <<Put(<<DQ(C(<<Echo(<<L("a"), L("b")>>)>>)), L("c")>>)>>,
  <<Put(<<WAr(L("1+2"))>>)>>,
  <<Put(<<WAr(L("x+1"))>>)>>,                                 \* 25
  <<Sub(<<PutA>>)>>,
  <<Sub(<<PutA>>), Sub(<<Put(<<L("b")>>)>>)>>,
  <<Put(<<P("?")>>)>>,
  <<St("3"), Put(<<P("?")>>)>>,
  <<Put(<<WSw("x", FALSE, "?", <<>>)>>), Put(<<L("b")>>)>>,   \* 30
  <<Put(<<P("1"), DQ(P("@"))>>)>>,
  <<Echo(<<>>), Echo(<<>>)>>,
  <<Put(<<SQ("")>>)>>,
  <<Asg("IFS", L(":")), Put(<<P("x")>>)>>,
  <<Echo(<<L("a"), L("b")>>)>>,                               \* 35
  <<>>,
  <<Nul>>,
  <<Asg("y", C(<<St("4")>>))>>,
  <<Put(<<SQ("a\tb")>>)>>,
  <<PutA, Echo(<<>>), Put(<<SQ(" ")>>), Echo(<<>>)>>,         \* 40
  <<Put(<<WSw("x", FALSE, "=", L("c"))>>), Put(<<P("x")>>)>>,
  <<Put(<<WBq(<<Put(<<SQ("\\")>>)>>)>>)>>,
  <<Sub(<<Exit("5")>>), Put(<<P("?")>>)>>,
  <<Put(<<SQ("a:")>>)>>,
  <<Put(<<DQ(L("'"))>>), Put(<<DQ(B("\\") \o B("$"))>>)>>,      \* 45
  <<Put(<<L("probe")>>)>>,
  <<Put(<<SQ("probe a  b")>>)>> >>

NeedsBq(b) == LET t == BodyText(b) IN \E i \in DOMAIN t : t[i] \in BqSpecial(TRUE)
(* the bodies also written with backquotes: number 1 and those whose text   *)
(* holds a character that is special between backquotes (InvBqIdx checks    *)
(* the list).  The alphabet is written without recursive operators so that  *)
(* TLC evaluates it once.                                                   *)
BqIdx == <<1, 8, 9, 10, 14, 15, 16, 17, 22, 23, 24, 25, 28, 29, 30, 31, 34, 38, 41, 42, 43, 45>>
InvBqIdx == {BqIdx[i] : i \in DOMAIN BqIdx} = {i \in DOMAIN Bodies : i = 1 \/ NeedsBq(Bodies[i])}

(* arithmetic expressions (before expansion) *)
Exprs == <<
  L("1+2"), L(" 1 + 2 "), L("x"), P("x"), L("x*2"),                                 \* 1-5
  P("x") \o L("*2"), L("x=5"), L("x+=1"), L("y=x+1"), L("(1+2)*3"),                 \* 6-10
  L("((1+2))"), C(<<Put(<<L("1")>>)>>) \o L("+1"), WAr(L("1+1")) \o L("*2"),
  WSw("y", FALSE, "-", L("2")) \o L("*3"), WSw("x", FALSE, "=", L("7")) \o L("+x"), \* 11-15
  L("1/0"), L("1+"), <<>>, L("010+0x10"), L("2-5"),                                 \* 16-20
  L("10+1"), L("1?2:3"), L("1<2"), L("1&&0"), L("!0"),                              \* 21-25
  L("~0"), B("$") \o L("x"), L("x") \o WBq(<<Put(<<L("+1")>>)>>), L("1 2"), L("x="),\* 26-30
  L("1,2"), L("9223372036854775807+1"), L("y"), L("x<<2"), L("(x)"),                \* 31-35
  L("1 +" \o NL \o " 2"), WLen("x") \o L("+1"), L("1>2"), L("3|4"), L("x++"),       \* 36-40
  L("0||(x=3)"), L("1||(x=3)"), P("x") \o P("y"), L("-x"), L("x%y"),                \* 41-45
  L("08"), L("1+(2"), L("x==5?y:7") >>

---------------------------------------------------------------------------
(* the unit alphabet: Core (partners: C01 units, one arithmetic expansion   *)
(* and one substitution that only sets a status), then the new units        *)
Core == L("a") \o L(":") \o WSp \o B(" ") \o P("x") \o DQ(P("x")) \o SQ("") \o L("*") \o DQ(L(" ")) \o P("?")
        \o WSw("x", FALSE, "=", L("c")) \o WAr(L("1")) \o C(<<St("2")>>)
NCore == Len(Core)

RECURSIVE SeqOfSet(_)
SeqOfSet(S) == IF S = {} THEN <<>> ELSE LET e == CHOOSE e \in S : TRUE IN <<e>> \o SeqOfSet(S \ {e})

(* <<F(a, b) : a in A, b in B>> *)
Cat2(F(_, _), A, BB) ==
  [k \in 1..(Len(A) * Len(BB)) |-> F(A[((k - 1) \div Len(BB)) + 1], BB[((k - 1) % Len(BB)) + 1])]
Map(F(_), A) == [k \in DOMAIN A |-> F(A[k])]

CsPar == [i \in DOMAIN Bodies |-> WCs("par", FALSE, "min", Bodies[i])[1]]
CsTight == <<WCs("par", TRUE, "min", Bodies[26])[1], WCs("par", TRUE, "min", Bodies[27])[1]>>
CsBq == Cat2(LAMBDA e, i : WCs("bq", FALSE, e, Bodies[i])[1], <<"min", "max">>, BqIdx)
Ars == [i \in DOMAIN Exprs |-> WAr(Exprs[i])[1]]
Plain1 == CsPar \o CsTight \o CsBq \o Ars
Quoted == LET P1 == Plain1 IN [i \in DOMAIN P1 |-> DQ(<<P1[i]>>)[1]]
(* inside the words of parameter expansions and next to text in double quotes *)
Nested ==
     Cat2(LAMBDA c, i : WSw("y", c, "-", <<CsPar[i]>>)[1], <<FALSE, TRUE>>, <<1, 6, 14, 18>>)
  \o Map(LAMBDA i : DQ(WSw("y", FALSE, "-", <<CsPar[i]>>))[1], <<6, 10>>)
  \o Cat2(LAMBDA a, i : WSw("x", FALSE, a, <<CsPar[i]>>)[1], <<"=", "+", "?">>, <<6, 18>>)
  \o Map(LAMBDA i : WSw("x", TRUE, "=", <<Ars[i]>>)[1], <<1, 7>>)
  \o Cat2(LAMBDA s, i : WTrim("x", s, FALSE, <<CsPar[i]>>)[1], <<"#", "%">>, <<1, 12>>)
  \o Cat2(LAMBDA s, i : WTrim("x", s, TRUE, <<CsPar[i]>>)[1], <<"#", "%">>, <<1, 12>>)
  \o Map(LAMBDA i : WTrim("x", "#", FALSE, <<Ars[i]>>)[1], <<1, 21>>)
  \o DQ(WTrim("x", "%", TRUE, DQ(<<CsPar[12]>>)))
  \o Map(LAMBDA i : DQ(L("a") \o <<CsPar[i]>> \o L("b"))[1], <<1, 6, 33>>)
  \o Map(LAMBDA u : DQ(<<u>> \o B("\""))[1], CsBq)
  \* no substitution at all: "or zero if there was none" (2.9.1)
  \o WSw("x", FALSE, "+", L("a"))
New == Plain1 \o Quoted \o Nested
U == Core \o New
NU == Len(U)
IsNewIdx(k) == k > NCore

---------------------------------------------------------------------------
(* raw backquote texts: ` put 'R' ` *)
RawTok == <<"\\\\", "\\$", "\\`", "\\\"", "\\a", "\\", "$", "\"", "a", " ">>
NRaw == Len(RawTok)

---------------------------------------------------------------------------
CtxSeq == <<"arg", "for", "assign", "asgseq", "export", "noname", "case", "pat", "redir", "here", "asgcs", "cmdname", "hereq">>
StateTable == <<
  [x |-> Unset,        y |-> Unset,     pos |-> <<>>,           ifs |-> Val(" \t\n"), nounset |-> FALSE, st |-> "0"],
  [x |-> Val("a b"),   y |-> Val("2"),  pos |-> <<"p q">>,      ifs |-> Unset,        nounset |-> FALSE, st |-> "3"],
  [x |-> Val("5"),     y |-> Val("-3"), pos |-> <<>>,           ifs |-> Val(":"),     nounset |-> FALSE, st |-> "0"],
  [x |-> Val("12"),    y |-> Val("010"),pos |-> <<"1", "">>,    ifs |-> Val("1-"),    nounset |-> FALSE, st |-> "0"],
  [x |-> Val("*"),     y |-> Val(" "),  pos |-> <<>>,           ifs |-> Val(""),      nounset |-> FALSE, st |-> "0"],
  [x |-> Unset,        y |-> Val("7"),  pos |-> <<>>,           ifs |-> Val(" \t\n"), nounset |-> TRUE,  st |-> "0"],
  [x |-> Val("a:b"),   y |-> Val("0"),  pos |-> <<"a:", "b">>,  ifs |-> Val(" :"),    nounset |-> FALSE, st |-> "1"],
  [x |-> Val("1+2"),   y |-> Val(""),   pos |-> <<>>,           ifs |-> Val("+"),     nounset |-> FALSE, st |-> "0"],
  [x |-> Unset,        y |-> Val(""),   pos |-> <<>>,           ifs |-> Val(" \t\n"), nounset |-> FALSE, st |-> "4"] >>

---------------------------------------------------------------------------
VARIABLES vfam, vws
vars == <<vfam, vws>>

RECURSIVE Hash(_, _)
Hash(q, i) == IF i > Len(q) THEN 7 ELSE (q[i] * 31 + Hash(q, i + 1) * 17) % 10007

HasNew(q) == \E i \in DOMAIN q : IsNewIdx(q[i])
SelectedWord(q) ==
  CASE Len(q) <= 1 -> TRUE
    [] Len(q) = 2 -> /\ HasNew(q)
                     /\ LET k == IF IsNewIdx(q[1]) /\ IsNewIdx(q[2]) THEN PairNewSlice ELSE PairCoreSlice
                        IN k > 0 /\ (Hash(q, 1) + Seed) % k = 0
    [] OTHER -> /\ TripleSlice > 0
                /\ (IsNewIdx(q[1]) # IsNewIdx(q[2])) /\ (IsNewIdx(q[2]) # IsNewIdx(q[3]))
                /\ (Hash(q, 1) + Seed) % TripleSlice = 0

Init == vfam \in {"word", "raw"} /\ vws = <<>>
Next ==
  /\ UNCHANGED vfam
  /\ \/ /\ vfam = "word" /\ Len(vws) < MaxLen
        /\ \E k \in 1..NU :
             /\ vws' = Append(vws, k)
             /\ (Len(vws') = 2) => HasNew(vws')
             /\ (Len(vws') = 2 /\ MaxLen = 2) => SelectedWord(vws')
             /\ (Len(vws') = 3) => SelectedWord(vws')
     \/ /\ vfam = "raw" /\ Len(vws) < RawMax
        /\ \E k \in 1..NRaw : vws' = Append(vws, k)
Spec == Init /\ [][Next]_vars

Selected == IF vfam = "raw" THEN vws # <<>> ELSE (vws # <<>> /\ HasNew(vws) /\ SelectedWord(vws))

RawUnit == WBqRaw([i \in DOMAIN vws |-> RawTok[vws[i]]])
Word == IF vfam = "raw" THEN RawUnit ELSE [i \in DOMAIN vws |-> U[vws[i]]]
(* the raw family also inside double quotes *)
Words == IF vfam = "raw" THEN <<RawUnit, DQ(RawUnit)>> ELSE <<Word>>

(* words of two and more units: a reduced fan unless Wide *)
CtxFor(w) == IF vfam = "raw" THEN {1, 3, 10}
             ELSE IF Len(vws) = 1 \/ Wide THEN DOMAIN CtxSeq ELSE {1, 3, 6, 7, 10, 11, 12}
StatesFor(w) == IF vfam = "raw" THEN {1}
                ELSE IF Len(vws) = 1 \/ Wide THEN DOMAIN StateTable
                ELSE {s \in DOMAIN StateTable : (Hash(vws, 1) + s * 4 + Seed) % 9 < 3}

Cases(w) ==
  { <<c, s, Outcome(CtxSeq[c], w, StateTable[s])>> : c \in CtxFor(w), s \in StatesFor(w) }

Line(w) ==
  LET R == Cases(w)
      K == { r \in R : r[3].k # "skip" }
  IN [fam |-> vfam, w |-> w, t |-> Text("arg", w), th |-> Text("here", w),
      o |-> SeqOfSet(K), ns |-> Cardinality(R) - Cardinality(K)]

Emit ==
  DoEmit =>
    IF vws = <<>>
    THEN (vfam = "word" => PrintT(ToJson([hdr |-> TRUE, ctx |-> CtxSeq, states |-> StateTable, files |-> Files])))
    ELSE Selected => \A i \in DOMAIN Words : PrintT(ToJson(Line(Words[i])))

---------------------------------------------------------------------------
(* Laws, checked on every enumerated single unit (and on the whole word    *)
(* where stated).  Each wrong variant of WordSubst.tla is refuted by the   *)
(* law named after it in lib/checks/g15.py.                                *)
States == {WithCs(StateTable[s], "") : s \in DOMAIN StateTable}
Fields(w, st) == Outcome("arg", w, st)
OkF(o) == o.k = "ok"

(* 2.6.5 / 2.2.3: a substitution in double quotes yields exactly one field *)
LawQuotedOneField(u) ==
  u.t \in {"cs", "ar"} => \A st \in States : LET o == Fields(DQ(<<u>>), st) IN OkF(o) => Len(o.f) = 1

(* 2.6.3: trailing newlines, all of them and nothing else, are removed *)
LawTrailingNewlines(u) ==
  (u.t = "cs" /\ u.f = "par" /\ ~u.tight) =>
    \A st \in States :
      LET o == Fields(DQ(<<u>>), st)
          o1 == Fields(DQ(<<[u EXCEPT !.b = u.b \o <<Echo(<<>>), Echo(<<>>)>>]>>), st)
          o2 == Fields(DQ(<<[u EXCEPT !.b = u.b \o <<Put(<<SQ(" ")>>), Echo(<<>>)>>]>>), st)
          done == RunBody(u.b, st).done            \* left by `exit` or an expansion error
      IN (OkF(o) /\ OkF(o1) /\ OkF(o2) /\ ~done /\ u.b # <<>>) =>
           /\ o1.f = o.f
           /\ LET f == o2.f[1] IN Len(f) >= 1 /\ SubSeq(f, Len(f), Len(f)) = " "

(* 2.13: nothing done in the substitution changes the shell's variables *)
LawContained(u) ==
  u.t = "cs" => \A st \in States : LET o == Fields(<<u>>, st) IN OkF(o) => (o.x = st.x /\ o.y = st.y /\ o.ifs = st.ifs)

(* 2.6.3 / 2.2.3: both ways of escaping a backquoted command denote the    *)
(* command of the $( ) form, inside and outside double quotes              *)
LawBackquote(u) ==
  (u.t = "cs" /\ u.f = "par") =>
    LET t == BodyText(u.b) IN
    \A e \in {"min", "max"}, d \in BOOLEAN :
      /\ BqUnescape(BqEsc(t, e, d), d) = t
      /\ \A i \in 1..(Len(BqEsc(t, e, d)) - 1) :
            BqEsc(t, e, d)[i + 1] = "`" => BqEsc(t, e, d)[i] = "\\"      \* no bare backquote

(* 2.9.1: without a command name the status is that of the last substitution *)
LawLastStatus(u) ==
  (u.t = "cs" /\ u.f = "par" /\ ~u.tight) =>
    \A st \in States :
      LET a == Outcome("noname", <<u>>, st)
          b == Outcome("noname", <<u>> \o C(<<St("0")>>), st)
          c == Outcome("noname", C(<<St("7")>>) \o <<u>>, st)
      IN /\ OkF(b) => b.q = "0"
         /\ (OkF(a) /\ OkF(c)) => c.q = a.q
         /\ OkF(Outcome("noname", C(<<St("7")>>), st)) /\ Outcome("noname", C(<<St("7")>>), st).q = "7"

(* 2.6.4: changes to variables are in effect after the expansion; the      *)
(* result is the decimal value, split like any other expansion             *)
LawArith(u) ==
  u.t = "ar" =>
    \A st \in States :
      LET o == Fields(<<u>>, st)
          q == Fields(DQ(<<u>>), st)
          p == Fields(<<u>> \o L(",") \o DQ(P("x")), st)
      IN /\ (OkF(o) /\ OkF(q)) =>
              /\ o.x = q.x /\ o.y = q.y
              /\ Len(q.f) = 1 /\ \A i \in 1..Len(q.f[1]) : SubSeq(q.f[1], i, i) \in Digits \cup {"-"}
              /\ (\A i \in 1..Len(q.f[1]) : ~InSeq(SubSeq(q.f[1], i, i), IfsChars(IfsC(o)))) => o.f = q.f
         \* a following $x sees the assignment
         /\ (OkF(o) /\ OkF(p) /\ o.x.set /\ ~InSeq(",", IfsChars(IfsC(o)))) =>
              LET l == p.f[Len(p.f)] IN
              Len(l) >= Len(o.x.v) /\ (o.x.v = "" \/ \E k \in 1..Len(l) : SubSeq(l, k, Len(l)) = o.x.v)

(* pinned instances (they also hold for every word, trivially) *)
LawPinned ==
  LET S1 == WithCs(StateTable[1], "")
      S4 == WithCs(StateTable[4], "")
  IN /\ Fields(WAr(L("x=5")) \o C(<<Put(<<P("x")>>)>>), S1).f = <<"55">>
     /\ Fields(WAr(L("x=5")), S1).x = Val("5")
     /\ Fields(WAr(L("10+1")), S4).f = <<"", "">>               \* IFS = "1-"
     /\ Fields(DQ(WAr(L("10+1"))), S4).f = <<"11">>
     /\ Fields(DQ(C(<<Put(<<SQ("a b")>>)>>)), S1).f = <<"a b">>
     /\ Fields(C(<<Put(<<SQ("a b")>>)>>), S1).f = <<"a", "b">>
     /\ Fields(WBqRaw(<<"\\a">>), S1).f = <<"\\a">>
     /\ Fields(DQ(WBqRaw(<<"\\\"">>)), S1).f = <<"\"">>
     /\ Fields(WBqRaw(<<"\\\"">>), S1).f = <<"\\\"">>
     /\ Outcome("noname", C(<<St("3")>>) \o C(<<St("0")>>), S1).q = "0"
     /\ Outcome("noname", C(<<St("0")>>) \o C(<<St("3")>>), S1).q = "3"
     /\ Fields(C(<<Asg("x", L("b")), PutA>>), S1).x = Unset

(* 2.6.4: "$((x))" and "$(($x))" return the same value when x holds an integer constant *)
LawSameValue ==
  \A v \in {"7", "-3", "+4", "010", "0x1f", "0"} :
    LET st == [WithCs(StateTable[1], "") EXCEPT !.x = Val(v)]
    IN Fields(WAr(L("x")), st).f = Fields(WAr(P("x")), st).f /\ OkF(Fields(WAr(L("x")), st))

(* conservative extension: on words without the new units the fields are those of Expand.tla *)
LawConservative ==
  \A i \in 1..NCore, j \in 1..NCore : \A st \in States :
    LET w == <<U[i], U[j]>> IN
    (U[i].t # "sp" /\ U[j].t # "sp" /\ Pure(<<U[i], U[j]>>) /\ U[i] # L("*")[1] /\ U[j] # L("*")[1] /\ st.x # Val("*")
       /\ ~(U[i].t = "par" /\ U[i].m = "sw" /\ U[j] = U[i])) =>
      LET a == Fields(w, st)
          b == ExpandWith(w, st, FALSE)
      IN OkF(a) => (b.k = "ok" /\ a.f = b.f /\ a.x = b.x /\ a.y = b.y)

OneNew == vfam = "word" /\ Len(vws) = 1 /\ IsNewIdx(vws[1])
AtRoot == vws = <<>> /\ vfam = "word"
InvQuoted == OneNew => LawQuotedOneField(U[vws[1]])
InvNewlines == OneNew => LawTrailingNewlines(U[vws[1]])
InvContained == OneNew => LawContained(U[vws[1]])
InvBackquote == OneNew => LawBackquote(U[vws[1]])
InvStatus == OneNew => LawLastStatus(U[vws[1]])
InvArith == OneNew => LawArith(U[vws[1]])
InvPinned == AtRoot => LawPinned
InvSameValue == AtRoot => LawSameValue
InvConservative == AtRoot => LawConservative
=============================================================================
