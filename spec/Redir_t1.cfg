SPECIFICATION Spec
CONSTANTS
  Cfg = "t1"
  Bug = "none"
  Sim = TRUE
INVARIANT TypeOK
INVARIANT InternalInv
INVARIANT Conforms
INVARIANT Emit
