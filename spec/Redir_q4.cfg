SPECIFICATION Spec
CONSTANTS
  Cfg = "q4"
  Bug = "none"
  Sim = TRUE
INVARIANT TypeOK
INVARIANT InternalInv
INVARIANT Conforms
INVARIANT Emit
