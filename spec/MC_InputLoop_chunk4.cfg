SPECIFICATION SpecC
CONSTANTS
  MaxLen = 0
  Kinds = {}
  PadKinds = {}
  Feeds = {"fd"}
  MaxLenC = 4
  KindsC = {"P", "RD", "AL", "GO", "GC", "HD", "HE", "LC", "SE"}
  ChunkSizes = {0, 1, 2, 3, 5, 7}
INVARIANT TypeOK
INVARIANT OffAtExec
INVARIANT ChunkIndependent
INVARIANT NoStall
