SPECIFICATION SpecC
CONSTANTS
  MaxLen = 0
  Kinds = {}
  PadKinds = {}
  Feeds = {"fd"}
  MaxLenC = 4
  KindsC = {"P", "RD", "AL", "GO", "GC", "HD", "HE", "SE"}
  ChunkSizes = {1, 2, 3, 5}
INVARIANT TypeOK
INVARIANT OffAtExec
INVARIANT StdinBlocking
INVARIANT ChunkIndependent
CHECK_DEADLOCK TRUE
