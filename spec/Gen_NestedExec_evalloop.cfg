SPECIFICATION Spec
CONSTANTS
  Fuel = 24
  TickLimit = 2
  K = 4
  Alphabet <- AlphaEvalLoop
  Opts <- OptsFlow
INVARIANT Emit
CHECK_DEADLOCK FALSE
