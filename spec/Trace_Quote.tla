---------------------------- MODULE Trace_Quote ----------------------------
(***************************************************************************)
(* C07 (i), P4 validation (impl -> spec).  Every record                    *)
(*   {s, q, pn, fa, fe, fv, fd, fr}                                        *)
(* was produced by the real code: q = yash_quote::quote(s) (pn = it        *)
(* panicked), and f* = what the REAL shell read when q was written         *)
(*   fa  as an argument (`probe q`, script read line by line from stdin)   *)
(*   fe  as an argument inside `eval "probe $x"` (x holds q)               *)
(*   fv  as the value of an assignment (`v=q`)                             *)
(*   fd  as the value in a declaration utility argument (`typeset w=q`)    *)
(*   fr  as the only element of an array assignment (`r=(q)`)              *)
(* each as {ok, f}: ok = the observation point was reached exactly once,   *)
(* f = the fields received.                                                *)
(*                                                                         *)
(* Verdict, both halves against the same model:                            *)
(*  - the real quoter is good under the SPEC's reader: GoodQuote(s, q);    *)
(*  - the REAL reader returns exactly <<s>> for q in every context, and    *)
(*    wherever the spec's reader gives a definite reading the real reader  *)
(*    agrees with it.                                                      *)
(* A bad record is reported (one JSON line) and validation goes on.        *)
(***************************************************************************)
EXTENDS Quote, Json, IOUtils, TLC

Rec == ndJsonDeserialize(IOEnv.TRACE)

VARIABLE l
vars == <<l>>

RealOK(o, s) == o.ok /\ o.f = <<s>>
Agrees(rd, o) == rd.ok => (o.ok /\ o.f = rd.f)
Good(rd, s) == rd.ok /\ rd.f = <<s>>

Why(r) ==
  IF r.pn THEN "panic"
  ELSE LET L == Lex(r.q)
           ra == ReadWords(L, FALSE)        \* Read("arg", q)
           rd == ReadWords(L, TRUE)         \* Read("decl", q)
           rv == ReadValue(LexGlued(r.q))   \* Read("value", q)
       IN
  IF ~Good(ra, r.s) THEN "spec-reader:arg:" \o ra.why
  ELSE IF ~Good(rd, r.s) THEN "spec-reader:decl:" \o rd.why
  ELSE IF ~Good(rv, r.s) THEN "spec-reader:value:" \o rv.why
  ELSE IF ~RealOK(r.fa, r.s) THEN "real-reader:stdin-arg"
  ELSE IF ~RealOK(r.fe, r.s) THEN "real-reader:eval-arg"
  ELSE IF ~RealOK(r.fv, r.s) THEN "real-reader:assignment-value"
  ELSE IF ~RealOK(r.fd, r.s) THEN "real-reader:declaration-value"
  ELSE IF ~RealOK(r.fr, r.s) THEN "real-reader:array-element"
  ELSE IF ~(Agrees(ra, r.fa) /\ Agrees(ra, r.fe) /\ Agrees(rv, r.fv) /\ Agrees(rv, r.fd) /\ Agrees(ra, r.fr))
       THEN "readers-disagree"
  ELSE ""

TraceInit == l = 1

TraceNext ==
  /\ l <= Len(Rec)
  /\ LET r == Rec[l] y == Why(r) IN
     /\ IF y = "" THEN TRUE ELSE PrintT(ToJson([bad |-> l, why |-> y]))
     /\ IF r.pn \/ r.q = QuoteRule(r.s) THEN TRUE ELSE PrintT(ToJson([drift |-> l]))
  /\ l' = l + 1

TraceSpec == TraceInit /\ [][TraceNext]_vars

(* every record was judged *)
Accepted ==
  LET d == TLCGet("stats").diameter
  IN IF d - 1 = Len(Rec) THEN PrintT(ToJson([done |-> Len(Rec)]))
     ELSE Print(<<"REJECT", d>>, FALSE)
=============================================================================
