------------------------------- MODULE Pipe -------------------------------
(***************************************************************************)
(* Property C14: bytes written to a pipeline or produced inside a command  *)
(* substitution reach the reader completely, exactly once and in order,    *)
(* for every payload size and every interleaving of writer and reader;     *)
(* command substitution then removes exactly the trailing newlines.        *)
(*                                                                         *)
(* The specification has three parts.                                      *)
(*                                                                         *)
(*  1. DATA (module PipeData): byte strings, Strip (POSIX XCU 2.6.3:       *)
(*     "removing sequences of one or more <newline> characters at the end  *)
(*     of the substitution"), the meaning of the scenario scripts, and a   *)
(*     compact form [off, n, tail] for "n bytes of the probe's counter     *)
(*     stream followed by a literal tail" with the same operators, so that *)
(*     payloads of thousands of bytes are judged in time linear in the     *)
(*     tail.                                                               *)
(*  2. KERNEL RULES of one pipe (module PipeData; POSIX XSH write(),       *)
(*     read(), pipe(); XBD <limits.h> PIPE_BUF) as pure functions of the   *)
(*     occupancy and of the number of open ends: how many bytes one        *)
(*     write/read request transfers, when it would block, when select      *)
(*     reports readiness.  They are shared by the process model below and  *)
(*     by Trace_Pipe, which judges the real code with the real constants.  *)
(*  3. PROCESSES (this module): a pipeline of NProc processes connected by *)
(*     NProc-1 pipes, each process running the loops of yash-env's         *)
(*     Concurrent (write_all / read_all / read over NON-BLOCKING           *)
(*     descriptors: EAGAIN -> register a waker -> select -> retry) at      *)
(*     system-call granularity (finer than the simulator's scheduling,     *)
(*     i.e. a superset of its interleavings, and the granularity of a real *)
(*     kernel).  TLC checks: capacity, order, conservation (exactly once), *)
(*     completeness, no lost wake-up, no deadlock (deadlock checking on),  *)
(*     termination under fairness.  FAULT selects a seeded model fault for *)
(*     the NEGATIVE configurations, in which TLC must find the failure:    *)
(*       "dropwake"  a read does not wake the writers waiting for room     *)
(*                   -> deadlock;                                          *)
(*       "noadvance" write_all does not advance after a partial write      *)
(*                   -> Conservation / Order violated;                     *)
(*       "shortread" read_all stops at a short read -> Completeness        *)
(*                   violated;                                             *)
(*       "anyroom"   select reports writable with any room (no safety      *)
(*                   violation at this granularity: the writer spins; the  *)
(*                   static lemma RulesLemma of MC_Pipe states the         *)
(*                   soundness of readiness instead).                      *)
(***************************************************************************)
EXTENDS PipeData

-----------------------------------------------------------------------------
(* 3. PROCESSES                                                            *)

CONSTANTS NProc,     \* number of pipeline stages (processes), >= 2
          MaxN,      \* payload sizes 0..MaxN
          Chunks,    \* read request sizes a reading process may use
          Filters,   \* subset of {"all", "stream"}: how a middle stage copies
          Takes,     \* subset of {TRUE, FALSE}: TRUE = the consumer may stop after its first successful read
          FAULT      \* "" or the name of a seeded model fault (negative configurations)

Proc  == 1 .. NProc
Pipes == 1 .. (NProc - 1)          \* pipe p connects process p to process p+1

VARIABLES
  N,       \* payload size of this behaviour
  chunk,   \* [Proc -> request size of its reads]
  filt,    \* [Proc -> "all" | "stream"] for the middle stages
  take,    \* BOOLEAN: the consumer exits after its first successful read (`read`, `head`)
  buf,     \* [Pipes -> Seq(1..MaxN)]  content, oldest first
  nr, nw,  \* [Pipes -> 0..1] open read / write ends
  regR,    \* [Pipes -> SUBSET Proc] processes whose select registered a waker for readability
  regW,    \* [Pipes -> SUBSET Proc]   ... for writability
  pc,      \* [Proc -> control state]
  out,     \* [Proc -> Seq] rest of the data of the write_all in progress
  inb,     \* [Proc -> Seq] bytes collected by the read loop in progress
  err      \* [Proc -> BOOLEAN] a write failed with EPIPE

vars == <<N, chunk, filt, take, buf, nr, nw, regR, regW, pc, out, inb, err>>

\* control states:  W  next system call is a non-blocking write
\*                  WS write gave EAGAIN; the process is in select, about to evaluate readiness
\*                  WB select found the pipe not writable, registered a waker and blocks
\*                  R / RS / RB   the same for reading
\*                  X  about to exit (all descriptors are closed)     D  exited
Sent == [i \in 1 .. N |-> i]

First(s, k) == SubSeq(s, 1, k)
Rest(s, k)  == SubSeq(s, k + 1, Len(s))

Init ==
  /\ N \in 0 .. MaxN
  /\ chunk \in [Proc -> Chunks]
  /\ chunk[1] = (CHOOSE c \in Chunks : TRUE)            \* process 1 never reads
  /\ filt \in [Proc -> Filters]
  /\ \A i \in {1, NProc} : filt[i] = (CHOOSE f \in Filters : TRUE)   \* only middle stages filter
  /\ take \in Takes
  /\ buf = [p \in Pipes |-> <<>>]
  /\ nr = [p \in Pipes |-> 1]
  /\ nw = [p \in Pipes |-> 1]
  /\ regR = [p \in Pipes |-> {}]
  /\ regW = [p \in Pipes |-> {}]
  /\ out = [i \in Proc |-> IF i = 1 THEN Sent ELSE <<>>]
  /\ inb = [i \in Proc |-> <<>>]
  /\ err = [i \in Proc |-> FALSE]
  \* write_all with no data returns without a system call
  /\ pc = [i \in Proc |-> IF i = 1 THEN (IF N = 0 THEN "X" ELSE "W") ELSE "R"]

Unblock(s) == IF s = "RB" THEN "RS" ELSE IF s = "WB" THEN "WS" ELSE s

\* pc after process i moved to state s and the processes in woken were woken
PcAfter(i, s, woken) ==
  [j \in Proc |-> IF j = i THEN s ELSE IF j \in woken THEN Unblock(pc[j]) ELSE pc[j]]

\* what a process does when its write_all has finished
AfterWrite(i) == IF i = 1 THEN "X" ELSE IF filt[i] = "stream" THEN "R" ELSE "X"

\* ---- write_all: one non-blocking write request for everything that is left
Write(i) ==
  /\ pc[i] = "W"
  /\ LET p == i
         x == WriteXfer(Len(buf[p]), nr[p], Len(out[i]))
     IN IF x = XEPIPE THEN
             /\ err' = [err EXCEPT ![i] = TRUE]
             /\ pc' = PcAfter(i, "X", {})
             /\ UNCHANGED <<buf, regR, out>>
        ELSE IF x = XBLOCK THEN
             /\ pc' = PcAfter(i, "WS", {})
             /\ UNCHANGED <<buf, regR, out, err>>
        ELSE /\ buf' = [buf EXCEPT ![p] = @ \o First(out[i], x)]
             /\ out' = [out EXCEPT ![i] =
                          IF FAULT = "noadvance" /\ x < Len(@) THEN @ ELSE Rest(@, x)]
             \* every process waiting for readability is woken
             /\ regR' = [regR EXCEPT ![p] = {}]
             /\ pc' = PcAfter(i, IF out'[i] = <<>> THEN AfterWrite(i) ELSE "W", regR[p])
             /\ UNCHANGED err
  /\ UNCHANGED <<N, chunk, filt, take, nr, nw, regW, inb>>

\* ---- select for writability (Concurrent::select -> VirtualSystem::select)
SelectW(i) ==
  /\ pc[i] = "WS"
  /\ LET p == i
         ready == IF FAULT = "anyroom" THEN nr[p] = 0 \/ Room(Len(buf[p])) > 0
                  ELSE ReadyW(Len(buf[p]), nr[p])
     IN IF ready THEN /\ pc' = PcAfter(i, "W", {})
                      /\ UNCHANGED regW
        ELSE /\ pc' = PcAfter(i, "WB", {})
             /\ regW' = [regW EXCEPT ![p] = @ \cup {i}]
  /\ UNCHANGED <<N, chunk, filt, take, buf, nr, nw, regR, out, inb, err>>

\* what a reader does with k > 0 bytes it has read
\*   consumer and "all" filter: append to inb and read again (read_all)
\*   "stream" filter: write them out (write_all), then read again
Read(i) ==
  /\ pc[i] = "R"
  /\ LET q == i - 1
         x == ReadXfer(Len(buf[q]), nw[q], chunk[i])
     IN IF x = XBLOCK THEN
             /\ pc' = PcAfter(i, "RS", {})
             /\ UNCHANGED <<buf, regW, out, inb>>
        ELSE IF x = 0 THEN            \* end of file
             /\ IF i < NProc /\ filt[i] = "all" /\ inb[i] # <<>>
                THEN /\ out' = [out EXCEPT ![i] = inb[i]]
                     /\ inb' = [inb EXCEPT ![i] = <<>>]
                     /\ pc' = PcAfter(i, "W", {})
                ELSE /\ pc' = PcAfter(i, "X", {})
                     /\ UNCHANGED <<out, inb>>
             /\ UNCHANGED <<buf, regW>>
        ELSE LET woken == IF FAULT = "dropwake" THEN {} ELSE regW[q]
                 got == First(buf[q], x)
                 stop == \/ i = NProc /\ take
                         \/ FAULT = "shortread" /\ x < chunk[i]
             IN /\ buf' = [buf EXCEPT ![q] = Rest(@, x)]
                /\ regW' = [regW EXCEPT ![q] = @ \ woken]
                /\ IF i < NProc /\ filt[i] = "stream"
                   THEN /\ out' = [out EXCEPT ![i] = got]
                        /\ UNCHANGED inb
                        /\ pc' = PcAfter(i, "W", woken)
                   ELSE IF stop /\ i < NProc /\ filt[i] = "all"
                   THEN /\ out' = [out EXCEPT ![i] = inb[i] \o got]
                        /\ inb' = [inb EXCEPT ![i] = <<>>]
                        /\ pc' = PcAfter(i, "W", woken)
                   ELSE /\ inb' = [inb EXCEPT ![i] = @ \o got]
                        /\ UNCHANGED out
                        /\ pc' = PcAfter(i, IF stop THEN "X" ELSE "R", woken)
  /\ UNCHANGED <<N, chunk, filt, take, nr, nw, regR, err>>

SelectR(i) ==
  /\ pc[i] = "RS"
  /\ LET q == i - 1
     IN IF ReadyR(Len(buf[q]), nw[q])
        THEN /\ pc' = PcAfter(i, "R", {})
             /\ UNCHANGED regR
        ELSE /\ pc' = PcAfter(i, "RB", {})
             /\ regR' = [regR EXCEPT ![q] = @ \cup {i}]
  /\ UNCHANGED <<N, chunk, filt, take, buf, nr, nw, regW, out, inb, err>>

\* ---- exit: the read end of the input pipe and the write end of the output
\* pipe are closed; when a pipe loses its last reader or writer everybody
\* waiting on it is woken (reads see end-of-file, writes see EPIPE)
Exit(i) ==
  /\ pc[i] = "X"
  /\ LET ps == {p \in Pipes : p = i \/ p = i - 1}
         woken == UNION {regR[p] \cup regW[p] : p \in ps}
     IN /\ nw' = [p \in Pipes |-> IF p = i THEN 0 ELSE nw[p]]
        /\ nr' = [p \in Pipes |-> IF p = i - 1 THEN 0 ELSE nr[p]]
        /\ regR' = [p \in Pipes |-> IF p \in ps THEN {} ELSE regR[p]]
        /\ regW' = [p \in Pipes |-> IF p \in ps THEN {} ELSE regW[p]]
        /\ pc' = PcAfter(i, "D", woken)
  /\ UNCHANGED <<N, chunk, filt, take, buf, out, inb, err>>

Step(i) == Write(i) \/ SelectW(i) \/ Read(i) \/ SelectR(i) \/ Exit(i)

AllDone == \A i \in Proc : pc[i] = "D"
Finished == AllDone /\ UNCHANGED vars      \* so that only a stall is a TLC deadlock

Next == (\E i \in Proc : Step(i)) \/ Finished

Spec     == Init /\ [][Next]_vars
FairSpec == Spec /\ \A i \in Proc : WF_vars(Step(i))

\* ---- properties --------------------------------------------------------
States == {"W", "WS", "WB", "R", "RS", "RB", "X", "D"}
Bytes  == 1 .. MaxN

TypeOK ==
  /\ N \in 0 .. MaxN
  /\ pc \in [Proc -> States]
  /\ \A p \in Pipes : /\ buf[p] \in Seq(Bytes)
                      /\ nr[p] \in 0 .. 1 /\ nw[p] \in 0 .. 1
                      /\ regR[p] \subseteq Proc /\ regW[p] \subseteq Proc
  /\ \A i \in Proc : out[i] \in Seq(Bytes) /\ inb[i] \in Seq(Bytes) /\ err[i] \in BOOLEAN

\* the pipe never holds more than its capacity
Capacity == \A p \in Pipes : Len(buf[p]) <= PIPE_SIZE

PIsPrefix(s, t) == Len(s) <= Len(t) /\ s = SubSeq(t, 1, Len(s))

\* ORDER / NO DUPLICATION: what the consumer holds is a prefix of what was sent
Order == PIsPrefix(inb[NProc], Sent)

\* EXACTLY ONCE: every byte sent is at exactly one place, and the places in
\* downstream-to-upstream order spell the payload.  (After an EPIPE or an
\* early exit of the consumer bytes may be discarded: only Order is claimed.)
\* a middle stage first writes what it holds in out, then what it has in inb
RECURSIVE ChainM(_)
ChainM(i) == IF i = 1 THEN out[1]
             ELSE (IF i = NProc THEN inb[i] ELSE out[i] \o inb[i]) \o buf[i - 1] \o ChainM(i - 1)
Conservation == (~take /\ \A i \in Proc : ~err[i]) => ChainM(NProc) = Sent

\* COMPLETENESS: when everything has finished, the consumer holds the payload
Completeness == (AllDone /\ ~take) => (inb[NProc] = Sent /\ \A i \in Proc : ~err[i])
\* with an early exit of the consumer it still holds a non-empty prefix (if
\* anything was sent); upstream writers may have seen EPIPE
TakeOutcome == (AllDone /\ take /\ N > 0) => inb[NProc] # <<>>

\* NO LOST WAKE-UP: nobody sleeps while the condition it waits for holds
NoLostWake ==
  \A i \in Proc :
    /\ pc[i] = "RB" => /\ i \in regR[i - 1]
                       /\ ~ReadyR(Len(buf[i - 1]), nw[i - 1])
    /\ pc[i] = "WB" => /\ i \in regW[i]
                       /\ ~ReadyW(Len(buf[i]), nr[i])

\* LIVENESS (under weak fairness of every process): everything terminates, in
\* particular every blocked party is eventually woken
Termination == <>AllDone

=============================================================================
