---------------------------- MODULE Trace_Procs ----------------------------
(***************************************************************************)
(* P3 for C13: every run of the REAL shell (simulated OS, controllable     *)
(* scheduler, `trace_procs`) must be a behaviour of Procs.                 *)
(*                                                                         *)
(* A run is recorded as                                                    *)
(*   reset {sid}            the script (id of Procs!Script)                *)
(*   batch {actor, probes, forks, reaps, ex, xs, odd}                      *)
(*          everything process `actor` did in one or more consecutive      *)
(*          scheduling steps (inside a step only that process acts):       *)
(*          its probe events in order, the children it forked (pids        *)
(*          ascending), the children whose state_has_changed flag it       *)
(*          cleared (reaps), its own termination status                    *)
(*   end   {outcome, status, table}   final status and process table       *)
(*                                                                         *)
(* A batch is accepted iff it is a composition of Procs steps of `actor`   *)
(* (Apply / DoCollect) whose visible effects are exactly the recorded ones:*)
(*   - a fork is the model's next fork, the pid is the next free pid;      *)
(*   - a probe is the model's next probe, with the model's $? and $!;      *)
(*   - a reap is justified: a zombie child of the actor, reaped either by  *)
(*     the wait the actor is executing or, for an asynchronous child,      *)
(*     between two commands - and never twice;                             *)
(*   - termination carries the status the model computes.                  *)
(* The safety invariants of Procs are evaluated after every batch.  `end`  *)
(* must find every model process terminated (no deadlock, nothing the      *)
(* model still has to do), the same statuses, the same zombies.            *)
(* A rejected run is reported (one JSON line) and skipped; validation      *)
(* continues with the next run.                                            *)
(***************************************************************************)
EXTENDS Procs, IOUtils

Rec == ndJsonDeserialize(IOEnv.TRACE)

VARIABLES l,      \* index of the next record
          skip,   \* the current run has been rejected: skip to the next reset
          nbad    \* rejected runs so far
tvars == <<S, l, skip, nbad>>

SeqSet(s) == {s[i] : i \in DOMAIN s}

\* status o observed on the real shell vs status m of the model
MatchObs(m, o) == IF m = NZ THEN o # 0 ELSE IF m = KS THEN o > 128 ELSE m = o

ProbeOK(T, p, pr) ==
  LET c == Cmd(T, p) IN
    /\ pr.t = c.t
    /\ MatchObs(T.q[p], pr.st)
    /\ pr.b = (IF c.b THEN T.bang[p] ELSE 0)

AtKill(T, p) == ~T.tb[p] /\ ~T.stp[p] /\ T.ph[p].n = "cmd" /\ ~AtEnd(T, p) /\ Cmd(T, p).k = "kill"
                /\ Cmd(T, p).s = "TERM"

\* Passing a pid through a pipe (mypid / read) has no visible effect and is
\* deterministic: those steps of every process are taken as soon as possible.
RECURSIVE Settle(_)
Settle(T) ==
  LET xs == {x \in Pids : T.st[x] = "Run" /\ Tag(T, x) \in {"pub", "get"} /\ Kind(T, x) = "silent"}
  IN IF xs = {} THEN T ELSE Settle(Apply(T, CHOOSE x \in xs : TRUE, 0))

\* B = [pr: probes left, fk: forks left, rp: reaps left, ex: termination left, xs]
RECURSIVE Run(_, _, _)
Run(T, p, B) ==
  IF p \notin Pids \/ T.st[p] # "Run" THEN [S |-> T, B |-> B]
  ELSE IF \E c \in B.rp : Collectable(T, p, c)
  THEN LET c == CHOOSE c \in B.rp : Collectable(T, p, c)
       IN Run(DoCollect(T, p, c), p, [B EXCEPT !.rp = @ \ {c}])
  ELSE IF AtKill(T, p) /\ KillTarget(T, p) \in B.kl /\ T.tb[KillTarget(T, p)] /\ ~T.tp[KillTarget(T, p)]
  THEN \* the target was killed on the spot: its (invisible) first step, which
       \* unblocks the signal, has been taken before
       Run(Apply(T, KillTarget(T, p), 0), p, B)
  ELSE LET k == Kind(T, p)
           stop == [S |-> T, B |-> B]
       IN CASE k = "blocked" -> stop
            [] k = "silent" -> Run(Apply(T, p, 0), p, B)
            [] k = "probe" ->
                 IF B.pr # <<>> /\ ProbeOK(T, p, Head(B.pr))
                 THEN Run(Apply(T, p, 0), p, [B EXCEPT !.pr = Tail(@)]) ELSE stop
            [] k = "fork" ->
                 IF B.fk # <<>> /\ Head(B.fk) = NewPid(T)
                 THEN Run(Apply(T, p, 0), p, [B EXCEPT !.fk = Tail(@)]) ELSE stop
            [] k = "reap" ->
                 IF T.ph[p].c \in B.rp
                 THEN Run(Apply(T, p, 0), p, [B EXCEPT !.rp = @ \ {T.ph[p].c}]) ELSE stop
            [] k = "pick" ->
                 \* which member of the pipeline the shell waits for next shows in what it
                 \* does next: the member it reaps, or whose stop / continue it acknowledges
                 \* (inside one batch no other process acts: a member that is only reaped was
                 \* waited for before one whose stop / continue is acknowledged, because after
                 \* an acknowledgement the shell goes on waiting for that same member)
                 LET L  == PipeLeft(T.ph[p])
                     c1 == {c \in L \cap B.rp : c \notin B.ak}
                     c2 == L \cap B.rp
                     c3 == L \cap B.ak
                     cand == IF c1 # {} THEN c1 ELSE IF c2 # {} THEN c2 ELSE c3
                 IN IF cand # {} THEN Run(Apply(T, p, CHOOSE c \in cand : TRUE), p, B) ELSE stop
            [] k = "reapany" ->
                 IF ChangedKids(T, p) \cap B.rp # {}
                 THEN LET c == CHOOSE c \in ChangedKids(T, p) \cap B.rp : TRUE
                      IN Run(Apply(T, p, c), p, [B EXCEPT !.rp = @ \ {c}])
                 ELSE stop
            [] k = "kill" ->
                 IF KillTarget(T, p) \in B.kl
                 THEN Run(Apply(T, p, 0), p, [B EXCEPT !.kl = @ \ {KillTarget(T, p)}]) ELSE stop
            [] k \in {"stop", "cont"} ->
                 IF B.sg # <<>> /\ Head(B.sg)[1] = KillTarget(T, p) /\ Head(B.sg)[2] = (IF k = "stop" THEN "S" ELSE "C")
                 THEN Run(Apply(T, p, 0), p, [B EXCEPT !.sg = Tail(@)]) ELSE stop
            [] k = "ack" ->
                 IF T.ph[p].c \in B.ak
                 THEN Run(Apply(T, p, 0), p, [B EXCEPT !.ak = @ \ {T.ph[p].c}]) ELSE stop
            [] k = "exit" ->
                 IF B.ex /\ MatchObs(NextXs(T, p), B.xs)
                 THEN Run(Apply(T, p, 0), p, [B EXCEPT !.ex = FALSE]) ELSE stop

Consumed(B) == B.pr = <<>> /\ B.fk = <<>> /\ B.rp = {} /\ B.kl = {} /\ B.sg = <<>> /\ B.ak = {} /\ ~B.ex

\* the defect shape of virtual.rs::wait(-1): no changed child, the child with
\* the highest pid is dead and reaped, another child is still alive
LastChildDead(T, p) ==
  LET ks == Kids(T, p) IN
    /\ ks # {} /\ ChangedKids(T, p) = {}
    /\ T.st[CHOOSE c \in ks : \A d \in ks : d <= c] = "Reaped"
    /\ \E c \in ks : T.st[c] = "Run"

Diag(T, p, B, why) ==
  [why |-> why, actor |-> p,
   next |-> IF p \in Pids /\ T.st[p] = "Run" THEN Kind(T, p) ELSE "dead",
   phase |-> IF p \in Pids /\ T.st[p] = "Run" THEN Tag(T, p) ELSE "",
   mode |-> IF p \in Pids THEN T.ph[p].m ELSE "",
   q |-> IF p \in Pids THEN T.q[p] ELSE 0,
   shape |-> IF p \in Pids /\ T.st[p] = "Run" THEN LastChildDead(T, p) ELSE FALSE,
   left |-> [pr |-> B.pr, fk |-> B.fk, rp |-> B.rp, kl |-> B.kl, sg |-> B.sg, ak |-> B.ak, ex |-> B.ex, xs |-> B.xs],
   inv |-> [reap |-> ReapOnce(T), status |-> StatusTrue(T), fg |-> NoFgLeft(T), jobs |-> JobsSound(T)]]

Bad(e, d) == PrintT(ToJson([bad |-> l, run |-> e.run, d |-> d]))

Ev == Rec[l]

TReset ==
  /\ Ev.ev = "reset"
  /\ S' = InitS(Script(Ev.sid))
  /\ skip' = FALSE /\ nbad' = nbad

TBatch ==
  /\ Ev.ev = "batch" /\ ~skip
  /\ LET B0 == [pr |-> Ev.probes, fk |-> Ev.forks, rp |-> SeqSet(Ev.reaps), kl |-> SeqSet(Ev.kills),
                sg |-> Ev.sigs, ak |-> SeqSet(Ev.acks), ex |-> Ev.ex, xs |-> Ev.xs]
         R == Run(Settle(S), Ev.actor, B0)
         ok == Ev.odd = <<>> /\ Consumed(R.B) /\ R.S.err = "" /\ Safe(R.S)
     IN IF ok THEN S' = R.S /\ skip' = FALSE /\ nbad' = nbad
        ELSE /\ Bad(Ev, Diag(R.S, Ev.actor, R.B,
                             IF Ev.odd # <<>> THEN "odd" ELSE IF ~Consumed(R.B) THEN "step"
                             ELSE IF R.S.err # "" THEN "err" ELSE "invariant"))
             /\ S' = S /\ skip' = TRUE /\ nbad' = nbad + 1

\* the main shell process does not call exit in the harness: its termination
\* with the final status is part of `end`.
TableOK(T, tab) ==
  /\ {t.pid : t \in SeqSet(tab)} = Created(T)
  /\ \A t \in SeqSet(tab) :
       IF t.pid = Base THEN t.ppid = 1
       ELSE /\ t.ppid = T.par[t.pid]
            /\ ~t.alive
            /\ MatchObs(T.xs[t.pid], t.xs)
            /\ t.ch = (T.st[t.pid] = "Zombie")

TEnd ==
  /\ Ev.ev = "end" /\ ~skip
  /\ LET B0 == [pr |-> <<>>, fk |-> <<>>, rp |-> {}, kl |-> {}, sg |-> <<>>, ak |-> {}, ex |-> TRUE, xs |-> Ev.status]
         R == IF Ev.outcome = "completed" THEN Run(Settle(S), Base, B0) ELSE [S |-> S, B |-> B0]
         ok == /\ Ev.outcome = "completed"
               /\ Consumed(R.B) /\ R.S.err = ""
               /\ Terminated(R.S)
               /\ Safe(R.S) /\ AgreesWithDenotation(R.S)
               /\ TableOK(R.S, Ev.table)
     IN IF ok THEN S' = R.S /\ skip' = FALSE /\ nbad' = nbad
        ELSE /\ Bad(Ev, [Diag(R.S, Base, R.B,
                              IF Ev.outcome # "completed" THEN Ev.outcome
                              ELSE IF ~Consumed(R.B) THEN "step"
                              ELSE IF ~Terminated(R.S) THEN "unterminated"
                              ELSE IF ~TableOK(R.S, Ev.table) THEN "table"
                              ELSE IF ~AgreesWithDenotation(R.S) THEN "denotation" ELSE "invariant")
                         EXCEPT !.phase = IF Ev.outcome # "completed" /\ \E p \in Pids : S.st[p] = "Run"
                                          THEN Tag(S, CHOOSE p \in Pids : S.st[p] = "Run") ELSE @])
             /\ S' = S /\ skip' = TRUE /\ nbad' = nbad + 1

TSkip == skip /\ Ev.ev # "reset" /\ UNCHANGED <<S, skip, nbad>>

TraceInit ==
  /\ l = 1 /\ skip = TRUE /\ nbad = 0
  /\ S = InitS(Script([f |-> "unk", a |-> <<0>>, pf |-> FALSE]))

TraceNext ==
  /\ l <= Len(Rec)
  /\ TReset \/ TBatch \/ TEnd \/ TSkip
  /\ l' = l + 1

TraceSpec == TraceInit /\ [][TraceNext]_tvars

Accepted ==
  LET d == TLCGet("stats").diameter
  IN IF d - 1 = Len(Rec) THEN TRUE
     ELSE Print(<<"REJECT", d, ToJson(Rec[d])>>, FALSE)
=============================================================================
