\* negative configuration: the wrong variant "fgjob_no_tty" must be refuted (law FgBeforeRun)
SPECIFICATION Spec
CONSTANTS
  Variant = "fgjob_no_tty"
  Fams = {"fg", "async", "stop1", "tty", "nomon"}
  Cfgs = {"m", "mi", "-", "ml", "mib"}
  Enf = {TRUE}
ALIAS Brief
INVARIANT FgBeforeRun
