SPECIFICATION Spec
CONSTANT Slice = 4
CONSTANT Level = 1
CONSTANT PairSlice = 0
INVARIANT Emit
INVARIANT Laws
