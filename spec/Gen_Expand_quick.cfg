SPECIFICATION Spec
CONSTANT Slice = 4
CONSTANT Level = 1
INVARIANT Emit
INVARIANT Laws
