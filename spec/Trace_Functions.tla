--------------------------- MODULE Trace_Functions ---------------------------
(***************************************************************************)
(* impl -> spec validation for G12.  Every record of the ndjson file        *)
(* IOEnv.TRACE was produced by harness/g12 from a random scenario:          *)
(*   sc       [args, main]  the scenario (commands of ShFunctions.tla)      *)
(*   script   the script text the harness rendered                          *)
(*   outcome  "completed" / "panic: ..." / "deadlock" / "steplimit"         *)
(*   st       exit status of the shell                                      *)
(*   out, fo, fp   lines [s, t] of standard output, /tmp/o, /tmp/p          *)
(*   tab      final function table [n, ro, txt] (state inspection, sorted)  *)
(*   lst      the final `typeset -fp` listing in normal form                *)
(*   rto, rt  outcome and table of a fresh shell evaluating that listing    *)
(* A record is accepted iff the script is the one ShFunctions!Script gives *)
(* for the scenario (otherwise the harness renderer is wrong: verdict      *)
(* "render", a tool error) and, when the scenario is specified (class      *)
(* "ok"), everything observed is what ShFunctions!Expect demands.  Records *)
(* of the classes "open" / "deep" must merely have terminated.             *)
(*                                                                         *)
(* The records are independent: the "behaviour" is a binary splitting of   *)
(* the index range; the invariant judges the record at every leaf and      *)
(* prints one JSON line per record that is not plainly accepted.           *)
(***************************************************************************)
EXTENDS ShFunctions, Json, IOUtils

Rec == ndJsonDeserialize(IOEnv.TRACE)
N == Len(Rec)

VARIABLES lo, hi
vars == <<lo, hi>>

Init == lo = 1 /\ hi = N
Next == /\ lo < hi
        /\ LET mid == (lo + hi) \div 2
           IN \/ lo' = lo /\ hi' = mid
              \/ lo' = mid + 1 /\ hi' = hi
Spec == Init /\ [][Next]_vars

\* a status the specification only calls non-zero matches any of 1..255
StatusOK(e, a) == IF e = NZ THEN a \in 1..255 ELSE e = a
LinesOK(e, a) ==
  /\ Len(e) = Len(a)
  /\ \A i \in 1..Len(e) : e[i].t = a[i].t /\ (IF e[i].s = -2 THEN a[i].s = -2 ELSE StatusOK(e[i].s, a[i].s))
TabOK(e, a) ==
  /\ Len(e) = Len(a)
  /\ \A i \in 1..Len(e) : e[i].n = a[i].n /\ e[i].ro = a[i].ro /\ e[i].txt = a[i].txt

RECURSIVE TabList(_, _)
TabList(tab, i) ==
  IF i > Len(tab) THEN <<>>
  ELSE <<"F " \o tab[i].n>> \o (IF tab[i].ro THEN <<"R " \o tab[i].n>> ELSE <<>>) \o TabList(tab, i + 1)
SameSeq(a, b) == Len(a) = Len(b) /\ \A i \in 1..Len(a) : a[i] = b[i]

Verdict(r) ==
  LET e == Expect(r.sc)
  IN IF e.script # r.script THEN [v |-> "render", class |-> e.cls, why |-> "script"]
     ELSE IF r.outcome # "completed" \/ r.rto # "completed" THEN [v |-> "reject", class |-> e.cls, why |-> "outcome"]
     ELSE IF e.cls # "ok" THEN [v |-> "open", class |-> e.cls, why |-> ""]
     ELSE IF ~LinesOK(e.out, r.out) THEN [v |-> "reject", class |-> e.cls, why |-> "stdout"]
     ELSE IF ~StatusOK(e.st, r.st) THEN [v |-> "reject", class |-> e.cls, why |-> "status"]
     ELSE IF ~LinesOK(e.fo, r.fo) THEN [v |-> "reject", class |-> e.cls, why |-> "file-o"]
     ELSE IF ~LinesOK(e.fp, r.fp) THEN [v |-> "reject", class |-> e.cls, why |-> "file-p"]
     ELSE IF ~TabOK(e.tab, r.tab) THEN [v |-> "reject", class |-> e.cls, why |-> "table"]
     ELSE IF ~SameSeq(TabList(e.tab, 1), r.lst) THEN [v |-> "reject", class |-> e.cls, why |-> "listing"]
     ELSE IF ~TabOK(e.tab, r.rt) THEN [v |-> "reject", class |-> e.cls, why |-> "roundtrip"]
     ELSE [v |-> "ok", class |-> "ok", why |-> ""]

Judge ==
  (lo = hi /\ N > 0) =>
     LET j == Verdict(Rec[lo])
     IN IF j.v = "ok" THEN TRUE
        ELSE PrintT(ToJson([i |-> lo, v |-> j.v, class |-> j.class, why |-> j.why]))
=============================================================================
