\* G14 negative configuration: the wrong variant "rt-always-rtmin" of SigNames.tla must be refuted by a law
SPECIFICATION Spec
CONSTANTS
  Level = "laws"
  Variant = "rt-always-rtmin"
INVARIANT LawsHold
