INIT Init
NEXT Next
VIEW view
CONSTANTS
  PNorm <- AlphaSh
  PLit <- LitSh
  PMacro <- ShellMacros
  PLen = 3
  SAlpha <- StrTiny
  SLen = 3
  Kind = "shell"
INVARIANT Emit
