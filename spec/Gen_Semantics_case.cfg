SPECIFICATION Spec
CONSTANTS
  Fuel = 24
  TickLimit = 2
  K = 5
  Alphabet <- AlphaCase
  ItemAlphabet <- ItemsCase
  Mode = "c02"
INVARIANT Emit
CHECK_DEADLOCK FALSE
