INIT Init
NEXT Next
VIEW view
CONSTANTS
  PNorm <- AlphaFull
  PLit <- NoChars
  PMacro <- NoChars
  PLen = 4
  SAlpha <- StrWide
  SLen = 2
  Kind = "match"
INVARIANT Emit
