SPECIFICATION Spec
CONSTANT Variant = "bq_nodq"
CONSTANT MaxLen = 1
CONSTANT PairCoreSlice = 0
CONSTANT PairNewSlice = 0
CONSTANT Wide = FALSE
CONSTANT TripleSlice = 0
CONSTANT RawMax = 0
CONSTANT DoEmit = FALSE
INVARIANT InvBackquote
