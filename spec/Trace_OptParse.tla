--------------------------- MODULE Trace_OptParse ---------------------------
(***************************************************************************)
(* P4 validation (impl -> spec) for C20: every record                      *)
(*   {specs, mode, argv, obs}                                              *)
(* observed on the real parse_arguments (random tables, modes and vectors  *)
(* well beyond the exhaustive bounds) must be the outcome OptParse!Parse   *)
(* prescribes.  Vectors outside the documented syntax (Unspecified) and    *)
(* tables outside the contract of OptionSpec are accepted and left to the  *)
(* harness' count.                                                         *)
(***************************************************************************)
EXTENDS OptParse, Json, IOUtils

Rec == ndJsonDeserialize(IOEnv.TRACE)

VARIABLE l
vars == <<l>>

TraceInit == l = 1

RecOK(r) ==
  \/ ~WellFormed(r.specs)
  \/ Unspecified(r.argv)
  \/ Conforms(r.specs, r.mode, r.argv, r.obs)

TraceNext ==
  /\ l <= Len(Rec)
  /\ RecOK(Rec[l])
  /\ l' = l + 1

TraceSpec == TraceInit /\ [][TraceNext]_vars

Accepted ==
  LET d == TLCGet("stats").diameter
  IN IF d - 1 = Len(Rec) THEN TRUE
     ELSE Print(<<"REJECT", d, ToJson(Rec[d])>>, FALSE)
=============================================================================
