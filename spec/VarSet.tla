------------------------------- MODULE VarSet -------------------------------
(***************************************************************************)
(* Implementation-shaped model of yash-env/src/variable.rs (VariableSet).  *)
(*                                                                         *)
(* The code does not keep one map per context.  It keeps                   *)
(*   all_variables : HashMap<String, Vec<VariableInContext>>               *)
(*        one stack per NAME of (variable, context_index), ascending, and  *)
(*   contexts      : Vec<Context>   (Regular{positional_params}|Volatile). *)
(* This module has exactly that state (context indices 0-based as in the   *)
(* code; `present[n]` = the hash map has key n, possibly with an empty     *)
(* stack, as unset and a panicking get_or_new leave it) and one action per *)
(* public mutator, written as the code computes it (the loop of            *)
(* get_or_new_impl, the retain/pop_if of pop_context_impl, the             *)
(* partition_point/drain of unset).                                        *)
(*                                                                         *)
(* It is the DRIVER of C16 (DESIGN.md 4.2): TLC checks that it refines the *)
(* documented model VarRef step by step under the mapping                  *)
(*   VarRef!ctx[k].vars[n] = the entry of stack[n] with context_index k-1  *)
(* (same operation, same result, same observations), checks the            *)
(* representation invariant (assert_normalized), and its state graph       *)
(* enumerates the histories replayed on the real VariableSet.  Verdicts on *)
(* the real code come from VarRef (Trace_VarSet), not from this module.    *)
(***************************************************************************)
EXTENDS Integers, Sequences, FiniteSets, TLC, Json

CONSTANTS Names, Vals, MaxDepth, PosVals, Thens,
          MaxH            \* bound on the history length (generator configs)

VARIABLES contexts,   \* Seq([kind, pos])            -- Vec<Context>
          stack,      \* [Names -> Seq([ci, var])]   -- all_variables values
          present,    \* [Names -> BOOLEAN]          -- all_variables keys
          h,          \* history of operations (hidden by VIEW)
          last        \* [op, res] of the step just taken (hidden by VIEW)

vars == <<contexts, stack, present, h, last>>
view == <<contexts, stack, present>>

Absent == [set |-> FALSE, hv |-> FALSE, val |-> "", ex |-> FALSE, ro |-> FALSE]
Fresh  == [set |-> TRUE,  hv |-> FALSE, val |-> "", ex |-> FALSE, ro |-> FALSE]   \* Variable::default()
NameSeq == SelectSeq(<<"x", "y", "z">>, LAMBDA n : n \in Names)
\* positional-parameter alphabets for the configurations
PosNone == {<<>>}
PosSome == {<<>>, <<"1">>, <<"2", "3">>}

LastOf(s)  == s[Len(s)]
FrontOf(s) == SubSeq(s, 1, Len(s) - 1)

-----------------------------------------------------------------------------
\* refinement mapping
EntryAt(n, i) == {j \in 1..Len(stack[n]) : stack[n][j].ci = i}
AbsVar(n, i)  == IF EntryAt(n, i) = {} THEN Absent
                 ELSE stack[n][CHOOSE j \in EntryAt(n, i) : TRUE].var
Abs == [k \in 1..Len(contexts) |->
          [kind |-> contexts[k].kind,
           vars |-> [n \in Names |-> AbsVar(n, k - 1)],
           pos  |-> IF contexts[k].kind = "R" THEN contexts[k].pos ELSE <<>>]]

\* the documented model, instantiated on the mapped state
Ref == INSTANCE VarRef WITH ctx <- Abs

-----------------------------------------------------------------------------
\* accessors, as the code computes them

\* index_of_topmost_regular_context (0-based)
TopRegIdx == (CHOOSE k \in 1..Len(contexts) :
                /\ contexts[k].kind = "R"
                /\ \A j \in (k + 1)..Len(contexts) : contexts[j].kind # "R") - 1

\* index_of_context
IndexOfContext(s) == CASE s = "Global" -> 0
                       [] s = "Local" -> TopRegIdx
                       [] s = "Volatile" -> TopRegIdx + 1

\* get:  all_variables.get(name)?.last()?.variable
Get(n) == IF present[n] /\ stack[n] # <<>> THEN LastOf(stack[n]).var ELSE Absent

\* get_scoped:  .last().filter(|vic| vic.context_index >= index)
GetScopedC(n, s) ==
  IF present[n] /\ stack[n] # <<>> /\ LastOf(stack[n]).ci >= IndexOfContext(s)
  THEN LastOf(stack[n]).var ELSE Absent

\* iter(scope): hash map entries whose last element has context_index >= min
IterC(s) ==
  LET in == SelectSeq(NameSeq, LAMBDA n : present[n] /\ stack[n] # <<>>
                                           /\ LastOf(stack[n]).ci >= IndexOfContext(s))
  IN [i \in 1..Len(in) |-> in[i] \o ":" \o Ref!VarStr(LastOf(stack[in[i]]).var)]

\* env_c_strings: last element exported and having a value
EnvC ==
  LET in == SelectSeq(NameSeq, LAMBDA n : present[n] /\ stack[n] # <<>>
                                           /\ LastOf(stack[n]).var.ex /\ LastOf(stack[n]).var.hv)
  IN [i \in 1..Len(in) |-> in[i] \o "=" \o LastOf(stack[in[i]]).var.val]

\* positional_params: contexts.iter().rev().find_map(Regular)
PosC == contexts[TopRegIdx + 1].pos

-----------------------------------------------------------------------------
\* representation invariant (VariableSet::assert_normalized)
Normalized ==
  \A n \in Names :
    /\ \A j \in 1..(Len(stack[n]) - 1) : stack[n][j].ci < stack[n][j + 1].ci
    /\ stack[n] # <<>> => LastOf(stack[n]).ci < Len(contexts)
    /\ \A j \in 1..Len(stack[n]) : stack[n][j].ci >= 0 /\ stack[n][j].var.set
    /\ ~present[n] => stack[n] = <<>>

\* the accessors computed on the per-name stacks agree with the documented
\* lookups on the stack of maps
ObservationsAgree ==
  /\ \A n \in Names : /\ Get(n) = Ref!Lookup(Abs, n)
                      /\ \A s \in Ref!Scopes : GetScopedC(n, s) = Ref!GetScoped(Abs, n, s)
  /\ \A s \in Ref!Scopes : IterC(s) = Ref!IterSeq(Abs, s)
  /\ EnvC = Ref!EnvSeq(Abs)
  /\ PosC = Ref!Pos(Abs)

-----------------------------------------------------------------------------
\* mutators, as the code computes them

Log(op, res) == /\ h' = Append(h, op)
                /\ last' = [op |-> op, res |-> res]

\* the loop of get_or_new_impl for Scope::Global | Scope::Local
\*   st: the stack so far, rem: removed_volatile_variable (Absent = None)
RECURSIVE GonLoop(_, _, _)
GonLoop(st, rem, cidx) ==
  IF st = <<>> \/ LastOf(st).ci < cidx
  THEN Append(st, [ci |-> cidx, var |-> IF rem.set THEN rem ELSE Fresh])
  ELSE IF contexts[LastOf(st).ci + 1].kind = "R"
       THEN IF rem.set THEN [st EXCEPT ![Len(st)].var = rem] ELSE st
       ELSE GonLoop(FrontOf(st), IF rem.set THEN rem ELSE LastOf(st).var, cidx)

\* the follow-up action on the returned VariableRefMut (variable/main.rs)
FollowUp(v, op) ==
  CASE op.then = "none"   -> [var |-> v, res |-> Ref!Res("ok", v, Ref!NoOld)]
    [] op.then = "assign" -> IF v.ro THEN [var |-> v, res |-> Ref!Res("err", v, Ref!NoOld)]
                             ELSE [var |-> [v EXCEPT !.hv = TRUE, !.val = op.val],
                                   res |-> Ref!Res("ok", v, [hv |-> v.hv, val |-> v.val])]
    [] op.then = "export" -> [var |-> [v EXCEPT !.ex = op.flag], res |-> Ref!Res("ok", v, Ref!NoOld)]
    [] op.then = "ro"     -> [var |-> [v EXCEPT !.ro = TRUE], res |-> Ref!Res("ok", v, Ref!NoOld)]

GetOrNew(op) ==
  LET n == op.n
      cidx == CASE op.scope = "Global" -> 0
                [] op.scope = "Local" -> TopRegIdx
                [] op.scope = "Volatile" -> Len(contexts) - 1
  IN /\ present' = [present EXCEPT ![n] = TRUE]          \* entry(name).or_insert(Vec::new())
     /\ UNCHANGED contexts
     /\ IF op.scope = "Volatile" /\ contexts[cidx + 1].kind # "V"
        THEN \* assert_eq!(contexts[context_index], Volatile) panics after the entry was inserted
             /\ UNCHANGED stack
             /\ Log(op, Ref!Res("panic", Absent, Ref!NoOld))
        ELSE LET st0 == stack[n]
                 st1 == IF op.scope \in {"Global", "Local"} THEN GonLoop(st0, Absent, cidx)
                        ELSE IF st0 = <<>> THEN <<[ci |-> cidx, var |-> Fresh]>>
                        ELSE IF LastOf(st0).ci # cidx
                             THEN Append(st0, [ci |-> cidx, var |-> LastOf(st0).var])
                             ELSE st0
                 f == FollowUp(LastOf(st1).var, op)
             IN /\ stack' = [stack EXCEPT ![n] = [st1 EXCEPT ![Len(st1)].var = f.var]]
                /\ Log(op, f.res)

\* unset:  index = stack.partition_point(|vic| vic.context_index < context_index);
\*         read-only check over stack[index..]; stack.drain(index..).next_back()
Unset(op) ==
  LET n == op.n
      st == stack[n]
      cidx == IndexOfContext(op.scope)
      \* 0-based position of the first entry defined in context cidx or above
      from == Cardinality({j \in 1..Len(st) : st[j].ci < cidx})
  IN /\ UNCHANGED <<contexts, present>>
     /\ IF ~present[n] THEN UNCHANGED stack /\ Log(op, Ref!Ok)
        ELSE IF \E j \in (from + 1)..Len(st) : st[j].var.ro
        THEN UNCHANGED stack /\ Log(op, Ref!Res("err", Absent, Ref!NoOld))
        ELSE /\ stack' = [stack EXCEPT ![n] = SubSeq(st, 1, from)]              \* drain(index..)
             /\ Log(op, IF from = Len(st) THEN Ref!Ok
                        ELSE Ref!Res("ok", LastOf(st).var, Ref!NoOld))        \* .next_back()

Push(op) ==
  /\ Len(contexts) < MaxDepth
  /\ contexts' = Append(contexts, [kind |-> op.kind, pos |-> IF op.kind = "R" THEN op.pos ELSE <<>>])
  /\ UNCHANGED <<stack, present>>
  /\ Log(op, Ref!Ok)

\* pop_context_impl: contexts.pop(); all_variables.retain(|_, stack| {
\*   stack.pop_if(|vic| vic.context_index >= contexts.len()); !stack.is_empty() })
Pop(op) ==
  /\ Len(contexts) > 1
  /\ contexts' = FrontOf(contexts)
  /\ LET newlen == Len(contexts) - 1
         popped(st) == IF st # <<>> /\ LastOf(st).ci >= newlen THEN FrontOf(st) ELSE st
     IN /\ stack' = [n \in Names |-> popped(stack[n])]
        /\ present' = [n \in Names |-> present[n] /\ popped(stack[n]) # <<>>]
  /\ Log(op, Ref!Ok)

SetPos(op) ==
  /\ op.pos # PosC
  /\ contexts' = [contexts EXCEPT ![TopRegIdx + 1].pos = op.pos]
  /\ UNCHANGED <<stack, present>>
  /\ Log(op, Ref!Ok)

Init == /\ contexts = <<[kind |-> "R", pos |-> <<>>]>>
        /\ stack = [n \in Names |-> <<>>]
        /\ present = [n \in Names |-> FALSE]
        /\ h = <<>>
        /\ last = [op |-> [op |-> "init"], res |-> Ref!Ok]

OpsOf(kind) == {op \in Ref!Ops : op.op = kind}
GetOrNewStep == \E op \in OpsOf("gon") : GetOrNew(op)
UnsetStep    == \E op \in OpsOf("unset") : Unset(op)
PushStep     == \E op \in OpsOf("push") : Push(op)
PopStep      == \E op \in OpsOf("pop") : Pop(op)
SetPosStep   == \E op \in OpsOf("setpos") : SetPos(op)

Next == GetOrNewStep \/ UnsetStep \/ PushStep \/ PopStep \/ SetPosStep

Spec == Init /\ [][Next]_vars

-----------------------------------------------------------------------------
\* Refinement, step by step: the step just taken (operation last'.op, result
\* last'.res) is exactly the documented operation on the mapped state.
RefinesStep ==
  LET r == Ref!Apply(Abs, last'.op)
  IN /\ Ref!Legal(Abs, last'.op)
     /\ last'.res = r.res
     /\ last'.res.st # "panic" => Abs' = r.ctx
RefinesVarRef == [][RefinesStep]_vars

\* the property's action invariants, carried over through the mapping
ReadOnlyNeverChanges == [][Ref!ReadOnlyStep(Abs, Abs')]_vars
ReadOnlyVisible      == [][Ref!ReadOnlyVisibleStep(Abs, Abs')]_vars

TypeOK ==
  /\ Len(contexts) \in 1..MaxDepth
  /\ contexts[1].kind = "R"

\* P2 generator: one line per distinct state (h and last hidden by the VIEW);
\* the harness rebuilds the state by replaying h and applies the alphabet.
EmitState == PrintT(ToJson([h |-> h]))
HistoryBound == Len(h) < MaxH
=============================================================================
