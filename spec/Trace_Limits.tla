---------------------------- MODULE Trace_Limits ----------------------------
(***************************************************************************)
(* G08, impl -> spec: the judge.  Every record                             *)
(*   {sys, layer, from, miss, steps: [{c, st, out, err}]}                  *)
(* is one straight sequence of commands run by one process of the real     *)
(* code from the initial state of the platform (file IOEnv.PLATFORM):      *)
(* `c` the command (ulimit / umask / times / set -o portable as run by the *)
(* shell; getrlimit / setrlimit / sys_umask as system calls), `st` the     *)
(* exit status, `out` the standard output (calls: the result as text),     *)
(* `err` whether anything was written to standard error.  The judge        *)
(* follows the set of states Limits.tla allows (After / AfterCall); an     *)
(* observation no allowed outcome matches is a reject.                     *)
(*                                                                         *)
(* Records are independent.  The state of this checker is an index range   *)
(* (lo, hi) that Next halves; the record at lo = hi is judged by the       *)
(* invariant, which prints a verdict line for every record that is not     *)
(* plainly accepted:                                                       *)
(*   "reject"     the steps k (fields f) have observations that are not    *)
(*                allowed (after a rejected read-back call the judge goes  *)
(*                on from the state the call reported)                     *)
(*   "unspec"     step k is one the specification leaves open; the steps   *)
(*                before it were accepted, those after it are not judged   *)
(*   "bad-input"  the record is not a well-formed case (tool error)        *)
(***************************************************************************)
EXTENDS Limits, Json, IOUtils

Rec == ndJsonDeserialize(IOEnv.TRACE)
Plat == JsonDeserialize(IOEnv.PLATFORM)
P == [sup |-> RangeOf(Plat.sup), priv |-> Plat.priv, inf |-> Plat.inf,
      ceil |-> [r \in Resources |-> Plat.ceil[r]], times |-> Plat.times]
InitState == MkState([r \in Resources |-> <<Plat.init[r][1], Plat.init[r][2]>>], Plat.umask)

VARIABLES lo, hi
vars == <<lo, hi>>

V(v, k, f) == [v |-> v, k |-> k, f |-> f]

IsCall(cmd) == cmd[1] \in {"getrlimit", "setrlimit", "sys_umask", "sys_getumask"}
GoodCmd(cmd) ==
  /\ Len(cmd) >= 1
  /\ cmd[1] \in {"ulimit", "umask", "times", "set", "getrlimit", "setrlimit", "sys_umask", "sys_getumask"}
  /\ (cmd[1] = "sys_getumask" => Len(cmd) = 1)
  /\ (cmd[1] = "getrlimit" => Len(cmd) = 2 /\ cmd[2] \in Resources)
  /\ (cmd[1] = "setrlimit" => Len(cmd) = 4 /\ cmd[2] \in Resources /\ IsLimit(cmd[3]) /\ IsLimit(cmd[4])
                               /\ \A i \in {3, 4} : cmd[i] = Inf \/ DCmp(DigitsOf(cmd[i]), DigitsOf(P.inf)) < 0)
  /\ (cmd[1] = "sys_umask" => Len(cmd) = 2 /\ Len(cmd[2]) = 3 /\ RangeOf(Chars(cmd[2])) \subseteq OctalSet)

\* why no outcome matches
Why(SS, cmd, o) ==
  LET os == UNION {Outcomes(P, T, cmd) : T \in SS} IN
  IF \A x \in os : (x.st = 0) # (o.st = 0) THEN "status"
  ELSE IF \A x \in os : (x.st = 0) = (o.st = 0) => (x.st = 0) = o.err THEN "stderr"
  ELSE "stdout"

\* After a rejected read-back call the judge goes on from the state the call
\* reported (so that one deviation does not hide the rest of the sequence).
Resync(SS, cmd, text) ==
  IF cmd[1] = "sys_getumask" /\ Len(text) = 3 /\ RangeOf(Chars(text)) \subseteq OctalSet
  THEN {[T EXCEPT !.umask = OctalVal(Chars(text))] : T \in SS}
  ELSE IF cmd[1] = "getrlimit" THEN
    LET ps == Split(Chars(text), " ") IN
    IF Len(ps) = 2 /\ IsLimit(Concat(ps[1])) /\ IsLimit(Concat(ps[2])) /\ LimLE(Concat(ps[1]), Concat(ps[2]))
    THEN {[T EXCEPT !.rlim[cmd[2]] = <<Concat(ps[1]), Concat(ps[2])>>] : T \in SS}
    ELSE {}
  ELSE {}

\* acc: the rejected steps so far, <<k, field>> each
RECURSIVE JudgeFrom(_, _, _, _)
JudgeFrom(r, SS, k, acc) ==
  IF k > Len(r.steps) THEN (IF acc = <<>> THEN V("ok", <<>>, <<>>) ELSE V("reject", [i \in 1..Len(acc) |-> acc[i][1]], [i \in 1..Len(acc) |-> acc[i][2]]))
  ELSE LET o == r.steps[k] IN
    IF ~GoodCmd(o.c) THEN V("bad-input", <<k>>, <<"">>)
    ELSE IF IsCall(o.c) THEN
      LET NS == UNION {AfterCall(P, T, o.c, o.out) : T \in SS} IN
      IF o.st # 0 \/ o.err \/ NS = {} THEN
        LET RS == Resync(SS, o.c, o.out)
            acc2 == Append(acc, <<k, "call">>)
        IN IF RS = {} THEN V("reject", [i \in 1..Len(acc2) |-> acc2[i][1]], [i \in 1..Len(acc2) |-> acc2[i][2]])
           ELSE JudgeFrom(r, RS, k + 1, acc2)
      ELSE JudgeFrom(r, NS, k + 1, acc)
    ELSE IF \E T \in SS : IsUnspec(P, T, o.c) THEN
      (IF acc = <<>> THEN V("unspec", <<k>>, <<"">>) ELSE V("reject", [i \in 1..Len(acc) |-> acc[i][1]], [i \in 1..Len(acc) |-> acc[i][2]]))
    ELSE LET NS == UNION {After(P, T, o.c, [st |-> o.st, out |-> o.out, err |-> o.err]) : T \in SS} IN
         IF NS = {} THEN LET acc2 == Append(acc, <<k, Why(SS, o.c, o)>>) IN
                         V("reject", [i \in 1..Len(acc2) |-> acc2[i][1]], [i \in 1..Len(acc2) |-> acc2[i][2]])
         ELSE JudgeFrom(r, NS, k + 1, acc)

Judge(r) == IF r.miss THEN V("reject", <<0>>, <<"no-observation">>) ELSE JudgeFrom(r, {InitState}, 1, <<>>)

TraceInit == lo = 1 /\ hi = Len(Rec)

TraceNext ==
  /\ lo < hi
  /\ LET mid == (lo + hi) \div 2 IN
     \/ lo' = lo /\ hi' = mid
     \/ lo' = mid + 1 /\ hi' = hi

Verdict ==
  lo = hi => LET v == Judge(Rec[lo]) IN
             IF v.v = "ok" THEN TRUE ELSE PrintT(ToJson([i |-> lo, v |-> v.v, k |-> v.k, f |-> v.f]))

TraceSpec == TraceInit /\ [][TraceNext]_vars
=============================================================================
