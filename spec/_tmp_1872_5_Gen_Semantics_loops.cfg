SPECIFICATION Spec
CONSTANTS
  Fuel = 24
  TickLimit = 2
  K = 5
  Alphabet <- AlphaLoops
  ItemAlphabet <- ItemsLoops
  Mode = "c02"
INVARIANT Emit
CHECK_DEADLOCK FALSE
