----------------------------- MODULE PipeData -----------------------------
(***************************************************************************)
(* Parts 1 and 2 of the specification of property C14 (see module Pipe):   *)
(* byte strings and Strip, the meaning of the scenario scripts, and the    *)
(* kernel rules of one pipe.  No variables: shared by Pipe (processes),    *)
(* Gen_Pipe / Gen_PipeK (generators) and Trace_Pipe (validation of the     *)
(* real code with the real constants).                                     *)
(***************************************************************************)
EXTENDS Integers, Sequences, FiniteSets, TLC

CONSTANTS PIPE_BUF,    \* largest request that is transferred atomically
          PIPE_SIZE    \* capacity of a pipe
ASSUME PIPE_BUF \in Nat \ {0} /\ PIPE_SIZE \in Nat /\ PIPE_SIZE >= PIPE_BUF

PMin(a, b) == IF a <= b THEN a ELSE b
PMax(a, b) == IF a >= b THEN a ELSE b

-----------------------------------------------------------------------------
(* 1. DATA                                                                 *)

NL == 10

\* Byte i (from 0) of the counter stream that the `emit` probe writes and the
\* sink probes compare against (harness/common/src/shell.rs stream_byte).
StreamByte(i) == IF i % 17 = 16 THEN NL ELSE 97 + (i % 23)

\* Command substitution: the value is the output minus the maximal suffix of
\* newlines -- nothing else is removed (no other white space, no interior
\* newline).
RECURSIVE Strip(_)
Strip(s) == IF s # <<>> /\ s[Len(s)] = NL THEN Strip(SubSeq(s, 1, Len(s) - 1)) ELSE s

\* Declarative reading of the same clause, against which Strip is checked:
\* r is s with exactly its maximal suffix of newlines removed.
IsStripOf(r, s) ==
  /\ Len(r) <= Len(s)
  /\ r = SubSeq(s, 1, Len(r))
  /\ \A i \in (Len(r) + 1) .. Len(s) : s[i] = NL
  /\ (r = <<>> \/ r[Len(r)] # NL)

\* First line as the `read` built-in consumes it: everything before the first
\* newline; the newline itself is consumed too.  FirstNL = 0 if there is none.
FirstNL(s) == IF \E i \in 1 .. Len(s) : s[i] = NL
              THEN CHOOSE i \in 1 .. Len(s) : s[i] = NL /\ \A j \in 1 .. (i - 1) : s[j] # NL
              ELSE 0

\* --- compact form --------------------------------------------------------
\* d = [head, off, n, tail] stands for
\*     head \o <<StreamByte(off) .. StreamByte(off+n-1)>> \o tail
\* (head is empty except in the invalid-UTF-8 scenarios, where a marker byte
\* may precede the stream part)
DH(head, off, n, tail) == [head |-> head, off |-> off, n |-> n, tail |-> tail]
D(off, n, tail) == DH(<<>>, off, n, tail)
DLen(d)    == Len(d.head) + d.n + Len(d.tail)
DExpand(d) == d.head \o [i \in 1 .. d.n |-> StreamByte(d.off + i - 1)] \o d.tail
DCat(d, t) == [d EXCEPT !.tail = @ \o t]

RECURSIVE DStripN(_, _)
DStripN(off, n) == IF n > 0 /\ StreamByte(off + n - 1) = NL THEN DStripN(off, n - 1) ELSE n
DStrip(d) == LET t == Strip(d.tail)
                 m == DStripN(d.off, d.n)
             IN IF t # <<>> THEN [d EXCEPT !.tail = t]
                ELSE IF m > 0 THEN [d EXCEPT !.tail = <<>>, !.n = m]
                ELSE [d EXCEPT !.tail = <<>>, !.n = 0, !.head = Strip(@)]

\* d without its last k bytes
RECURSIVE DTrim(_, _)
DTrim(d, k) == IF k = 0 THEN d
               ELSE IF d.tail # <<>> THEN DTrim([d EXCEPT !.tail = SubSeq(@, 1, Len(@) - 1)], k - 1)
               ELSE IF d.n > 0 THEN DTrim([d EXCEPT !.n = @ - 1], k - 1)
               ELSE DTrim([d EXCEPT !.head = SubSeq(@, 1, Len(@) - 1)], k - 1)

\* How a sink probe summarises a byte string b against the stream starting at
\* base: its length, the first position that deviates from the stream (-1 if
\* none) and the bytes from there on.  (len, fb, rest) determines b.
SeqRep(b, base) ==
  LET bad == {i \in 1 .. Len(b) : b[i] # StreamByte(base + i - 1)}
  IN IF bad = {} THEN [len |-> Len(b), fb |-> -1, rest |-> <<>>]
     ELSE LET i == CHOOSE x \in bad : \A y \in bad : x <= y
          IN [len |-> Len(b), fb |-> i - 1, rest |-> SubSeq(b, i, Len(b))]
\* the same summary computed on the compact form (base = d.off; head empty)
DRep(d) ==
  LET bad == {j \in 1 .. Len(d.tail) : d.tail[j] # StreamByte(d.off + d.n + j - 1)}
  IN IF bad = {} THEN [len |-> DLen(d), fb |-> -1, rest |-> <<>>]
     ELSE LET j == CHOOSE x \in bad : \A y \in bad : x <= y
          IN [len |-> DLen(d), fb |-> d.n + j - 1, rest |-> SubSeq(d.tail, j, Len(d.tail))]

\* position (1-based) of the first newline of the compact form when it lies
\* in the stream part, else 0 ("not decided here")
DFirstNLInStream(d) ==
  LET c == {i \in 1 .. PMin(d.n, 17) : StreamByte(d.off + i - 1) = NL}
  IN IF c = {} THEN 0 ELSE CHOOSE x \in c : \A y \in c : x <= y

-----------------------------------------------------------------------------
(* 1b. WHAT A SCRIPT MUST SHOW                                             *)
(*                                                                         *)
(* Scripts of the scenario catalogue are terms of a small language; Out    *)
(* and Val give their meaning at the level of byte strings (in compact     *)
(* form), which is all that C14 speaks about:                              *)
(*   - a pipeline delivers the output of its first command unchanged (the  *)
(*     other stages of the catalogue are copying filters);                 *)
(*   - "$(cmd)" is the output of cmd minus the trailing newlines;          *)
(*   - a here-document delivers its body byte for byte.                    *)
(* Render (module Gen_Pipe) turns the same term into the script text, so   *)
(* the harness needs no knowledge of the scenario kinds.                   *)

\* Terms have one uniform shape (TLC compares the elements of a set):
\*   [k kind, n number, c bytes, fs filter names, ch sub-terms, flag]
Term(k, n, c, fs, ch, flag) == [k |-> k, n |-> n, c |-> c, fs |-> fs, ch |-> ch, flag |-> flag]
\* words
WLit(c)   == Term("lit", 0, c, <<>>, <<>>, FALSE)              \* a single-quoted literal
WSub(cmd) == Term("sub", 0, <<>>, <<>>, <<cmd>>, FALSE)        \* "$(cmd)"
\* commands (producers of a byte stream on standard output)
CEmit(n, word)  == Term("emit", n, <<>>, <<>>, <<word>>, FALSE)   \* emit n WORD : n stream bytes, then WORD
CPipe(cmd, fs)  == Term("pipe", 0, <<>>, fs, <<cmd>>, FALSE)      \* cmd | f1 | f2 ...  (copying filters)
CSeq(a, b)      == Term("seq", 0, <<>>, <<>>, <<a, b>>, FALSE)    \* { a; b; }
CHere(n, t, fs) == Term("here", n, t, fs, <<>>, FALSE)            \* cat <<'EOF' | f1 ...  with body stream(n) \o t
CEmitB(c)       == Term("emitb", 0, c, <<>>, <<>>, FALSE)          \* emitb HEX : the bytes c verbatim (any value 1..255)
CEmitO(off, n)  == Term("emito", n, <<off>>, <<>>, <<>>, FALSE)    \* emito OFF N : stream bytes off .. off+n-1
\* scenarios (how the result is observed)
FSink(cmd, direct) == Term("sink", 0, <<>>, <<>>, <<cmd>>, direct)  \* cmd | csink t        (direct: csink t <<'EOF')
FFile(cmd)         == Term("file", 0, <<>>, <<>>, <<cmd>>, FALSE)   \* cmd > f; csink t < f
FVar(word)         == Term("var", 0, <<>>, <<>>, <<word>>, FALSE)   \* v=WORD; val t "$v"
FArg(word)         == Term("arg", 0, <<>>, <<>>, <<word>>, FALSE)   \* val t WORD
FVarHere(cmd)      == Term("varhere", 0, <<>>, <<>>, <<cmd>>, FALSE) \* v=$(cat <<'EOF' ...); val t "$v"
FHWord(word)       == Term("hword", 0, <<>>, <<>>, <<word>>, FALSE) \* csink t <<EOF / $(cmd) / EOF
FRead(cmd, rest)   == Term("read", 0, <<>>, <<>>, <<cmd>>, rest)    \* cmd | { read -r x; val x "$x"; [csink t OFF;] }
FPar(c1, c2)       == Term("par", 0, <<>>, <<>>, <<c1, c2>>, FALSE) \* c1 | csink a & c2 | csink b; wait
\* the pipeline is started while some of the descriptors 0, 1, 2 are closed
\* (code = 1 stdin + 2 stdout + 4 stderr), so that pipe() hands out 0/1/2 as
\* pipe ends; the last stage writes to descriptor 3, a file read afterwards
FClosed(cmd, code) == Term("closed", code, <<>>, <<>>, <<cmd>>, FALSE) \* { cmd >&3; } 3>f <&- >&-; csink t < f
\* DESCRIPTOR TABLE AT THE TIME A PIPE IS CREATED: any scenario run while a
\* subset of the descriptors 0, 1, 2 is closed (n = 1 stdin + 2 stdout +
\* 4 stderr), so that the pipes of command substitutions, of every pipeline
\* stage and the files of here-documents get the numbers 0 / 1 / 2; flag:
\* closed with `exec` for the rest of the script instead of for a brace
\* group.  The payload must arrive all the same.
FEnv(sc, code, ex) == Term("env", code, <<>>, <<>>, <<sc>>, ex)   \* { sc; } <&- >&- 2>&-   |  exec <&- ...; sc
\* command substitution whose output is not valid UTF-8
FVarU(word)        == Term("varu", 0, <<>>, <<>>, <<word>>, FALSE)  \* v=WORD; valu t "$v"

Undefined == DH(<<0>>, -1, 0, <<>>)       \* the term is outside the compact form (never generated)

\* d1 followed by d2, when the result has the compact form
DJoin(d1, d2) == IF d2.n = 0 THEN DCat(d1, d2.head \o d2.tail)
                 ELSE IF d1.n = 0 THEN [d2 EXCEPT !.head = d1.head \o d1.tail \o @]
                 ELSE IF d1.tail = <<>> /\ d2.head = <<>> /\ d2.off = d1.off + d1.n
                 THEN [d1 EXCEPT !.n = d1.n + d2.n, !.tail = d2.tail]
                 ELSE Undefined

RECURSIVE Out(_), Val(_)
Out(cmd) == CASE cmd.k = "emit" -> LET v == Val(cmd.ch[1])
                                   IN IF cmd.n = 0 THEN v
                                      ELSE IF v.n = 0 THEN D(0, cmd.n, v.head \o v.tail) ELSE Undefined
              [] cmd.k = "pipe" -> Out(cmd.ch[1])
              [] cmd.k = "seq"  -> DJoin(Out(cmd.ch[1]), Out(cmd.ch[2]))
              [] cmd.k = "here" -> D(0, cmd.n, cmd.c)
              [] cmd.k = "emitb" -> D(0, 0, cmd.c)
              [] cmd.k = "emito" -> D(cmd.c[1], cmd.n, <<>>)
Val(word) == IF word.k = "lit" THEN D(0, 0, word.c) ELSE DStrip(Out(word.ch[1]))

\* `read -r x` on input d whose first newline lies in the stream part:
\* x is the first line, the rest of the input stays in the pipe.
ReadLine(d) == LET k == DFirstNLInStream(d) IN D(d.off, k - 1, <<>>)
ReadRest(d) == LET k == DFirstNLInStream(d) IN D(d.off + k, d.n - k, d.tail)

\* INVALID UTF-8 in the output of a command substitution.  POSIX does not
\* define how bytes that do not form characters are decoded, so only what C14
\* needs is stated: nothing VALID is lost or reordered.  In the catalogue every
\* byte >= 128 belongs to an invalid sequence (a "marker"); an implementation
\* may replace a marker by one or more U+FFFD or drop it.  The sink probe
\* `valu` removes every U+FFFD from the value; what remains must be the valid
\* bytes, in order, minus trailing newlines -- where the implementation that
\* replaces stops stripping at a marker (upper bound a) and the one that drops
\* strips through it (lower bound s).
Clean(d) == [d EXCEPT !.head = SelectSeq(@, LAMBDA b : b < 128), !.tail = SelectSeq(@, LAMBDA b : b < 128)]
UReps(v) == LET a == Clean(v)
                s == DStrip(a)
            IN {DRep(DTrim(a, k)) : k \in 0 .. (DLen(a) - DLen(s))}

\* Expected observations of a scenario: the set of [tag, off, reps] that the
\* sink probes (`csink TAG OFF`, `val TAG VALUE OFF`) must report, each
\* exactly once, with a summary in reps (one element except for invalid
\* UTF-8); lossy = a writer may legitimately see EPIPE because the consumer
\* stops reading.  off = -1: outside the compact form (never generated).
Obs(tag, d) == [tag |-> tag, off |-> IF d.head = <<>> THEN d.off ELSE -1, reps |-> {DRep(d)}]
RECURSIVE Expect(_)
Expect(sc) ==
  CASE sc.k = "env" -> Expect(sc.ch[1])
    [] sc.k \in {"sink", "file", "closed"} -> {Obs("t", Out(sc.ch[1]))}
    [] sc.k \in {"var", "arg"}   -> {Obs("t", Val(sc.ch[1]))}
    [] sc.k = "varu"             -> LET v == Val(sc.ch[1])
                                    IN {[tag |-> "t", off |-> IF Clean(v).head = <<>> THEN v.off ELSE -1, reps |-> UReps(v)]}
    [] sc.k = "varhere"          -> {Obs("t", DStrip(Out(sc.ch[1])))}
    [] sc.k = "hword"            -> {Obs("t", DCat(Val(sc.ch[1]), <<NL>>))}
    [] sc.k = "read"             -> {Obs("x", ReadLine(Out(sc.ch[1])))}
                                      \cup (IF sc.flag THEN {Obs("t", ReadRest(Out(sc.ch[1])))} ELSE {})
    [] sc.k = "par"              -> {Obs("a", Out(sc.ch[1])), Obs("b", Out(sc.ch[2]))}
RECURSIVE Lossy(_)
Lossy(sc) == IF sc.k = "env" THEN Lossy(sc.ch[1]) ELSE sc.k = "read" /\ ~sc.flag

-----------------------------------------------------------------------------
(* 2. KERNEL RULES                                                         *)

XBLOCK == -1      \* the request cannot be satisfied now: block, or EAGAIN if O_NONBLOCK
XEPIPE == -2      \* write to a pipe that has no reader

Room(occ) == PIPE_SIZE - occ

\* One write request of n > 0 bytes to a pipe holding occ bytes with nr open
\* read ends.  POSIX write(): requests of PIPE_BUF bytes or less are not
\* interleaved (all or nothing); O_NONBLOCK: a request of at most PIPE_BUF
\* bytes either transfers everything or fails with EAGAIN; a larger request
\* transfers what it can, or fails with EAGAIN if nothing fits.  Result:
\* the number of bytes transferred now, XBLOCK or XEPIPE.
WriteXfer(occ, nr, n) ==
  IF nr = 0 THEN XEPIPE
  ELSE IF Room(occ) >= n THEN n
  ELSE IF Room(occ) = 0 \/ n <= PIPE_BUF THEN XBLOCK
  ELSE Room(occ)

\* One read request for up to n bytes: min(n, available); end-of-file (0)
\* when the pipe is empty and no write end is open; otherwise block/EAGAIN.
ReadXfer(occ, nw, n) ==
  IF n = 0 THEN 0
  ELSE IF occ > 0 THEN PMin(n, occ)
  ELSE IF nw = 0 THEN 0 ELSE XBLOCK

\* select(): a descriptor is ready when a request would not block.  For the
\* write end the request size is unknown to select, so "ready" means that a
\* request of any size makes progress, i.e. room for an atomic request
\* (yash-env: FileBody::is_ready_for_writing, documented as such).
ReadyR(occ, nw) == nw = 0 \/ occ > 0
ReadyW(occ, nr) == nr = 0 \/ Room(occ) >= PIPE_BUF

=============================================================================
