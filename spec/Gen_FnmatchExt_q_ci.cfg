INIT Init
NEXT Next
VIEW view
CONSTANTS
  Variant = ""
  PNorm <- TokCIt
  PLit <- NoChars
  PMacro <- MacCIt
  PLen = 2
  SAlpha <- StrCIq
  SLen = 3
  CfgSel = "ci"
  Kind = "match"
INVARIANT Emit
