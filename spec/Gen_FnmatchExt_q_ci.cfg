INIT Init
NEXT Next
VIEW view
CONSTANTS
  Variant = ""
  PNorm <- TokCI
  PLit <- NoChars
  PMacro <- MacCI
  PLen = 3
  SAlpha <- StrCI
  SLen = 2
  CfgSel = "ci"
  Kind = "match"
INVARIANT Emit
