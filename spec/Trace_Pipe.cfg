SPECIFICATION TraceSpec
CONSTANTS
  PIPE_BUF = 512
  PIPE_SIZE = 1024
POSTCONDITION Accepted
CHECK_DEADLOCK FALSE
