------------------------------- MODULE VarRef -------------------------------
(***************************************************************************)
(* Reference model of the shell's variable store (property C16), written   *)
(* from the documentation only: the module documentation and the doc       *)
(* comments of the public API in yash-env/src/variable.rs and              *)
(* yash-env/src/variable/main.rs.                                          *)
(*                                                                         *)
(* "A VariableSet is a stack of contexts that can be pushed and popped.    *)
(*  Each context has a map of name-variable pairs.  Variables in a context *)
(*  hide those with the same name in lower contexts."                      *)
(*                                                                         *)
(* State: ctx, a non-empty sequence of contexts (ctx[1] = base context),   *)
(*   ctx[k] = [kind : "R" (regular) | "V" (volatile),                      *)
(*             vars : Names -> Var \cup {Absent},                          *)
(*             pos  : sequence of strings (positional parameters, regular  *)
(*                    contexts only; <<>> in volatile contexts)]           *)
(*   Var = [set |-> TRUE, hv : has a value, val : the value ("" if none),  *)
(*          ex : exported, ro : read-only]                                 *)
(*                                                                         *)
(* Every operation of the public API is a FUNCTION  Apply(c, op) of the    *)
(* state and the call, returning the successor state and the call's        *)
(* result: the documented contract is deterministic (DESIGN.md 4.2), so    *)
(* conformance is equality of the observable projections.                  *)
(*                                                                         *)
(* This module is the ORACLE of C16: spec/VarSet.tla (the implementation-  *)
(* shaped per-name-stack model) is shown by TLC to refine it, and every    *)
(* step observed on the real yash_env::variable::VariableSet is judged by  *)
(* Apply / Project below (spec/Trace_VarSet.tla).                          *)
(***************************************************************************)
EXTENDS Integers, Sequences, FiniteSets, TLC

CONSTANTS Names,     \* set of variable names, a subset of {"x", "y", "z"}
          Vals,      \* set of values (strings) the model assigns
          MaxDepth,  \* bound on the number of contexts (model checking only)
          PosVals,   \* set of positional-parameter lists the model uses
          Thens      \* follow-up actions of the alphabet, a subset of
                     \* {"none", "assign", "export", "ro"} (model checking only)

\* Fixed listing order of names (iter() and env_c_strings() are unordered in
\* the implementation; the harness sorts them the same way).
AllNames == <<"x", "y", "z">>
NameSeq  == SelectSeq(AllNames, LAMBDA n : n \in Names)

Absent == [set |-> FALSE, hv |-> FALSE, val |-> "", ex |-> FALSE, ro |-> FALSE]
Fresh  == [set |-> TRUE,  hv |-> FALSE, val |-> "", ex |-> FALSE, ro |-> FALSE]   \* Variable::default()
NoVars == [n \in Names |-> Absent]

\* positional-parameter alphabets for the configurations (a .cfg file cannot
\* write a set of sequences)
PosNone == {<<>>}
PosSome == {<<>>, <<"1">>, <<"2", "3">>}

Scopes == {"Global", "Local", "Volatile"}

VMax(S) == CHOOSE x \in S : \A y \in S : y <= x

-----------------------------------------------------------------------------
\* Reading

Depth(c)   == Len(c)
\* "The base context is always a regular context", so this is well defined
TopReg(c)  == VMax({k \in 1..Len(c) : c[k].kind = "R"})

\* index of the lowest context a scope covers
ScopeIdx(c, s) == CASE s = "Global"   -> 1
                    [] s = "Local"    -> TopReg(c)
                    [] s = "Volatile" -> TopReg(c) + 1

Holders(c, n) == {k \in 1..Len(c) : c[k].vars[n].set}
VisIdx(c, n)  == IF Holders(c, n) = {} THEN 0 ELSE VMax(Holders(c, n))

\* get: "If variables with the same name are defined in multiple contexts,
\* the one in the topmost context is considered visible and returned."
Lookup(c, n) == IF VisIdx(c, n) = 0 THEN Absent ELSE c[VisIdx(c, n)].vars[n]

\* get_scoped: Global = all contexts; Local = from the topmost to the topmost
\* regular context; Volatile = volatile contexts above the topmost regular one
GetScoped(c, n, s) == IF VisIdx(c, n) >= ScopeIdx(c, s) /\ VisIdx(c, n) > 0
                      THEN Lookup(c, n) ELSE Absent

\* A variable as a compact string (the harness prints the same):
\*   "-" no such variable, else ["E" exported]["R" read-only]["=" value]
VarStr(v) == IF ~v.set THEN "-"
             ELSE (IF v.ex THEN "E" ELSE "") \o (IF v.ro THEN "R" ELSE "")
                  \o (IF v.hv THEN "=" \o v.val ELSE "")

\* iter(scope): Global all variables; Local "variables in the topmost regular
\* context or above"; Volatile "variables above the topmost regular context";
\* "In all cases, the iterator ignores variables hidden by another."
\* Listed as "name:variable" in name order.
IterSeq(c, s) ==
  LET in == SelectSeq(NameSeq, LAMBDA n : GetScoped(c, n, s).set)
  IN [i \in 1..Len(in) |-> in[i] \o ":" \o VarStr(Lookup(c, in[i]))]

\* env_c_strings: the exported (visible) variables that have a value, as
\* "name=value".  A hidden exported variable is not part of the environment.
InEnv(c, n) == LET v == Lookup(c, n) IN v.set /\ v.ex /\ v.hv
EnvSeq(c) ==
  LET in == SelectSeq(NameSeq, LAMBDA n : InEnv(c, n))
  IN [i \in 1..Len(in) |-> in[i] \o "=" \o Lookup(c, in[i]).val]

\* positional_params: "the positional parameters of the topmost regular context"
Pos(c) == c[TopReg(c)].pos

-----------------------------------------------------------------------------
\* Results of calls (mono-typed for the JSON interchange)
\*   st  : "ok" | "err" (AssignError / UnsetError) | "panic" (documented panic)
\*   ret : the variable get_or_new returned (before the follow-up action) or
\*         the variable unset returned; Absent if none
\*   old : previous value returned by a successful assign
NoOld    == [hv |-> FALSE, val |-> ""]
Res(st, ret, old) == [st |-> st, ret |-> ret, old |-> old]
Ok       == Res("ok", Absent, NoOld)
Out(c, r) == [ctx |-> c, res |-> r]

SetVar(c, k, n, v) == [c EXCEPT ![k].vars[n] = v]

-----------------------------------------------------------------------------
\* get_or_new(name, scope): where the returned variable lives afterwards, and
\* the state after the call itself (creation / migration / cloning).
\* Returns [ctx, at] (at = 0: documented panic).

\* Global / Local.  t = lowest context considered (1 or topmost regular).
\*  - existing variable searched for like get, ignoring contexts below t;
\*  - found in a regular context: returned;
\*  - found in a volatile context: removed from the volatile context, search
\*    continues in lower contexts; a variable then found in a regular context
\*    is replaced with the removed one, otherwise the removed one is moved to
\*    context t (base context / topmost regular context);
\*  - none: a new defaulted variable is created in context t.
GonLower(c, n, t) ==
  LET H    == {k \in Holders(c, n) : k >= t}
      regs == {k \in H : c[k].kind = "R"}
      fr   == IF regs = {} THEN 0 ELSE VMax(regs)       \* topmost regular holder
      Vs   == {k \in H : k > fr}                         \* volatile holders above it
      dest == IF fr = 0 THEN t ELSE fr
  IN IF Vs = {}
     THEN IF fr # 0 THEN [ctx |-> c, at |-> fr]
          ELSE [ctx |-> SetVar(c, t, n, Fresh), at |-> t]
     ELSE LET moved == c[VMax(Vs)].vars[n]               \* the visible one
              c1 == TLCEval([k \in 1..Len(c) |->
                       IF k \in Vs THEN [c[k] EXCEPT !.vars[n] = Absent] ELSE c[k]])
          IN [ctx |-> SetVar(c1, dest, n, moved), at |-> dest]

\* Volatile: "requires the topmost context to be volatile.  Otherwise, this
\* method will panic!  ... found in the topmost context: returned; found in a
\* lower context: cloned to the topmost context; none: new defaulted variable
\* in the topmost context."
GonVolatile(c, n) ==
  LET top == Len(c)
  IN IF c[top].kind # "V" THEN [ctx |-> c, at |-> 0]
     ELSE IF VisIdx(c, n) = top THEN [ctx |-> c, at |-> top]
     ELSE IF VisIdx(c, n) > 0 THEN [ctx |-> SetVar(c, top, n, Lookup(c, n)), at |-> top]
     ELSE [ctx |-> SetVar(c, top, n, Fresh), at |-> top]

Gon(c, n, s) == CASE s = "Global"   -> GonLower(c, n, 1)
                  [] s = "Local"    -> GonLower(c, n, TopReg(c))
                  [] s = "Volatile" -> GonVolatile(c, n)

\* get_or_new followed by at most one action on the returned VariableRefMut
\*   then = "none" | "assign" (val) | "export" (flag) | "ro"
\* assign: "fails if this variable is read-only"; otherwise the value is
\* replaced and the previous value returned.  export sets the flag (also on a
\* read-only variable).  make_read_only makes it read-only.
GetOrNew(c, op) ==
  LET g == Gon(c, op.n, op.scope)
  IN IF g.at = 0 THEN Out(c, Res("panic", Absent, NoOld))
     ELSE LET v == g.ctx[g.at].vars[op.n]
          IN CASE op.then = "none"   -> Out(g.ctx, Res("ok", v, NoOld))
               [] op.then = "assign" ->
                    IF v.ro THEN Out(g.ctx, Res("err", v, NoOld))
                    ELSE Out(SetVar(g.ctx, g.at, op.n, [v EXCEPT !.hv = TRUE, !.val = op.val]),
                             Res("ok", v, [hv |-> v.hv, val |-> v.val]))
               [] op.then = "export" ->
                    Out(SetVar(g.ctx, g.at, op.n, [v EXCEPT !.ex = op.flag]), Res("ok", v, NoOld))
               [] op.then = "ro"     ->
                    Out(SetVar(g.ctx, g.at, op.n, [v EXCEPT !.ro = TRUE]), Res("ok", v, NoOld))

\* unset(name, scope): Global "removes the variable from all contexts"; Local
\* "from the topmost regular context and any volatile context above it";
\* Volatile "from any volatile context above the topmost regular context".
\* "the return value is the value in the topmost context.  If any of the
\* removed variables is read-only, this function fails with UnsetError and
\* does not remove any variable."
Unset(c, op) ==
  LET A == {k \in Holders(c, op.n) : k >= ScopeIdx(c, op.scope)}
  IN IF \E k \in A : c[k].vars[op.n].ro THEN Out(c, Res("err", Absent, NoOld))
     ELSE IF A = {} THEN Out(c, Ok)
     ELSE Out(TLCEval([k \in 1..Len(c) |-> IF k \in A THEN [c[k] EXCEPT !.vars[op.n] = Absent] ELSE c[k]]),
              Res("ok", c[VMax(A)].vars[op.n], NoOld))

\* push_context(Context::Regular{positional_params}) / push_context(Volatile)
Push(c, op) ==
  Out(Append(c, [kind |-> op.kind, vars |-> NoVars,
                 pos |-> IF op.kind = "R" THEN op.pos ELSE <<>>]), Ok)

\* dropping the guard: "pop the context" (never the base context)
Pop(c, op) == Out(SubSeq(c, 1, Len(c) - 1), Ok)

\* positional_params_mut(): the topmost regular context's parameters
SetPos(c, op) == Out([c EXCEPT ![TopReg(c)].pos = op.pos], Ok)

Apply(c, op) ==
  CASE op.op = "gon"    -> GetOrNew(c, op)
    [] op.op = "unset"  -> Unset(c, op)
    [] op.op = "push"   -> Push(c, op)
    [] op.op = "pop"    -> Pop(c, op)
    [] op.op = "setpos" -> SetPos(c, op)

\* histories the API admits: the base context is never popped
Legal(c, op) == op.op = "pop" => Len(c) > 1

-----------------------------------------------------------------------------
\* The observable projection (everything the read-only public API exposes),
\* for the context stack as it is and as it would be after each pop:
\* level k = what is observable once the contexts above k have been popped.
\*   k kind of the topmost context, p positional_params(),
\*   v[i] = <<get, get_scoped Local, get_scoped Volatile>> of the i-th name,
\*   ig/il/iv = iter(Global/Local/Volatile), e = env_c_strings()
Level(c) ==
  [k  |-> c[Len(c)].kind,
   p  |-> Pos(c),
   v  |-> [i \in 1..Len(NameSeq) |->
             <<VarStr(Lookup(c, NameSeq[i])),
               VarStr(GetScoped(c, NameSeq[i], "Local")),
               VarStr(GetScoped(c, NameSeq[i], "Volatile"))>>],
   ig |-> IterSeq(c, "Global"),
   il |-> IterSeq(c, "Local"),
   iv |-> IterSeq(c, "Volatile"),
   e  |-> EnvSeq(c)]

Project(c) == [k \in 1..Len(c) |-> Level(SubSeq(c, 1, k))]

\* decoding of variable strings (the values a trace may contain: TraceVals)
VarUniverse(V) == {Absent} \cup [set : {TRUE}, hv : {FALSE}, val : {""}, ex : BOOLEAN, ro : BOOLEAN]
                           \cup [set : {TRUE}, hv : {TRUE}, val : V, ex : BOOLEAN, ro : BOOLEAN]
DecodeTable == [s \in {VarStr(v) : v \in VarUniverse(Vals)} |->
                  CHOOSE v \in VarUniverse(Vals) : VarStr(v) = s]
\* a string outside the table decodes to a variable that does not print back
\* to it, so that the observation is judged incoherent (never a tool error)
Decode(s) == IF s \in DOMAIN DecodeTable THEN DecodeTable[s]
             ELSE [set |-> TRUE, hv |-> TRUE, val |-> "?" \o s, ex |-> FALSE, ro |-> FALSE]

\* Reconstruction of a model state from an observation.  In a regular context
\* k the Local scope starts at k, in a volatile context directly above a
\* regular one the Volatile scope starts at k, so membership in ctx[k] is
\* observed exactly.  A volatile context directly above another volatile one
\* holds the name iff the visible variable changes when it is popped; the
\* remaining case (a copy identical to the one below, as left by a bare
\* get_or_new(Volatile)) is observationally equivalent to "not held": every
\* operation treats both alike (clone-then-modify = modify the clone).
NameIdx(n) == CHOOSE i \in 1..Len(NameSeq) : NameSeq[i] = n
Abstract(o) ==
  TLCEval([k \in 1..Len(o) |->
     [kind |-> o[k].k,
      pos  |-> IF o[k].k = "R" THEN o[k].p ELSE <<>>,
      vars |-> TLCEval([n \in Names |->
                 LET e == o[k].v[NameIdx(n)]
                     held == IF o[k].k = "R" THEN e[2] # "-"
                             ELSE /\ e[3] # "-"
                                  /\ IF o[k - 1].k = "R" THEN TRUE
                                     ELSE LET b == o[k - 1].v[NameIdx(n)]
                                          IN b[3] = "-" \/ b[1] # e[1]
                 IN IF held THEN Decode(e[1]) ELSE Absent])]])
\* (TLCEval: TLC keeps a function constructor as an unevaluated closure and
\* would re-evaluate its body at every application)

\* An observation is coherent iff it is the projection of some model state:
\* get_scoped agrees with get, iter lists exactly the visible variables of the
\* scope, the environment is exactly the exported visible variables that have
\* a value, the base context is regular.
Shaped(o) == /\ Len(o) >= 1 /\ o[1].k = "R"
             /\ \A k \in 1..Len(o) : o[k].k \in {"R", "V"} /\ Len(o[k].v) = Len(NameSeq)
Coherent(o) == Shaped(o) /\ Project(Abstract(o)) = o

ResStr(r) == [st |-> r.st, ret |-> VarStr(r.ret), old |-> IF r.old.hv THEN "=" \o r.old.val ELSE "-"]

\* One observed call {pre, op, res, post, pn}: the judgement of C16.
\*  - a documented panic (get_or_new(Volatile) without a volatile context on
\*    top) must happen exactly when documented; nothing is required of the
\*    state afterwards;
\*  - no other call may panic;
\*  - otherwise result and successor observation are those of the model.
\* Verdict: "ok", or which part differs.
\* (coh = Coherent(pre), c = Abstract(pre), passed in so that they are
\* computed once for all the steps taken from the same pre-state)
VerdictC(coh, c, op, res, pn, post) ==
  IF ~coh THEN "pre"
  ELSE LET r == Apply(c, op)
       IN IF r.res.st = "panic" THEN (IF pn THEN "ok" ELSE "nopanic")
          ELSE IF pn THEN "panic"
          ELSE IF res # ResStr(r.res) THEN "res"
          ELSE IF post # Project(r.ctx) THEN "post"
          ELSE "ok"
Verdict(pre, op, res, pn, post) == VerdictC(Coherent(pre), Abstract(pre), op, res, pn, post)

-----------------------------------------------------------------------------
\* The model as a state machine (bounded alphabet), for TLC
VARIABLE ctx

Ops ==
  [op : {"gon"}, n : Names, scope : Scopes, then : {"none", "ro"} \cap Thens, val : {""}, flag : {FALSE}]
  \cup [op : {"gon"}, n : Names, scope : Scopes, then : {"assign"} \cap Thens, val : Vals, flag : {FALSE}]
  \cup [op : {"gon"}, n : Names, scope : Scopes, then : {"export"} \cap Thens, val : {""}, flag : BOOLEAN]
  \cup [op : {"unset"}, n : Names, scope : Scopes]
  \cup [op : {"push"}, kind : {"R"}, pos : PosVals]
  \cup [op : {"push"}, kind : {"V"}, pos : {<<>>}]
  \cup [op : {"pop"}]
  \cup [op : {"setpos"}, pos : PosVals]

\* operations the bounded model takes in state c
Enabled(c, op) ==
  /\ Legal(c, op)
  /\ op.op = "push" => Len(c) < MaxDepth
  /\ op.op = "setpos" => op.pos # Pos(c)

InitCtx == <<[kind |-> "R", vars |-> NoVars, pos |-> <<>>]>>

Init == ctx = InitCtx
Next == \E op \in Ops : Enabled(ctx, op) /\ ctx' = Apply(ctx, op).ctx
Spec == Init /\ [][Next]_ctx

TypeOK ==
  /\ Len(ctx) \in 1..MaxDepth
  /\ ctx[1].kind = "R"
  /\ \A k \in 1..Len(ctx) :
       /\ ctx[k].kind \in {"R", "V"}
       /\ ctx[k].kind = "V" => ctx[k].pos = <<>>
       /\ \A n \in Names : LET v == ctx[k].vars[n]
                           IN IF v.set THEN (v.hv \/ v.val = "") ELSE v = Absent

-----------------------------------------------------------------------------
\* The invariants of the property, on the reference model

\* projection and reconstruction are inverse up to observational equivalence
ProjectionFaithful == Coherent(Project(ctx))

\* ... and the reconstruction is sound for judging steps: every operation has
\* the same result and the same observable successor from the reconstructed
\* state as from the state itself (observational equivalence is a bisimulation)
AbstractionSound ==
  \A op \in Ops :
    Legal(ctx, op) =>
      LET r1 == Apply(ctx, op)
          r2 == Apply(Abstract(Project(ctx)), op)
      IN /\ ResStr(r1.res) = ResStr(r2.res)
         /\ r1.res.st # "panic" => Project(r1.ctx) = Project(r2.ctx)

\* the environment is exactly the exported visible variables with their values
EnvExact ==
  LET e == EnvSeq(ctx)
      S == {e[i] : i \in 1..Len(e)}
      innermost(n) == ctx[VMax(Holders(ctx, n))].vars[n]
      X == {n \in Names : Holders(ctx, n) # {} /\ innermost(n).ex /\ innermost(n).hv}
  IN /\ S = {n \o "=" \o innermost(n).val : n \in X}
     /\ Len(e) = Cardinality(X)

\* A read-only variable is never modified or unset by any means: as long as
\* its context lives, the variable stays where it is with its value; the one
\* exception the documentation makes is a read-only variable of a volatile
\* context, which get_or_new(Global|Local) MOVES (with value and attribute)
\* to a regular context below.
ReadOnlyStep(c, d) ==
  \A k \in 1..Len(c) : \A n \in Names :
    (c[k].vars[n].ro /\ k <= Len(d)) =>
      \/ /\ d[k].vars[n].ro /\ d[k].vars[n].hv = c[k].vars[n].hv /\ d[k].vars[n].val = c[k].vars[n].val
      \/ /\ c[k].kind = "V"
         /\ \E j \in 1..(k - 1) : /\ d[j].kind = "R"
                                  /\ d[j].vars[n].ro /\ d[j].vars[n].hv = c[k].vars[n].hv
                                  /\ d[j].vars[n].val = c[k].vars[n].val
ReadOnlyNeverChanges == [][ReadOnlyStep(ctx, ctx')]_ctx

\* the visible value of a read-only visible variable can only change by
\* pushing/popping a context or by hiding it with a new variable of an upper
\* context -- never through the variable itself: whenever the visible variable
\* stays in the same context it keeps its value
ReadOnlyVisibleStep(c, d) ==
  \A n \in Names :
    (Lookup(c, n).ro /\ Len(d) = Len(c) /\ VisIdx(d, n) = VisIdx(c, n)) =>
       /\ Lookup(d, n).ro /\ Lookup(d, n).val = Lookup(c, n).val /\ Lookup(d, n).hv = Lookup(c, n).hv
ReadOnlyVisible == [][ReadOnlyVisibleStep(ctx, ctx')]_ctx

\* Local and Volatile operations never touch a context below the topmost
\* regular context ("any contexts below the topmost regular context are
\* ignored"): locals never leak into the caller
ScopedOpsAreLocal ==
  \A op \in Ops : (op.op \in {"gon", "unset"} /\ op.scope # "Global") =>
     LET d == Apply(ctx, op).ctx
     IN \A k \in 1..(TopReg(ctx) - 1) : d[k] = ctx[k]

\* Pop restores exactly the state below: popping after any operation equals
\* the operation's effect on the lower contexts only
PopRestores ==
  Len(ctx) > 1 =>
    LET below == SubSeq(ctx, 1, Len(ctx) - 1)
    IN /\ Apply(ctx, [op |-> "pop"]).ctx = below
       /\ \A n \in Names : Lookup(Apply(ctx, [op |-> "pop"]).ctx, n) = Lookup(below, n)
=============================================================================
