SPECIFICATION Spec
CONSTANTS
  Cfg = "neg"
  Bug = "none"
  Sim = TRUE
INVARIANT TypeOK
