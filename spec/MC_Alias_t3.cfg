SPECIFICATION Spec
CONSTANTS
  NameSeq <- NameSeq3
  GlobalNames = {}
  LineFam = "t"
  Prune = TRUE
INVARIANT NoSelfNesting
INVARIANT ChainsSound
INVARIANT Deterministic
INVARIANT VariantNat
INVARIANT Emit
PROPERTY VariantDecreases
PROPERTY OnlyEligibleReplaced
