\* G08 enumeration: family calls, quick
SPECIFICATION Spec
VIEW View
CONSTANTS
  Family = "calls"
  Depth = 2
  Level = "quick"
INVARIANT Emit
