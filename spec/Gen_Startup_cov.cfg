SPECIFICATION Spec
CONSTANT Fams = {"vars", "portable", "files"}
CONSTANT Deep = 0
CONSTANT Variant = ""
INVARIANT Check
