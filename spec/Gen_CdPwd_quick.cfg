\* G01 enumeration, quick: plain + links trees, states within 1 successful cd command
INIT Init
NEXT Next
VIEW View
CONSTANTS
  Depth = 1
  TreeIds = {"plain", "links"}
  Level = "quick"
INVARIANT Emit
