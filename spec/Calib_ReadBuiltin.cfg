SPECIFICATION Spec
