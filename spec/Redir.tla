------------------------------- MODULE Redir -------------------------------
(***************************************************************************)
(* DRIVER model of property C09: how the shell applies a redirection list  *)
(* to one command, one action per step of yash-semantics/src/redir.rs      *)
(* `perform` / RedirGuard (check reserved target, save the target with     *)
(* F_DUPFD_CLOEXEC >= 10, open the operand, install it with dup2 / close,  *)
(* record the saved copy), then per command kind run / undo in reverse     *)
(* order / preserve (`exec`), and the error continuations of builtin.rs,   *)
(* function.rs, external.rs, absent.rs and compound_command.rs; `exec`     *)
(* with operands whose utility cannot be executed (the redirections are    *)
(* kept all the same; the shell then ends unless it is interactive), and   *)
(* the interactive shell, which survives the errors of special built-ins.  *)
(* For the                                                                 *)
(* dot built-in (`. file`, `command . file`) the shell's own descriptor    *)
(* traffic is modelled too: open the script low, move it to >= 10 with     *)
(* FD_CLOEXEC (yash-env/src/io.rs move_fd_internal: the low descriptor is  *)
(* closed whether or not the move succeeds), run, close.                   *)
(*                                                                         *)
(* The model is written from the INTENDED protocol: a step that fails      *)
(* releases what the earlier steps of the same redirection acquired.  The  *)
(* named wrong actions (constant Bug) are the deviations TLC must catch.   *)
(*                                                                         *)
(* Each behaviour is one scenario (chosen in Init): initial descriptor     *)
(* table and files, noclobber, RLIMIT_NOFILE, command kind, redirection    *)
(* list.  At the end the behaviour is turned into the same observation     *)
(* record the harness produces from the real shell, and the ORACLE         *)
(* (RedirAbs!Verdict) judges it: invariant Conforms.  The record is also   *)
(* printed (Emit): the harness replays the scenario on the real shell.     *)
(***************************************************************************)
EXTENDS Fds, RedirAbs, Json

CONSTANTS Cfg,     \* name of the configuration (see Parts, Fam)
          Bug,     \* "none" or the name of a wrong action
          Sim      \* how open() orders EMFILE and its side effects, which POSIX leaves
                   \* open: TRUE = create/truncate first (VirtualSystem), FALSE = EMFILE first

VARIABLES sc,      \* the scenario (constant along a behaviour)
          k,       \* kernel state of the process applying the redirections
          pc,      \* control state
          i,       \* index of the redirection being applied
          saved,   \* RedirGuard.saved_fds: sequence of [orig, save] (save = -1: none)
          cur,     \* saved copy of the redirection in progress (-1: none)
          spec,    \* FdSpec: [own, fd]  (fd = -1: Closed)
          failed,  \* index of the failing redirection, 0 if none
          ran, obsIn, wr,   \* observation made by the command body
          st, exited,       \* status after the command; shell exited
          dotfd             \* descriptor the dot built-in reads its script from (-1: none)
vars == <<sc, k, pc, i, saved, cur, spec, failed, ran, obsIn, wr, st, exited, dotfd>>

-----------------------------------------------------------------------------
\* files: a, b regular; m missing; d directory; t character device; s, x the
\* shell's script and the dot script (content not made of units: "!!")
PathOrder == <<"a", "b", "m", "d", "t", "si", "so", "se", "s", "x">>
Files0 == [p \in {"a", "b", "m", "d", "t", "si", "so", "se", "s", "x"} |->
             CASE p = "a" -> [kind |-> "reg", data |-> <<"x0", "y0">>]
               [] p = "b" -> [kind |-> "reg", data |-> <<"z0">>]
               [] p = "m" -> [kind |-> "none", data |-> <<>>]
               [] p = "d" -> [kind |-> "dir", data |-> <<>>]
               [] p = "t" -> [kind |-> "chr", data |-> <<>>]
               [] p = "x" -> [kind |-> "reg", data |-> <<"!!">>]
               [] OTHER   -> [kind |-> "reg", data |-> <<>>]]

FdE(id) == [id |-> id, cx |-> FALSE]
Std == (0 :> FdE(0)) @@ (1 :> FdE(1)) @@ (2 :> FdE(2))
\* (VirtualSystem opens its three standard descriptors with O_APPEND)
StdOfd == (0 :> NewOfd("si", TRUE, TRUE, TRUE, <<>>)) @@ (1 :> NewOfd("so", TRUE, TRUE, TRUE, <<>>))
          @@ (2 :> NewOfd("se", TRUE, TRUE, TRUE, <<>>))

\* initial descriptor tables
\*  std : 0 1 2                          x35 : + 3 reading a, 5 appending to b
\*  full: 0..9 all open (3..9 reading a) int : + 10 = the shell's own script file
InitFd(init) ==
  CASE init = "std"  -> Std
    [] init = "x35"  -> (3 :> FdE(3)) @@ (5 :> FdE(4)) @@ Std
    [] init = "full" -> [f \in 3 .. 9 |-> FdE(f)] @@ Std
    [] init = "int"  -> (10 :> [id |-> 3, cx |-> TRUE]) @@ Std
InitOfd(init) ==
  CASE init = "std"  -> StdOfd
    [] init = "x35"  -> (3 :> NewOfd("a", TRUE, FALSE, FALSE, <<>>))
                        @@ (4 :> NewOfd("b", FALSE, TRUE, TRUE, <<>>)) @@ StdOfd
    [] init = "full" -> [x \in 3 .. 9 |-> NewOfd("a", TRUE, FALSE, FALSE, <<>>)] @@ StdOfd
    [] init = "int"  -> (3 :> NewOfd("s", TRUE, FALSE, FALSE, <<>>)) @@ StdOfd

\* (cnt: system calls made so far, per kind, for the fault injection)
Calls == {"open", "tmp", "dup", "write", "lseek"}
K0(s) == [fd |-> InitFd(s.init), ofd |-> InitOfd(s.init), file |-> Files0,
          lim |-> s.lim, next |-> 20, cnt |-> [c \in Calls |-> 0]]

-----------------------------------------------------------------------------
\* redirection alphabet
R(t, op, path, n) == [t |-> t, op |-> op, path |-> path, n |-> n,
                      data |-> IF op = "here" THEN <<"h1", "h2">> ELSE <<>>]
FileOps == {"in", "out", "clob", "app", "rw"}
Alpha(Ts, Ops, Ps, Ns, Misc) ==
  {R(t, op, p, -1) : t \in Ts, op \in Ops \cap FileOps, p \in Ps}
  \cup {R(t, op, "", n) : t \in Ts, op \in Ops \cap {"dupin", "dupout"}, n \in Ns}
  \cup {R(t, op, "", -1) : t \in Ts, op \in Misc}

AllOps  == FileOps \cup {"dupin", "dupout"}
AllT    == {0, 1, 2, 3, 5}
AllMisc == {"closein", "closeout", "here"}
\* every operator x every operand kind x every target
Full1   == Alpha(AllT, AllOps, {"a", "m", "d", "t"}, {1, 3, 4, 5, 10}, AllMisc)
\* reduced alphabets for lists of two and three
Small   == Alpha({1, 2}, {"out", "app"}, {"a", "m"}, {}, {"closeout"})
           \cup Alpha({1, 2}, {"in"}, {"m"}, {}, {})
           \cup Alpha({1, 2}, {"dupout"}, {}, {1, 2, 3}, {})
           \cup {R(3, "in", "a", -1), R(3, "out", "m", -1), R(3, "dupout", "", 1)}
           \cup Alpha({0}, {"in", "dupin"}, {"m"}, {3, 10}, {"here"})
Mid     == Alpha({1, 3}, AllOps, {"a", "m", "d"}, {1, 2, 3, 4, 10}, {"closeout", "here"})
           \cup Alpha({0}, {"in", "rw", "dupin"}, {"a", "m"}, {3, 5, 10}, {"closein", "here"})
Lim1    == Alpha({1, 3, 5}, AllOps, {"a", "m"}, {1, 4, 10}, {"closeout", "here"})

AllKinds  == {"special", "builtin", "function", "group", "subshell", "notfound", "empty", "exec",
              "dot", "cmddot"}
DotKinds  == {"dot", "cmddot"}
CoreKinds == {"builtin", "special", "exec", "empty"}
\* (ExecOpKinds - `exec` with operands, one kind per way the utility cannot be
\* executed - is defined in RedirAbs)

\* fault injection: the n-th system call of kind `call` that the shell makes
\* for the command fails (with `errno`: any error that says nothing about the
\* state of the descriptors)
NoFault == [call |-> "none", n |-> 0, errno |-> "EIO"]
Sc(init, nc, lim, kind, bst, list) ==
  [init |-> init, nc |-> nc, lim |-> lim, kind |-> kind, bst |-> bst, list |-> list, fault |-> NoFault,
   inter |-> FALSE]
\* the same scenarios in an interactive shell
Inter(F) == {[s EXCEPT !.inter = TRUE] : s \in F}

Seq1(A)       == {<<a>> : a \in A}
Seq2(A, B)    == {<<a, b>> : a \in A, b \in B}
Seq3(A, B, C) == {<<a, b, c>> : a \in A, b \in B, c \in C}

\* exit statuses the command body ends with (3 = "the command failed")
Bst(kind, both) == IF both /\ kind \in {"builtin", "function", "group"} THEN {0, 3} ELSE {0}

Family(inits, ncs, lims, kinds, both, lists) ==
  {s \in {Sc(init, nc, lim, kind, b, l) :
            init \in inits, nc \in ncs, lim \in lims, kind \in kinds, b \in {0, 3}, l \in lists}
     : s.bst \in Bst(s.kind, both)}

All4   == {"std", "x35", "full", "int"}

\* the same with a fault
FaultFamily(inits, ncs, kinds, lists, faults) ==
  {[s EXCEPT !.fault = f] : s \in Family(inits, ncs, {NoLimit}, kinds, FALSE, lists), f \in faults}
Faults == {[call |-> c, n |-> n, errno |-> "EIO"] : c \in Calls, n \in {1, 2}}
          \cup {[call |-> "write", n |-> 1, errno |-> "ENOSPC"], [call |-> "open", n |-> 1, errno |-> "EINTR"],
                [call |-> "dup", n |-> 1, errno |-> "ENFILE"], [call |-> "tmp", n |-> 1, errno |-> "ENOMEM"]}
HereSmall == {R(0, "here", "", -1), R(3, "here", "", -1), R(1, "out", "a", -1), R(1, "app", "m", -1),
              R(2, "dupout", "", 1), R(0, "in", "m", -1)}
FaultLists == Seq1(Alpha({0, 1, 3}, AllOps, {"a", "m"}, {1, 4}, {"closeout", "here"}))
              \cup Seq2(HereSmall, HereSmall) \cup {<<>>}

\* Scenario families.  (A configuration is a set of families rather than their
\* union: TLC's union of two large enumerated sets is quadratic.)
Fam(c) ==
  \* family of the negative configurations (Bug # "none")
  CASE c = "neg"  -> Family({"std", "x35"}, BOOLEAN, {NoLimit}, {"builtin", "exec"}, FALSE,
                            Seq1(Small \cup Alpha({1}, {"clob"}, {"a"}, {}, {})) \cup Seq2(Small, Small))
    [] c = "negflt" -> FaultFamily({"std"}, {FALSE}, {"builtin", "exec"}, Seq1(HereSmall) \cup Seq2(HereSmall, HereSmall),
                                   Faults)
    [] c = "negdot" -> Family({"std", "int"}, {FALSE}, {9, 10, 11, 12}, DotKinds, FALSE,
                              Seq1(Small) \cup {<<>>})
    \* `exec` with operands in an interactive shell (Bug = "dropop")
    [] c = "negop" -> Inter(Family({"std", "x35"}, {FALSE}, {NoLimit}, {"execnf", "execne"}, FALSE,
                                   Seq1(Small) \cup Seq2(Small, Small)))
    \* quick -----------------------------------------------------------------
    \* every single redirection x every command kind, no limit
    [] c = "q1a" -> Family({"std", "x35"}, BOOLEAN, {NoLimit}, AllKinds, TRUE, Seq1(Full1) \cup {<<>>})
    [] c = "q1b" -> Family({"full", "int"}, {FALSE}, {NoLimit}, CoreKinds, TRUE,
                           Seq1(Alpha({0, 1, 3}, AllOps, {"a", "m"}, {1, 4, 10}, AllMisc)))
    \* the target itself is a descriptor reserved by the shell (10 = its script file)
    [] c = "resv" -> Family({"int"}, {FALSE}, {NoLimit}, CoreKinds, FALSE,
                           Seq1(Alpha({10}, {"in", "out", "dupout"}, {"a"}, {1}, {"closeout", "here"})))
    \* single redirections under every descriptor limit
    [] c = "q2" -> Family(All4, {FALSE}, 0 .. 13, {"builtin", "exec", "empty"} \cup DotKinds, FALSE,
                          Seq1(Lim1) \cup {<<>>})
    \* pairs, no limit
    [] c = "q3" -> Family({"std", "x35"}, BOOLEAN, {NoLimit}, CoreKinds \cup {"function"}, FALSE,
                          Seq2(Small, Small))
    \* pairs under the limits where the first / the second saved copy does not fit
    [] c = "q4" -> Family({"std", "int"}, {FALSE}, {10, 11, 12}, {"builtin", "exec", "empty", "cmddot"}, FALSE,
                          Seq2(Small, Small))
    \* every system call of a redirection fails in turn (fault injection)
    [] c = "qf" -> FaultFamily({"std", "int"}, {FALSE}, {"builtin", "exec", "empty", "notfound"} \cup DotKinds,
                               FaultLists, Faults)
    \* the interactive shell: every single redirection on the commands whose errors
    \* end a non-interactive shell, and on `exec` with operands
    [] c = "qi1" -> Inter(Family({"std", "x35"}, BOOLEAN, {NoLimit},
                                 {"special", "exec", "dot", "execnf", "execne", "execxf"}, FALSE,
                                 Seq1(Full1) \cup {<<>>}))
    \* ... the other command kinds and ways not to be executable
    [] c = "qi2" -> Inter(Family({"std"}, {FALSE}, {NoLimit},
                                 (AllKinds \ {"special", "exec", "dot"}) \cup {"execnx", "execdir"}, FALSE,
                                 Seq1(Lim1) \cup {<<>>}))
    \* ... pairs
    [] c = "qi3" -> Inter(Family({"std", "x35"}, {FALSE}, {NoLimit}, {"execnf", "execxf"}, FALSE,
                                 Seq2(Small, Small)))
    \* ... under the limits where a saved copy does not fit
    [] c = "qi4" -> Inter(Family({"std"}, {FALSE}, {10, 11, 12}, {"execnf", "exec"}, FALSE, Seq1(Lim1)))
    \* ... every system call of a redirection fails in turn
    [] c = "qfi" -> Inter(FaultFamily({"std"}, {FALSE}, {"execnf", "exec", "dot"}, FaultLists, Faults))
    \* `exec` with operands in a non-interactive shell (it ends there)
    [] c = "qx" -> Family({"std", "x35"}, BOOLEAN, {NoLimit}, {"execnf", "execdir"}, FALSE,
                          Seq1(Full1) \cup {<<>>})
    \* a small family that exercises every action (run with -coverage)
    [] c = "cov" -> Family({"int"}, BOOLEAN, {NoLimit, 11}, AllKinds, TRUE,
                          Seq1(Alpha({1}, AllOps, {"a", "m", "d", "t"}, {1, 4, 10}, AllMisc))
                          \cup {<<R(1, "out", "m", -1), R(1, "app", "a", -1)>>, <<>>})
    \* thorough --------------------------------------------------------------
    [] c = "t1a" -> Family(All4, BOOLEAN, {NoLimit}, AllKinds, TRUE, Seq1(Full1) \cup {<<>>})
    [] c = "t1b" -> Family(All4, {FALSE}, 0 .. 13, AllKinds, FALSE, Seq1(Full1))
    [] c = "t2" -> Family({"std", "x35"}, BOOLEAN, {NoLimit}, CoreKinds \cup {"function"}, FALSE,
                          Seq2(Mid, Mid))
    [] c = "t3" -> Family(All4, {FALSE}, 3 .. 13, CoreKinds \cup DotKinds, FALSE, Seq2(Small, Small))
    [] c = "t4" -> Family({"std", "x35"}, {FALSE}, {NoLimit}, {"builtin", "exec"}, FALSE,
                          Seq3(Small, Small, Small))
    [] c = "tf" -> FaultFamily({"std", "x35", "int"}, {FALSE}, AllKinds,
                               FaultLists \cup Seq2(Small, HereSmall) \cup Seq2(HereSmall, Small),
                               Faults \cup {[call |-> cl, n |-> 3, errno |-> "EIO"] : cl \in Calls})
    [] c = "t5" -> Family({"std"}, {FALSE}, {12}, {"builtin"}, FALSE, Seq3(Small, Small, Small))
    [] c = "ti1" -> Inter(Family({"std", "x35", "full"}, BOOLEAN, {NoLimit}, AllKinds \cup ExecOpKinds, TRUE,
                                 Seq1(Full1) \cup {<<>>}))
    [] c = "ti2" -> Inter(Family({"std", "x35"}, {FALSE}, 0 .. 13, ExecOpKinds \cup {"exec"}, FALSE, Seq1(Lim1)))
    [] c = "ti3" -> Inter(Family({"std", "x35"}, {FALSE}, {NoLimit}, ExecOpKinds \cup {"special", "exec"}, FALSE,
                                 Seq2(Small, Small)))
    [] c = "tfi" -> Inter(FaultFamily({"std", "x35"}, {FALSE}, ExecOpKinds \cup {"special", "exec", "dot", "cmddot"},
                                      FaultLists,
                                      Faults \cup {[call |-> cl, n |-> 3, errno |-> "EIO"] : cl \in Calls}))
    [] c = "tx" -> Family(All4, BOOLEAN, {NoLimit}, ExecOpKinds, FALSE, Seq1(Full1) \cup {<<>>})
    \* (coverage) exec with operands, interactive shell
    [] c = "covi" -> Inter(Family({"std"}, {FALSE}, {NoLimit}, {"execnf", "execne", "special"}, FALSE, Seq1(Small)))

\* the families of a configuration
Parts(c) ==
  CASE c = "quick"    -> {"q1a", "q1b", "resv", "q2", "q3", "q4", "qf", "qi1", "qi2", "qi3", "qi4", "qfi", "qx"}
    [] c = "thorough" -> {"t1a", "t1b", "resv", "t2", "t3", "t4", "t5", "tf", "ti1", "ti2", "ti3", "tfi", "tx"}
    [] c = "cov"      -> {"cov", "negflt", "covi"}
    \* the limit families again, for the model check with Sim = FALSE (no replay)
    [] c = "posix"    -> {"q2", "q4"}
    [] OTHER          -> {c}


-----------------------------------------------------------------------------
Runs(kind)   == kind \in {"special", "builtin", "function", "group", "subshell", "dot", "cmddot"}
IsSpecial(kind) == kind \in {"special", "exec", "dot"} \cup ExecOpKinds
\* descriptors the probe inside the command tries to write one unit to
MarkFds == <<0, 1, 2, 3, 5>>
Tok(f)  == CASE f = 0 -> "c0" [] f = 1 -> "c1" [] f = 2 -> "c2" [] f = 3 -> "c3" [] f = 5 -> "c5"

\* A command without a name applies its list in a subshell: a copy of the
\* descriptor table (same open file descriptions), same limit, same files.
Init ==
  /\ \E f \in Parts(Cfg) : sc \in Fam(f)
  /\ k = K0(sc)
  /\ pc = IF Len(sc.list) = 0 THEN "exec" ELSE "check"
  /\ i = 1 /\ saved = <<>> /\ cur = -1 /\ spec = [own |-> FALSE, fd |-> -1]
  /\ failed = 0 /\ ran = FALSE /\ obsIn = <<>> /\ wr = <<>> /\ st = 0 /\ exited = FALSE
  /\ dotfd = -1

Rd == sc.list[i]

\* Fault injection.  Every system call of the kinds in Calls is counted; the
\* one the scenario designates fails without doing anything.
Tick(kk, c) == [kk EXCEPT !.cnt[c] = @ + 1]
Hit(c) == sc.fault.call = c /\ k.cnt[c] + 1 = sc.fault.n
Sys(c, res) == IF Hit(c) THEN KRes(FALSE, "EFAULT", Tick(k, c), -1)
               ELSE [res EXCEPT !.k = Tick(res.k, c)]

\* redir.rs perform: "Make sure target_fd doesn't have the CLOEXEC flag"
CheckReserved ==
  /\ pc = "check"
  /\ IF KCloexec(k, Rd.t) THEN failed' = i /\ pc' = "unwind"
                          ELSE failed' = failed /\ pc' = "save"
  /\ UNCHANGED <<sc, k, i, saved, cur, spec, ran, obsIn, wr, st, exited, dotfd>>

\* "Save the current open file description at target_fd to a new FD"
Save ==
  /\ pc = "save"
  /\ LET min == IF Bug = "savelow" THEN 3 ELSE 10
         res == Sys("dup", KDup(k, Rd.t, min, Bug # "savenocx"))
     IN IF res.ok THEN k' = res.k /\ cur' = res.fd /\ pc' = "open" /\ failed' = failed
        ELSE IF res.err = "EBADF" THEN k' = res.k /\ cur' = -1 /\ pc' = "open" /\ failed' = failed
        ELSE k' = res.k /\ cur' = -1 /\ pc' = "unwind" /\ failed' = i
  /\ UNCHANGED <<sc, i, saved, spec, ran, obsIn, wr, st, exited, dotfd>>

\* the operand: a file, a descriptor to copy, `-`, or a here-document
OpenFlags(op) ==
  CASE op = "in"   -> [acc |-> "r",  creat |-> FALSE, excl |-> FALSE, trunc |-> FALSE, app |-> FALSE]
    [] op = "out"  -> [acc |-> "w",  creat |-> TRUE,  excl |-> FALSE, trunc |-> TRUE,  app |-> FALSE]
    [] op = "clob" -> [acc |-> "w",  creat |-> TRUE,  excl |-> FALSE, trunc |-> TRUE,  app |-> FALSE]
    [] op = "app"  -> [acc |-> "w",  creat |-> TRUE,  excl |-> FALSE, trunc |-> FALSE, app |-> TRUE]
    [] op = "rw"   -> [acc |-> "rw", creat |-> TRUE,  excl |-> FALSE, trunc |-> FALSE, app |-> FALSE]

NoClobberOpen == Rd.op = "out" /\ sc.nc /\ Bug # "clobber"
\* Bug "noclobberall": the noclobber protocol is also applied to >|
UsesNoClobber == NoClobberOpen \/ (Bug = "noclobberall" /\ sc.nc /\ Rd.op = "clob")

OpenFail == pc' = "release" /\ failed' = i /\ spec' = spec
OpenOk(fd, own) == pc' = "install" /\ failed' = failed /\ spec' = [own |-> own, fd |-> fd]

OpenFile ==
  /\ pc = "open" /\ Rd.op \in FileOps /\ ~UsesNoClobber
  /\ LET fl  == OpenFlags(Rd.op)
         res == Sys("open", KOpen(k, Rd.path, fl.acc, fl.creat, fl.excl, fl.trunc, fl.app, Sim))
     IN /\ k' = res.k
        /\ IF res.ok THEN OpenOk(res.fd, TRUE) ELSE OpenFail
  /\ UNCHANGED <<sc, i, saved, cur, ran, obsIn, wr, st, exited, dotfd>>

\* open_file_noclobber: O_CREAT|O_EXCL first ...
OpenExcl ==
  /\ pc = "open" /\ Rd.op \in FileOps /\ UsesNoClobber
  /\ LET res == Sys("open", KOpen(k, Rd.path, "w", TRUE, TRUE, FALSE, FALSE, Sim))
     IN /\ k' = res.k
        /\ IF res.ok THEN OpenOk(res.fd, TRUE)
           ELSE IF res.err = "EEXIST" THEN pc' = "open2" /\ failed' = failed /\ spec' = spec
           ELSE OpenFail
  /\ UNCHANGED <<sc, i, saved, cur, ran, obsIn, wr, st, exited, dotfd>>

\* ... then the existing file without O_CREAT; refuse it if it is regular
OpenExisting ==
  /\ pc = "open2"
  /\ LET res == Sys("open", KOpen(k, Rd.path, "w", FALSE, FALSE, FALSE, FALSE, Sim))
     IN IF ~res.ok THEN k' = res.k /\ OpenFail
        ELSE IF KIsRegular(res.k, res.fd) THEN k' = KClose(res.k, res.fd).k /\ OpenFail
        ELSE k' = res.k /\ OpenOk(res.fd, TRUE)
  /\ UNCHANGED <<sc, i, saved, cur, ran, obsIn, wr, st, exited, dotfd>>

\* copy_fd: the source must be open with the right access and not reserved
CopyFd ==
  /\ pc = "open" /\ Rd.op \in {"dupin", "dupout"}
  /\ LET okAcc == IF Rd.op = "dupin" THEN KReadable(k, Rd.n) ELSE KWritable(k, Rd.n)
     IN IF okAcc /\ ~KCloexec(k, Rd.n) THEN OpenOk(Rd.n, FALSE) ELSE OpenFail
  /\ UNCHANGED <<sc, k, i, saved, cur, ran, obsIn, wr, st, exited, dotfd>>

CloseSpec ==
  /\ pc = "open" /\ Rd.op \in {"closein", "closeout"}
  /\ OpenOk(-1, FALSE)
  /\ UNCHANGED <<sc, k, i, saved, cur, ran, obsIn, wr, st, exited, dotfd>>

\* here_doc::open_fd: an anonymous temporary file ...
HereTmp ==
  /\ pc = "open" /\ Rd.op = "here"
  /\ LET res == Sys("tmp", KOpenTmp(k, Rd.data))
     IN /\ k' = res.k
        /\ IF res.ok THEN pc' = "herewrite" /\ failed' = failed /\ spec' = [own |-> TRUE, fd |-> res.fd]
           ELSE OpenFail
  /\ UNCHANGED <<sc, i, saved, cur, ran, obsIn, wr, st, exited, dotfd>>

\* ... is filled with the content and rewound (fill_content: write_all, lseek).
\* If either fails the temporary descriptor is closed again.
\* WRONG (Bug = "hereleak"): return the error and forget the descriptor.
HereFill(call, next) ==
  /\ IF Hit(call)
     THEN /\ k' = IF Bug = "hereleak" THEN Tick(k, call) ELSE KClose(Tick(k, call), spec.fd).k
          /\ OpenFail
     ELSE k' = Tick(k, call) /\ pc' = next /\ failed' = failed /\ spec' = spec
  /\ UNCHANGED <<sc, i, saved, cur, ran, obsIn, wr, st, exited, dotfd>>
HereWrite == pc = "herewrite" /\ HereFill("write", "hereseek")
HereSeek  == pc = "hereseek" /\ HereFill("lseek", "install")

\* dup2 onto the target and close the temporary descriptor, or close the target
Install ==
  /\ pc = "install"
  /\ IF spec.fd = -1
     THEN /\ k' = KClose(k, Rd.t).k
          /\ pc' = "record" /\ failed' = failed
     ELSE IF spec.fd = Rd.t
     THEN k' = k /\ pc' = "record" /\ failed' = failed
     ELSE LET d  == KDup2(k, spec.fd, Rd.t)
              k2 == IF spec.own THEN KClose(d.k, spec.fd).k
                    ELSE IF Bug = "closesrc" THEN KClose(d.k, spec.fd).k
                    ELSE d.k
          IN /\ k' = k2
             /\ IF d.ok THEN pc' = "record" /\ failed' = failed
                ELSE pc' = "release" /\ failed' = i
  /\ UNCHANGED <<sc, i, saved, cur, spec, ran, obsIn, wr, st, exited, dotfd>>

\* RedirGuard::perform_redir: push the SavedFd, go on with the next one
Record ==
  /\ pc = "record"
  /\ saved' = Append(saved, [orig |-> Rd.t, save |-> cur])
  /\ cur' = -1
  /\ IF i < Len(sc.list) THEN i' = i + 1 /\ pc' = "check"
                         ELSE i' = i /\ pc' = "exec"
  /\ UNCHANGED <<sc, k, spec, failed, ran, obsIn, wr, st, exited, dotfd>>

\* INTENDED: the failing redirection gives back its own saved copy
ReleaseSave ==
  /\ pc = "release" /\ Bug # "leak"
  /\ k' = IF cur >= 0 THEN KClose(k, cur).k ELSE k
  /\ cur' = -1
  /\ pc' = "unwind"
  /\ UNCHANGED <<sc, i, saved, spec, failed, ran, obsIn, wr, st, exited, dotfd>>

\* WRONG (Bug = "leak"): return the error and forget the saved copy
LeakSave ==
  /\ pc = "release" /\ Bug = "leak"
  /\ cur' = -1
  /\ pc' = "unwind"
  /\ UNCHANGED <<sc, k, i, saved, spec, failed, ran, obsIn, wr, st, exited, dotfd>>

\* the command itself
\* the dot built-in: open the script (O_CLOEXEC), lowest free descriptor ...
DotOpen ==
  /\ pc = "exec" /\ sc.kind \in DotKinds
  /\ LET res == Sys("open", KOpen(k, "x", "r", FALSE, FALSE, FALSE, FALSE, Sim))
     IN IF res.ok THEN /\ k' = [res.k EXCEPT !.fd[res.fd].cx = TRUE]
                       /\ dotfd' = res.fd /\ pc' = "dotmove" /\ failed' = failed
        ELSE k' = res.k /\ dotfd' = -1 /\ pc' = "unwind" /\ failed' = Len(sc.list) + 1
  /\ UNCHANGED <<sc, i, saved, cur, spec, ran, obsIn, wr, st, exited>>

\* ... and move it to >= 10 (move_fd_internal).  The low descriptor is closed
\* whether or not the duplication succeeds.
DotMove ==
  /\ pc = "dotmove"
  /\ IF dotfd >= 10 THEN k' = k /\ dotfd' = dotfd /\ pc' = "dotrun" /\ failed' = failed
     ELSE LET d == Sys("dup", KDup(k, dotfd, 10, TRUE))
          IN IF d.ok THEN /\ k' = KClose(d.k, dotfd).k
                          /\ dotfd' = d.fd /\ pc' = "dotrun" /\ failed' = failed
             \* WRONG (Bug = "movenoclose"): return the error, keep the low descriptor
             ELSE /\ k' = IF Bug = "movenoclose" THEN d.k ELSE KClose(d.k, dotfd).k
                  /\ dotfd' = -1 /\ pc' = "unwind" /\ failed' = Len(sc.list) + 1
  /\ UNCHANGED <<sc, i, saved, cur, spec, ran, obsIn, wr, st, exited>>

\* the script has been read to its end: the built-in closes its descriptor
DotClose ==
  /\ pc = "dotclose"
  /\ k' = KClose(k, dotfd).k
  /\ dotfd' = -1
  /\ pc' = "undo"
  /\ UNCHANGED <<sc, i, saved, cur, spec, failed, ran, obsIn, wr, st, exited>>

RunBody ==
  /\ IF sc.kind \in DotKinds THEN pc = "dotrun" ELSE pc = "exec" /\ Runs(sc.kind)
  /\ ran' = TRUE
  /\ obsIn' = KTable(k)
  /\ LET n == Len(MarkFds)
         go[j \in 0 .. n] ==
           IF j = 0 THEN [k |-> k, wr |-> <<>>]
           ELSE LET p == go[j - 1]
                    w == KWrite(p.k, MarkFds[j], Tok(MarkFds[j]))
                IN [k |-> w.k, wr |-> Append(p.wr, [fd |-> MarkFds[j], tok |-> Tok(MarkFds[j]), ok |-> w.ok])]
     IN k' = go[n].k /\ wr' = go[n].wr
  /\ st' = sc.bst
  /\ pc' = IF sc.kind \in DotKinds THEN "dotclose" ELSE IF Bug = "keepall" THEN "preserve" ELSE "undo"
  /\ UNCHANGED <<sc, i, saved, cur, spec, failed, exited, dotfd>>

RunNotFound ==
  /\ pc = "exec" /\ sc.kind = "notfound"
  /\ st' = 127 /\ pc' = "undo"
  /\ UNCHANGED <<sc, k, i, saved, cur, spec, failed, ran, obsIn, wr, exited, dotfd>>

RunEmpty ==
  /\ pc = "exec" /\ sc.kind = "empty"
  /\ st' = 0 /\ pc' = "undo"
  /\ UNCHANGED <<sc, k, i, saved, cur, spec, failed, ran, obsIn, wr, exited, dotfd>>

\* `exec` without operands asks for the redirections to be retained
RunExec ==
  /\ pc = "exec" /\ sc.kind = "exec"
  /\ st' = 0 /\ pc' = "preserve"
  /\ UNCHANGED <<sc, k, i, saved, cur, spec, failed, ran, obsIn, wr, exited, dotfd>>

\* `exec` with operands: the utility cannot be executed (127: not found, 126:
\* found but not executable).  The redirections are retained exactly as without
\* operands; a shell that is not interactive ends here.
\* WRONG (Bug = "dropop"): retained only when there is no operand
RunExecOp ==
  /\ pc = "exec" /\ sc.kind \in ExecOpKinds
  /\ st' = IF sc.kind \in {"execnf", "execnx"} THEN 127 ELSE 126
  /\ exited' = ~sc.inter
  /\ pc' = IF Bug = "dropop" THEN "undo" ELSE "preserve"
  /\ UNCHANGED <<sc, k, i, saved, cur, spec, failed, ran, obsIn, wr, dotfd>>

\* RedirGuard::undo_redirs, one saved descriptor per step, last first
UndoOne ==
  /\ pc \in {"undo", "unwind"}
  /\ saved # <<>>
  /\ LET idx == IF Bug = "fwd" THEN 1 ELSE Len(saved)
         s   == saved[idx]
         k2  == IF s.save >= 0 THEN KClose(KDup2(k, s.save, s.orig).k, s.save).k
                ELSE KClose(k, s.orig).k
     IN /\ k' = k2
        /\ saved' = [j \in 1 .. (Len(saved) - 1) |-> IF j < idx THEN saved[j] ELSE saved[j + 1]]
  /\ UNCHANGED <<sc, pc, i, cur, spec, failed, ran, obsIn, wr, st, exited, dotfd>>

\* RedirGuard::preserve_redirs
PreserveOne ==
  /\ pc = "preserve"
  /\ saved # <<>>
  /\ LET s == Head(saved)
     IN k' = IF s.save >= 0 THEN KClose(k, s.save).k ELSE k
  /\ saved' = Tail(saved)
  /\ UNCHANGED <<sc, pc, i, cur, spec, failed, ran, obsIn, wr, st, exited, dotfd>>

\* the subshell of a command without a name ends: its descriptor table dies
\* with it, the files stay
LeaveSubshell(kk) == IF sc.kind = "empty" THEN [K0(sc) EXCEPT !.file = kk.file] ELSE kk

Finish ==
  /\ pc \in {"undo", "preserve"} /\ saved = <<>>
  /\ k' = LeaveSubshell(k)
  /\ pc' = "done"
  /\ UNCHANGED <<sc, i, saved, cur, spec, failed, ran, obsIn, wr, st, exited, dotfd>>

\* a redirection failed: status 2 (the dot built-in could not get its script:
\* status 1); an error of a special built-in ends the shell unless it is interactive
FinishError ==
  /\ pc = "unwind" /\ saved = <<>>
  /\ k' = LeaveSubshell(k)
  /\ st' = IF failed > Len(sc.list) THEN 1 ELSE 2
  /\ exited' = (IsSpecial(sc.kind) /\ ~sc.inter)
  /\ pc' = "done"
  /\ UNCHANGED <<sc, i, saved, cur, spec, failed, ran, obsIn, wr, dotfd>>

\* every scenario runs to completion (checked: no deadlock anywhere else)
Terminated == pc = "done" /\ UNCHANGED vars

Next == \/ DotOpen \/ DotMove \/ DotClose \/ CheckReserved \/ Save \/ OpenFile \/ OpenExcl \/ OpenExisting \/ CopyFd
        \/ CloseSpec \/ HereTmp \/ HereWrite \/ HereSeek \/ Install \/ Record \/ ReleaseSave \/ LeakSave
        \/ RunBody \/ RunNotFound \/ RunEmpty \/ RunExec \/ RunExecOp \/ UndoOne \/ PreserveOne
        \/ Finish \/ FinishError \/ Terminated

Spec == Init /\ [][Next]_vars

-----------------------------------------------------------------------------
\* the behaviour as an observation record (same shape as the harness's)
ModelRec ==
  [kind |-> sc.kind, inter |-> sc.inter, nc |-> sc.nc, lim |-> sc.lim, bst |-> sc.bst, list |-> sc.list,
   before |-> KTable(K0(sc)), files0 |-> KFiles(K0(sc), PathOrder),
   ran |-> ran, in |-> obsIn, wr |-> wr,
   after |-> KTable(k), files1 |-> KFiles(k, PathOrder),
   st |-> st, exited |-> exited, flt |-> sc.fault.call # "none", stchk |-> TRUE, fchk |-> TRUE]

\* P1: every behaviour of the intended protocol is allowed by the oracle
Conforms == pc = "done" => Verdict(ModelRec) = {}

\* while a list is being applied the shell's own descriptors are >= 10 with
\* FD_CLOEXEC, except the operand's temporary descriptor between open and dup2
InternalInv ==
  \A f \in DOMAIN k.fd :
     /\ (k.fd[f].cx => (f >= 10 \/ (pc = "dotmove" /\ f = dotfd)))
     /\ (f >= 10 /\ ~k.fd[f].cx) => (pc \in {"install", "herewrite", "hereseek"} /\ spec.own /\ spec.fd = f)

TypeOK == /\ pc \in {"herewrite", "hereseek", "dotmove", "dotrun", "dotclose", "check", "save", "open", "open2", "install", "record", "release",
                     "exec", "undo", "unwind", "preserve", "done"}
          /\ i \in 1 .. 3
          /\ failed \in 0 .. 4

\* P2: one line per scenario: the scenario and the driver's prediction
Brief(tab) == [j \in DOMAIN tab |-> <<tab[j].fd, tab[j].id, IF tab[j].cx THEN 1 ELSE 0>>]
Emit == pc = "done" =>
          PrintT(ToJson([sc |-> sc,
                         exp |-> [ran |-> ran, st |-> st, exited |-> exited, failed |-> failed,
                                  tin |-> Brief(obsIn), after |-> Brief(KTable(k)),
                                  wr |-> [j \in DOMAIN wr |-> wr[j].ok],
                                  files |-> KFiles(k, PathOrder)]]))
=============================================================================
