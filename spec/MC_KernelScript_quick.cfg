\* script catalogue, quick tier: every distinct state reachable by <= 1 steps and
\* every step of the alphabet in it (scripts of <= 2 steps)
SPECIFICATION SSpec
CONSTANTS
  Theme = "script"
  MaxFd = 5
  MaxLen = 12
  MaxPipe = 1
  MaxH = 1
VIEW sview
CONSTRAINT SBounded
INVARIANT STypeOK
INVARIANT SEmitBounded
