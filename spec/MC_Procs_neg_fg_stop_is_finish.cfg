\* NEGATIVE configuration: the named wrong action "fg_stop_is_finish" (with
\* job control off, waiting for a foreground subshell / command substitution
\* returns when the child is merely stopped); TLC MUST report a violated
\* invariant: the shell goes on while the child is alive and records a status
\* that is not the child's exit status.
SPECIFICATION Spec
CONSTANTS
  Variant = "fg_stop_is_finish"
  MaxP = 7
  Scripts <- CatNegFgStop
INVARIANTS NoErr InvReapOnce InvStatusTrue InvNoFgLeft InvJobsSound InvDenotation
