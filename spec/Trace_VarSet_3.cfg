SPECIFICATION TraceSpec
CONSTANTS
  Names = {"x", "y", "z"}
  Vals = {"a", "b", "c"}
  MaxDepth = 99
  PosVals <- PosNone
POSTCONDITION Complete
CHECK_DEADLOCK FALSE
