SPECIFICATION TraceSpec
CONSTANTS
  Names = {"x", "y", "z"}
  Vals = {"a", "b", "c"}
  MaxDepth = 99
  PosVals <- PosNone
  Thens = {"none", "assign", "export", "ro"}
POSTCONDITION Complete
CHECK_DEADLOCK FALSE
