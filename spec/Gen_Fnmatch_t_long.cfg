INIT Init
NEXT Next
VIEW view
CONSTANTS
  PNorm <- AlphaFull
  PLit <- NoChars
  PMacro <- NoChars
  PLen = 4
  SAlpha <- StrFull
  SLen = 4
  Kind = "match"
INVARIANT Emit
