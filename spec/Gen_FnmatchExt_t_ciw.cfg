INIT Init
NEXT Next
VIEW view
CONSTANTS
  Variant = ""
  PNorm <- TokCIw
  PLit <- NoChars
  PMacro <- MacCIw
  PLen = 3
  SAlpha <- StrCIw
  SLen = 2
  CfgSel = "ci"
  Kind = "match"
INVARIANT Emit
