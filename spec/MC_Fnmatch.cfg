INIT Init
NEXT Next
CONSTANTS
  PNorm = {"a", "*", "?", "[", "]", "!", "-", "."}
  PLit = {"]", "-"}
  PLen = 3
  SAlpha = {"a", ".", "-", "]"}
  SLen = 2
INVARIANT T_Literal
INVARIANT T_Quoted
INVARIANT T_Unclosed
INVARIANT T_Concat
INVARIANT T_Wild
INVARIANT T_Complement
INVARIANT T_Ranges
INVARIANT T_Find
INVARIANT T_FindDef
INVARIANT T_Trim
INVARIANT T_Period
INVARIANT T_Case
