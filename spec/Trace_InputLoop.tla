--------------------------- MODULE Trace_InputLoop ---------------------------
(***************************************************************************)
(* P3 validation for C18.  Every record is what the REAL shell did with    *)
(* one script in one or more feed modes (all the modes listed in `modes`   *)
(* produced this very observation):                                        *)
(*   lines, nl, feed   the scenario (line kinds; final newline; "fd": the  *)
(*                     script is on descriptor 0, "str": a string / file)  *)
(*   text              the script text the harness fed, line by line       *)
(*   trace             probe events [args, st ($?), off (byte offset of    *)
(*                     the open file description descriptor 0 had at       *)
(*                     start-up; -1 = not observable)]                     *)
(*   status, errnz     exit status; was anything written to stderr         *)
(*   echofd, elines    the script was read through a descriptor and has a  *)
(*                     `set -v` line: stderr split into lines              *)
(*   nbmax, nb0        O_NONBLOCK of descriptor 0 in the pipe-fed runs     *)
(* Non-ASCII characters / bytes appear as the placeholders of InputLoop.    *)
(* The record is accepted iff it is what InputLoop's machine does with     *)
(* that script: same commands executed in the same order with the same     *)
(* arguments (incl. the data every `read` obtained, the alias prefix, the  *)
(* joined continuation lines, the here-document bodies), the same `$?`     *)
(* (zero / non-zero), the descriptor offset at every probe, the exit       *)
(* status (zero / non-zero), a diagnostic iff the specification says       *)
(* syntax error, and the lines echoed by `set -v`.  For a script that      *)
(* leaves the family (skip) only the events of the command lines before    *)
(* the offending line are required, as a prefix.  Because the chunking     *)
(* and the schedule are not part of the record, two different observations *)
(* of one scenario can never both be accepted.                             *)
(***************************************************************************)
EXTENDS InputLoop, IOUtils, Integers

Rec == ndJsonDeserialize(IOEnv.TRACE)

VARIABLE l
tvars == <<l, m, avail, closed, chunk>>

Norm(x) == IF x = 0 THEN 0 ELSE 1

TextOK(r) == /\ Len(r.text) = Len(r.lines)
             /\ \A i \in 1..Len(r.lines) : r.lines[i] \in AllKinds /\ r.text[i] = Text(r.lines[i], i)

\* the first Len(e.trace) observed events are the specified ones
EventsOK(r, e) ==
  /\ Len(r.trace) >= Len(e.trace)
  /\ \A i \in 1..Len(e.trace) :
       /\ Len(r.trace[i].args) = Len(e.trace[i].args)
       /\ \A j \in 1..Len(e.trace[i].args) :
            \/ e.trace[i].fr /\ j = Len(e.trace[i].args)     \* what a failed `read` left in $v is open
            \/ r.trace[i].args[j] = e.trace[i].args[j]
       /\ Norm(r.trace[i].st) = e.trace[i].st
       /\ (r.trace[i].off = -1 \/ r.trace[i].off = Bytes(e, e.trace[i].off))

TraceOK(r, e) == Len(r.trace) = Len(e.trace) /\ EventsOK(r, e)

\* `set -v`: the lines the lexer read while the option was on come first on
\* stderr, each as it was read (a final line without newline may be followed
\* by the text of a diagnostic, so it is not compared)
EchoOK(r, e) ==
  IF ~r.echofd THEN TRUE
  ELSE LET n == IF e.noisy THEN e.necho ELSE Len(e.echo)   \* a complaint of `read` may follow
       IN
       /\ Len(r.elines) >= n
       /\ \A j \in 1..n :
            LET i == e.echo[j] IN
            IF i = Len(r.lines) /\ ~r.nl THEN TRUE
            ELSE r.elines[j] = Text(r.lines[i], i) \o "\n"

\* nbmax: over the runs of this record whose descriptor 0 was a pipe, the
\* largest O_NONBLOCK flag (0 / 1) of its open file description seen at a probe
\* or after the run; -1: no such run.  nb0: some of them started with the flag set.
NbOK(r) ==
  r.nbmax = -1 \/ r.nbmax = (IF StdinModeAfterStartup("fd", "pipe", r.nb0) THEN 1 ELSE 0)

Accept(r) ==
  /\ TextOK(r)
  /\ NbOK(r)
  /\ r.feed \in {"fd", "str"}
  /\ (r.lines = <<>> => r.nl)
  /\ LET e == Oracle(r.lines, r.nl, r.feed) IN
     IF e.skip THEN EventsOK(r, e)      \* the commands before the line that leaves the family have run
     ELSE /\ r.outcome = "completed"
          /\ TraceOK(r, e)
          /\ Norm(r.status) = e.st
          /\ (e.err => r.errnz)
          /\ EchoOK(r, e)

TraceInit == /\ l = 1
             /\ m = Start(<<>>, "nl", "fd") /\ avail = 0 /\ closed = TRUE /\ chunk = 0

TraceNext == /\ l <= Len(Rec)
             /\ Accept(Rec[l])
             /\ l' = l + 1
             /\ UNCHANGED vars

TraceSpec == TraceInit /\ [][TraceNext]_tvars

Accepted ==
  LET d == TLCGet("stats").diameter
  IN IF d - 1 = Len(Rec) THEN TRUE
     ELSE Print(<<"REJECT", d, ToJson(Rec[d])>>, FALSE)
=============================================================================
