INIT Init
NEXT Next
CONSTANTS
  SAlpha <- StrWide
  SLen = 3
  Shards = 16
INVARIANT Emit
