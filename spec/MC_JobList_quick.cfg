SPECIFICATION Spec
CONSTANTS
  N = 3
  Pids = {1, 2, 3}
  MaxH = 100
  Flags = FALSE
VIEW view
INVARIANT TypeOK
INVARIANT Consistent
INVARIANT EmitState
PROPERTY StableNumbers
