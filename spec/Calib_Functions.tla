--------------------------- MODULE Calib_Functions ---------------------------
(***************************************************************************)
(* Calibration of ShFunctions.tla: the worked examples of the manual and   *)
(* the function-related cases of the repository's scripted tests           *)
(* (yash-cli/tests/scripted_test/{function-p,return-p,unset-p,typeset-y}   *)
(* .sh), transcribed into the command alphabet of the specification (echo  *)
(* of $#/$@/variables becomes the observation `obs`, `(exit n)` becomes    *)
(* `status n`), hold for the oracle.  The expected values are read off the *)
(* documents, not computed with the model.                                 *)
(***************************************************************************)
EXTENDS ShFunctions

\* an observation line: $? , "$# $@" , v , t
O(s, p, v, t) == Line(s, "o ? yash " \o p \o " . " \o v \o " " \o t)
Sc(args, main) == [args |-> args, main |-> main]
E(args, main) == Expect(Sc(args, main))
Names2(tab) == [i \in 1..Len(tab) |-> <<tab[i].n, tab[i].ro>>]

\* functions.md, Function parameters: "Fields after the function name are passed as
\* positional parameters.  The original positional parameters are restored when the
\* function returns."  (set alice bob charlie; foo andrea barbie cindy)
ASSUME LET e == E(<<"alice", "bob", "charlie">>,
                  <<CDef("f", <<CObs>>), CObs, CCall("f", <<"andrea", "barbie", "cindy">>)>>)
       IN e.cls = "ok" /\ e.out = <<O(0, "3 alice bob charlie", "U", "U"), O(0, "3 andrea barbie cindy", "U", "U"),
                                     O(0, "3 alice bob charlie", "U", "U")>>

\* function-p.sh '$# in function', 'arguments to function' (set a; func 1; echo "$@" prints a)
ASSUME LET e == E(<<"a">>, <<CDef("f", <<CObs>>), CCall("f", <<>>), CCall("f", <<"1">>), CCall("f", <<"1", "2">>)>>)
       IN e.out = <<O(0, "0", "U", "U"), O(0, "1 1", "U", "U"), O(0, "2 1 2", "U", "U"), O(0, "1 a", "U", "U")>>

\* functions.md, Returning from functions: return 1 -> exit status 1; plain return after a
\* successful command -> 0.  return-p.sh 'default exit status of returning from function'
\* ((exit 13); return -> 13), 'specifying exit status' ((exit 1); return 13 -> 13)
ASSUME E(<<>>, <<CDef("f", <<CSt(0), CRet(1), CObs>>), CCall("f", <<>>)>>).out = <<O(1, "0", "U", "U")>>
ASSUME E(<<>>, <<CDef("f", <<CSt(13), CRet(-1)>>), CCall("f", <<>>)>>).st = 13
ASSUME E(<<>>, <<CDef("f", <<CSt(1), CRet(13)>>), CCall("f", <<>>)>>).st = 13
\* function-p.sh 'exit status of function call': the status of the last command
ASSUME E(<<>>, <<CDef("f", <<CSt(19)>>), CCall("f", <<>>)>>).st = 19

\* return-p.sh 'returning from function, unnested' and 'returning out of for loop':
\* nothing after return is executed, in the loop or after it
ASSUME E(<<>>, <<CDef("f", <<CObs, CRet(-1), CObs>>), CCall("f", <<"in">>)>>).out
         = <<O(0, "1 in", "U", "U"), O(0, "0", "U", "U")>>
ASSUME E(<<>>, <<CDef("f", <<CFor(1, <<CRet(-1), CObs>>), CObs>>), CCall("f", <<"in">>)>>).out
         = <<O(0, "0", "U", "U")>>

\* return-p.sh 'returning from function, nested in other functions': return ends the
\* innermost function only (fn2 calls fn1 which recurs once)
ASSUME LET e == E(<<>>, <<CDef("f", <<CObs, CRec("f"), CObs>>), CDef("g", <<CCall("f", <<"r">>), CObs>>),
                        CCall("g", <<"o">>)>>)
       IN e.out = <<O(0, "1 r", "U", "U"), O(0, "0", "U", "U"), O(0, "0", "U", "U"), O(0, "0", "U", "U"),
                    O(0, "1 o", "U", "U"), O(0, "0", "U", "U")>>

\* function-p.sh 're-defining a function': the new definition replaces the old one
ASSUME E(<<>>, <<CDef("f", <<CSt(1)>>), CDef("f", <<CSt(2)>>), CCall("f", <<>>)>>).st = 2

\* function-p.sh 'effect of function definition (without executing the function)':
\* func(){ echo foo; } <_no_such_file_  -> exit status 0, no output, nothing redirected
ASSUME LET e == E(<<>>, <<CSt(5), CDefX("f", <<CObs>>, "lit", 0, "<x")>>)
       IN e.out = <<O(0, "0", "U", "U")>> /\ e.st = 0 /\ Names2(e.tab) = <<<<"f", FALSE>>>>

\* functions.md: "Redirections in a function definition apply when the function is called,
\* not when it is defined" (dumb() { echo ...; } > /dev/null; dumb Alice prints nothing);
\* function-p.sh 'redirections apply to function body'
ASSUME LET e == E(<<>>, <<CDefX("f", <<CObs>>, "lit", 0, ">o"), CObs, CCall("f", <<"Alice">>)>>)
       IN e.out = <<O(0, "0", "U", "U"), O(0, "0", "U", "U")>> /\ e.fo = <<O(0, "1 Alice", "U", "U")>>
\* ... at each call
ASSUME E(<<>>, <<CDefX("f", <<CObs>>, "lit", 0, ">>p"), CCall("f", <<"1">>), CCall("f", <<"2">>)>>).fp
         = <<O(0, "1 1", "U", "U"), O(0, "1 2", "U", "U")>>
ASSUME E(<<>>, <<CDefX("f", <<CObs>>, "lit", 0, ">o"), CCall("f", <<"1">>), CCall("f", <<"2">>)>>).fo
         = <<O(0, "1 2", "U", "U")>>

\* function-p.sh 'subshell as function body', 'variable assigned in function remains after return'
ASSUME E(<<>>, <<CDefX("f", <<CAsg("v", "bar"), CObs>>, "lit", 1, ""), CCall("f", <<>>)>>).out
         = <<O(0, "0", "bar", "U"), O(0, "0", "U", "U")>>
ASSUME E(<<>>, <<CDef("f", <<CAsg("v", "bar")>>), CAsg("v", ""), CCall("f", <<>>)>>).out = <<O(0, "0", "bar", "U")>>

\* variables.md, Local variables: "Local variables are removed when the function returns
\* ... The original (global) variable is hidden by the local variable inside the function
\* and restored when the function returns."
ASSUME E(<<>>, <<CAsg("v", "0"), CDef("f", <<CLoc("v", "1"), CObs>>), CCall("f", <<>>)>>).out
         = <<O(0, "0", "1", "U"), O(0, "0", "0", "U")>>
\* "Variables have dynamic scope" (outer: typeset user=Alice; inner; inner assigns Bob):
\* inner sees Alice, outer then sees Bob, the global scope sees nothing, inner alone sees nothing
ASSUME LET e == E(<<>>, <<CDef("f", <<CLoc("v", "Alice"), CCall("g", <<>>), CObs>>),
                        CDef("g", <<CObs, CAsg("v", "Bob")>>), CCall("f", <<>>), CObs, CCall("g", <<>>)>>)
       IN e.out = <<O(0, "0", "Alice", "U"), O(0, "0", "Bob", "U"), O(0, "0", "U", "U"), O(0, "0", "U", "U"),
                    O(0, "0", "Bob", "U")>>

\* simple.md: assignments of a function call are in effect during the call and
\* "Assigned variables are removed" afterwards
ASSUME E(<<>>, <<CDef("f", <<CObs>>), CCallX("f", <<>>, "hello", "")>>).out
         = <<O(0, "0", "U", "hello"), O(0, "0", "U", "U")>>

\* functions.md: "The function name is expanded when defined"
ASSUME Names2(E(<<>>, <<CDefX("g", <<CObs>>, "var", 0, "")>>).tab) = <<<<"g", FALSE>>>>

\* functions.md, Read-only functions (typeset -fr greet; greet() {...} is an error, the
\* function keeps its body); typeset-y.sh 'making function readonly (-fr)'
ASSUME LET e == E(<<>>, <<CDef("f", <<CSt(1)>>), CDef("g", <<CSt(2)>>), CMkro(<<"f">>), CCall("f", <<>>), CObs,
                        CCall("g", <<>>), CObs, CDef("f", <<CSt(3)>>), CObs, CCall("f", <<>>)>>)
       IN e.out = <<O(1, "0", "U", "U"), O(2, "0", "U", "U"), O(NZ, "0", "U", "U"), O(1, "0", "U", "U")>>
          /\ Names2(e.tab) = <<<<"f", TRUE>>, <<"g", FALSE>>>>

\* unset-p.sh 'deleting existing function (-f)', 'deleting non-existing function (-f)',
\* 'deleting many functions (-f)' (unset -f a b x c with x not a function: exit status 0)
ASSUME LET e == E(<<>>, <<CDef("f", <<CSt(1)>>), CDef("g", <<CSt(2)>>), CUnset(<<"g">>, 0), CObs, CCall("f", <<>>),
                        CObs, CCall("g", <<>>)>>)
       IN e.out = <<O(0, "0", "U", "U"), O(1, "0", "U", "U"), O(127, "0", "U", "U")>>
ASSUME E(<<>>, <<CDef("f", <<CSt(1)>>), CSt(4), CUnset(<<"g">>, 0)>>).st = 0
ASSUME LET e == E(<<>>, <<CDef("f", <<CSt(1)>>), CDef("g", <<CSt(2)>>), CUnset(<<"f", "h", "g">>, 0)>>)
       IN e.st = 0 /\ e.tab = <<>>

\* unset.md "Unsetting a read-only variable or function is an error"; unset is a special
\* built-in: a non-interactive shell exits (unset-p.sh 'read-only variable cannot be
\* deleted': "special built-in error kills non-interactive shell"), not so through `command`
ASSUME LET e == E(<<>>, <<CDef("f", <<CSt(1)>>), CMkro(<<"f">>), CUnset(<<"f">>, 0), CObs>>)
       IN e.out = <<>> /\ e.st = NZ /\ Names2(e.tab) = <<<<"f", TRUE>>>>
ASSUME LET e == E(<<>>, <<CDef("f", <<CSt(1)>>), CMkro(<<"f">>), CUnset(<<"f">>, 1), CObs>>)
       IN e.out = <<O(NZ, "0", "U", "U"), O(NZ, "0", "U", "U")>> /\ Names2(e.tab) = <<<<"f", TRUE>>>>

\* typeset-y.sh 'printing all functions (-f)' (alphabetical), 'printing read-only function
\* (-frp)' (the definition followed by `typeset -fr f`; g, not read-only, is not printed)
ASSUME LET e == E(<<>>, <<CDef("g", <<CSt(1)>>), CDef("f", <<CSt(2)>>), CList(""), CMkro(<<"f">>), CList("r"),
                        CList("nr")>>)
       IN e.out = <<Line(-2, "F f"), Line(-2, "F g"), Line(-2, "F f"), Line(-2, "R f"), Line(-2, "F g"),
                    O(0, "0", "U", "U")>>
\* typeset.md "It is an error to modify a non-existent function"
ASSUME E(<<>>, <<CMkro(<<"h">>)>>).st = NZ

\* XCU 2.13 / functions.md "A function is defined when the definition command is executed":
\* a definition in a subshell is not visible outside
ASSUME LET e == E(<<>>, <<CSub(<<CDef("f", <<CSt(3)>>), CCall("f", <<>>)>>), CObs, CCall("f", <<>>)>>)
       IN e.out = <<O(3, "0", "U", "U"), O(127, "0", "U", "U")>> /\ e.tab = <<>>
=============================================================================
