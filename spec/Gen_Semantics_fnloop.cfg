SPECIFICATION Spec
CONSTANTS
  Fuel = 24
  TickLimit = 2
  K = 6
  Alphabet <- AlphaFnLoop
  ItemAlphabet <- NoItems
  Mode = "c02"
INVARIANT Emit
CHECK_DEADLOCK FALSE
