INIT Init
NEXT Next
VIEW view
CONSTANTS
  Variant = ""
  PNorm <- TokLawQ
  PLit <- LitLawQ
  PMacro <- MacLawQ
  PLen = 2
  SAlpha <- StrLawQ
  SLen = 2
  CfgSel = "all"
  Kind = "laws"
INVARIANT Laws
