SPECIFICATION Spec
CONSTANTS
  Theme = "pipe"
  MaxFd = 5
  MaxLen = 6
  MaxPipe = 2
  MaxH = 2
VIEW view
CONSTRAINT Bounded
INVARIANT TypeOK
INVARIANT NoDanglingOfd
INVARIANT TreeClosed
INVARIANT NoIgnoredPending
INVARIANT EmitState
