---------------------------- MODULE Trace_Syntax ----------------------------
(***************************************************************************)
(* C06, implementation -> specification.  Every record written by the      *)
(* harness describes what the real parser and printer of yash-syntax did   *)
(* with one input:                                                         *)
(*   kind  "toks" (the input is the rendering of the token sequence `toks`,*)
(*         e.g. a mutated derivation) or "text" (scripts, random strings)  *)
(*   out   "ok" | "err" | "panic" | "timeout"                              *)
(*   tree  the tree the parser produced (kind "toks", out "ok")            *)
(*   rt    print -> re-parse of every tree produced: "eq" | "ne" | "err" | *)
(*         "panic" | "na" (no tree) | "skip" (here-document body that the  *)
(*         single-line form cannot carry)                                  *)
(*   ahead lines pulled from the input beyond the lines needed             *)
(* A record is accepted iff                                                *)
(*   Total      the parser returned a tree or a syntax error,              *)
(*   Bounded    it pulled at most one line more than it needed,            *)
(*   RoundTrip  every tree it produced is reproduced by re-parsing its     *)
(*              printed form,                                              *)
(*   Conform    where the token grammar has an opinion (Syntax!Parse says  *)
(*              "ok") the parser accepted the input with that very tree.   *)
(***************************************************************************)
EXTENDS Syntax

Rec == ndJsonDeserialize(IOEnv.TRACE)

Has(r, f) == f \in DOMAIN r
(* the wire form of a token (Syntax!Wire) back to a full token record *)
Norm(t) ==
  [k |-> t.k, s |-> t.s,
   a |-> IF Has(t, "a") THEN t.a ELSE IF t.k = "w" THEN <<Lit(t.s)>> ELSE <<>>,
   g |-> IF Has(t, "g") THEN t.g ELSE FALSE,
   v |-> IF Has(t, "v") THEN t.v ELSE "",
   b |-> IF Has(t, "b") THEN t.b ELSE <<>>]
NormToks(ts) == [i \in 1..Len(ts) |-> Norm(ts[i])]

Total(r) == r.out \in {"ok", "err"}
Bounded(r) == r.ahead <= 1
RoundTrip(r) == r.rt \in {"eq", "na", "skip"}
Conform(r) ==
  r.kind = "toks" =>
    LET p == Parse(NormToks(r.toks))
    IN p.st = "ok" => (r.out = "ok" /\ r.tree = p.t)

RecOK(r) == Total(r) /\ Bounded(r) /\ RoundTrip(r) /\ Conform(r)

VARIABLE l
tvars == <<l, sf>>

TraceInit == l = 1 /\ sf = <<>>
TraceNext == /\ l <= Len(Rec)
             /\ RecOK(Rec[l])
             /\ l' = l + 1
             /\ UNCHANGED sf
TraceSpec == TraceInit /\ [][TraceNext]_tvars

Accepted ==
  LET d == TLCGet("stats").diameter
  IN IF d - 1 = Len(Rec) THEN TRUE
     ELSE Print(<<"REJECT", d, ToJson(Rec[d])>>, FALSE)
=============================================================================
