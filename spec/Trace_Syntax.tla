---------------------------- MODULE Trace_Syntax ----------------------------
(***************************************************************************)
(* C06, implementation -> specification.  Every record written by the      *)
(* harness describes what the real parser and printer of yash-syntax did   *)
(* with one input:                                                         *)
(*   kind  "toks" (the input is the rendering of the token sequence `toks`,*)
(*         e.g. a mutated derivation) or "text" (scripts, random strings)  *)
(*   out   "ok" | "err" | "panic" | "timeout"                              *)
(*   tree  the tree the parser produced (kind "toks", out "ok")            *)
(*   rt    print -> re-parse of every tree produced: "eq" | "ne" | "err" | *)
(*         "panic" | "na" (no tree) | "skip" (here-document body that the  *)
(*         single-line form cannot carry)                                  *)
(*   ahead lines pulled from the input beyond the lines needed             *)
(* A record is accepted iff                                                *)
(*   Total      the parser returned a tree or a syntax error,              *)
(*   Bounded    it pulled at most one line more than it needed,            *)
(*   RoundTrip  every tree it produced is reproduced by re-parsing its     *)
(*              printed form,                                              *)
(*   Conform    where the token grammar has an opinion (Syntax!Parse says  *)
(*              "ok") the parser accepted the input with that very tree.   *)
(***************************************************************************)
EXTENDS Syntax

Rec == ndJsonDeserialize(IOEnv.TRACE)

Has(r, f) == f \in DOMAIN r
(* the wire form of a token (Syntax!Wire) back to a full token record *)
Norm(t) ==
  [k |-> t.k, s |-> t.s,
   a |-> IF Has(t, "a") THEN t.a ELSE IF t.k = "w" THEN <<Lit(t.s)>> ELSE <<>>,
   g |-> IF Has(t, "g") THEN t.g ELSE FALSE,
   v |-> IF Has(t, "v") THEN t.v ELSE "",
   b |-> IF Has(t, "b") THEN t.b ELSE <<>>]
NormToks(ts) == [i \in 1..Len(ts) |-> Norm(ts[i])]

Total(r) == r.out \in {"ok", "err"}
Bounded(r) == r.ahead <= 1
RoundTrip(r) == r.rt \in {"eq", "na", "skip"}
ConformTo(r, p) == p.st = "ok" => (r.out = "ok" /\ r.tree = p.t)      \* p = Parse of r.toks
Conform(r) == r.kind = "toks" => ConformTo(r, Parse(NormToks(r.toks)))

RecOK(r, p) == Total(r) /\ Bounded(r) /\ RoundTrip(r) /\ ConformTo(r, p)
Why(r, p) == IF ~Total(r) THEN "total" ELSE IF ~Bounded(r) THEN "bounded"
             ELSE IF ~RoundTrip(r) THEN "roundtrip" ELSE "conform"

VARIABLE l
tvars == <<l, sf>>

(* TLC register 1 counts the records about which the token grammar had an  *)
(* opinion.  A rejected record is printed and the validation goes on (the  *)
(* driver matches rejections against the known findings).                  *)
TraceInit == l = 1 /\ sf = <<>> /\ TLCSet(1, 0)
TraceNext ==
  /\ l <= Len(Rec)
  /\ LET r == Rec[l]
         p == IF r.kind = "toks" THEN Parse(NormToks(r.toks)) ELSE [st |-> "na", t |-> <<>>]
     IN /\ (IF p.st = "ok" THEN TLCSet(1, TLCGet(1) + 1) ELSE TRUE)
        /\ (IF RecOK(r, p) THEN TRUE ELSE PrintT(<<"REJECT", l, Why(r, p), r.id>>))
  /\ l' = l + 1
  /\ UNCHANGED sf
TraceSpec == TraceInit /\ [][TraceNext]_tvars

Accepted ==
  LET d == TLCGet("stats").diameter
  IN /\ PrintT(<<"OPINION", TLCGet(1)>>)
     /\ IF d - 1 = Len(Rec) THEN TRUE ELSE Print(<<"INCOMPLETE", d>>, FALSE)
=============================================================================
