SPECIFICATION Spec
CONSTANTS
  Theme = "path"
  MaxFd = 4
  MaxLen = 6
  MaxPipe = 2
  MaxH = 0
VIEW view
CONSTRAINT Bounded
INVARIANT TypeOK
INVARIANT NoDanglingOfd
INVARIANT TreeClosed
INVARIANT NoIgnoredPending
INVARIANT EmitState
