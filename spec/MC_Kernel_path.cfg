SPECIFICATION Spec
CONSTANTS
  Theme = "path"
  MaxFd = 4
  MaxH = 1
VIEW view
CONSTRAINT Bounded
INVARIANT TypeOK
INVARIANT NoDanglingOfd
INVARIANT TreeClosed
INVARIANT NoIgnoredPending
INVARIANT EmitState
