------------------------------ MODULE ArrayVars ------------------------------
(***************************************************************************)
(* Growth module G13: array variables and multi-valued parameters (a yash  *)
(* extension; the manual under docs/src and the public doc comments are    *)
(* the contract).  This module is the multi-valued extension of the word   *)
(* expansion oracle of C01 (Expand.tla, Split.tla, Chars.tla, extended     *)
(* here read-only): a variable holds nothing, a scalar or an array of      *)
(* n >= 0 strings, and a parameter expansion of an array behaves like the  *)
(* special parameter @ does for the positional parameters.                 *)
(*                                                                         *)
(* Sources (cited as [V] etc. below):                                      *)
(*  [V]  docs/src/language/parameters/variables.md  (Arrays: "fruits=(apple*)
(*       banana cherry)", "To access all elements, use the array name in   *)
(*       parameter expansion": `for fruit in "$fruits"` yields one item    *)
(*       per element; Defining variables: no field splitting in a scalar   *)
(*       assignment; Read-only variables; Removing variables)              *)
(*  [P]  docs/src/language/words/parameters.md  (length "can be used with  *)
(*       arrays or special parameters * or @, applying the modifier to     *)
(*       each element"; switch: unset / unset or empty; "Assignment only   *)
(*       works for variables"; nounset does not apply to switches; trim;   *)
(*       the modifiers on * and @ are accepted unless `portable`)          *)
(*  [S]  docs/src/language/parameters/special.md  (@: separate fields,     *)
(*       unquoted: field splitting, "$@" zero fields without parameters;   *)
(*       "In contexts where only one field is expected ... joined by the   *)
(*       first character of the IFS variable (defaults to space if unset,  *)
(*       or no separator if IFS is empty)"; *: joined inside double quotes)*)
(*  [F]  docs/src/language/words/field_splitting.md ("Field splitting only *)
(*       happens where words are expected, such as simple command words,   *)
(*       for loop words, and array assignments.  It does not occur in      *)
(*       contexts expecting a single word, like scalar assignments or case *)
(*       patterns")                                                        *)
(*  [C]  docs/src/language/commands/simple.md (assignments; read-only      *)
(*       error aborts the command; temporary assignments are exported)     *)
(*  [B]  docs/src/builtins/{typeset,export,readonly,unset,read,set}.md     *)
(*  [D]  public doc comments: yash_semantics::expansion (expand_value: "A  *)
(*       scalar and array value are expanded by expand_word and            *)
(*       expand_words"; expand_word_attr "joins the resultant phrase into  *)
(*       a field"; Phrase::ifs_join), expansion::initial::Vacancy (the     *)
(*       four states "that may be considered as not set": unset, empty     *)
(*       scalar, array without elements, array of one empty string;        *)
(*       VacantError / the notes of the assignment error name them),       *)
(*       yash_syntax::syntax::SwitchCondition ("With a colon, the switch   *)
(*       is triggered if the parameter is unset or empty"), yash_env::     *)
(*       variable::VariableSet::env_c_strings ("array items are            *)
(*       concatenated with a : between them"), Value::quote.               *)
(*                                                                         *)
(* Left open (outcome "skip", counted by the check, never compared):       *)
(*  - the switch modifiers without a colon on @ and * when there is no     *)
(*    positional parameter (neither [P] nor [S] says whether @ is then     *)
(*    "unset"; with a colon [D] Vacancy decides, and param-p.sh            *)
(*    'assigning to special parameter' relies on it);                      *)
(*  - switch / trim modifiers on #  (ambiguous syntax, see [P]);           *)
(*  - a zero-field expansion next to other text that is empty, inside one  *)
(*    pair of double quotes (XCU 2.5.2 leaves zero fields or one empty     *)
(*    field open for "$@"; the manual is silent for arrays): both allowed; *)
(*  - IFS being an array;                                                  *)
(*  - trim patterns outside the fragment of Expand.tla (brackets, ...);    *)
(*  - nested double quotes, single quotes inside double quotes.            *)
(***************************************************************************)
EXTENDS Expand

Names == {"a", "b", "c", "IFS"}

(* Values.  All three shapes carry the same fields so that JSON stays      *)
(* mono-typed.  A variable is a value plus its attributes.                 *)
VU == [k |-> "u", s |-> "", e |-> <<>>]
VS(s) == [k |-> "s", s |-> s, e |-> <<>>]
VA(e) == [k |-> "a", s |-> "", e |-> e]
Var(v, ro, ex) == [k |-> v.k, s |-> v.s, e |-> v.e, ro |-> ro, ex |-> ex]
ValOf(x) == [k |-> x.k, s |-> x.s, e |-> x.e]
NoVar == Var(VU, FALSE, FALSE)

(* Shell state: [a, b, c, IFS : variable, pos : Seq(STRING), nounset].     *)
Fresh == [a |-> NoVar, b |-> NoVar, c |-> NoVar, IFS |-> NoVar, pos |-> <<>>, nounset |-> FALSE]

SetVal(st, n, v) == [st EXCEPT ![n] = Var(v, st[n].ro, st[n].ex)]

(* IFS in the form Expand.tla / Split.tla use.                             *)
IfsOpen(st) == st.IFS.k = "a"
IfsRec(st) == IF st.IFS.k = "s" THEN Val(st.IFS.s) ELSE Unset
IfsCh(st) == LET r == IfsRec(st) IN [set |-> r.set, v |-> Chars(r.v)]

---------------------------------------------------------------------------
(* Parameters: every parameter has a value of one of the three shapes.     *)
(* [S]: @ and * are "all positional parameters".                           *)
PVal(p, st) ==
  CASE p \in Names -> ValOf(st[p])
    [] p \in {"@", "*"} -> VA(st.pos)
    [] p = "1" -> IF Len(st.pos) >= 1 THEN VS(st.pos[1]) ELSE VU
    [] p = "2" -> IF Len(st.pos) >= 2 THEN VS(st.pos[2]) ELSE VU
    [] p = "#" -> VS(ToString(Len(st.pos)))

IsMulti(p, st) == PVal(p, st).k = "a"

SoftField(s) == ACs(Chars(s), "exp")

(* The fields a value expands to.  [V]/[S]: one field per element, zero    *)
(* fields for no element; an unset parameter expands to an empty string.   *)
ValPhrase(v) ==
  CASE v.k = "u" -> OneEmptyField
    [] v.k = "s" -> <<SoftField(v.s)>>
    [] v.k = "a" -> [i \in DOMAIN v.e |-> SoftField(v.e[i])]

(* [S] "*": inside double quotes a single field joined by the first        *)
(* character of IFS.  (Only * does this; an array in double quotes keeps   *)
(* its elements apart like "$@", [V].)                                     *)
Finish(p, ph, st, dq) ==
  IF p = "*" /\ dq THEN <<JoinFields(ph, IfsRec(st))>> ELSE ph

(* [D] Vacancy *)
Vacancy(v) ==
  CASE v.k = "u" -> "unset"
    [] v.k = "s" /\ v.s = "" -> "empty"
    [] v.k = "a" /\ v.e = <<>> -> "noelem"
    [] v.k = "a" /\ v.e = <<"">> -> "emptyelem"
    [] OTHER -> "none"

(* [P] / [D] SwitchCondition *)
Triggered(colon, v) == Vacancy(v) = "unset" \/ (colon /\ Vacancy(v) # "none")

---------------------------------------------------------------------------
(* Candidates for the zero-fields-or-one-empty-field question: a pair of   *)
(* double quotes containing a multi-valued parameter that has no element   *)
(* at the start of the unit, together with anything else.                  *)
RECURSIVE HasZero(_, _)
HasZero(us, st) ==
  \E i \in DOMAIN us :
     \/ us[i].t = "par" /\ us[i].p # "*" /\ PVal(us[i].p, st) = VA(<<>>)
     \/ us[i].t = "par" /\ us[i].m \in {"sw", "trim"} /\ HasZero(us[i].w, st)
     \/ us[i].t = "dq" /\ HasZero(us[i].u, st)
(* not a candidate: the expansion is alone inside the quotes (also when it  *)
(* is the word of a switch that is alone, and so on)                       *)
RECURSIVE SoleMulti(_, _)
SoleMulti(us, st) ==
  /\ Len(us) = 1 /\ us[1].t = "par"
  /\ us[1].m = "sw" => (~HasZero(us[1].w, st) \/ SoleMulti(us[1].w, st))
AAmbCandidate(us, st) == HasZero(us, st) /\ ~SoleMulti(us, st)

RECURSIVE AAmbCount(_, _)
AAmbCount(us, st) ==
  IF us = <<>> THEN 0
  ELSE LET u == Head(us)
           here == CASE u.t = "dq" -> (IF AAmbCandidate(u.u, st) THEN 1 ELSE 0) + AAmbCount(u.u, st)
                     [] u.t = "par" /\ u.m \in {"sw", "trim"} -> AAmbCount(u.w, st)
                     [] OTHER -> 0
       IN here + AAmbCount(Tail(us), st)

---------------------------------------------------------------------------
(* Initial expansion: the structure of Expand.tla's XUnits, with values of *)
(* three shapes.  Result [ph, st, err, msg]; err as in Expand.tla plus     *)
(* "readonly".                                                             *)
RECURSIVE AUnits(_, _, _, _), AFold(_, _, _, _, _), AUnit(_, _, _, _)

AUnits(us, st, dq, o) ==
  IF us = <<>> THEN Res(OneEmptyField, st)
  ELSE AFold(us, 1, Res(ZeroFields, st), dq, o)

AFold(us, i, acc, dq, o) ==
  IF i > Len(us) \/ acc.err # "" THEN acc
  ELSE LET r == AUnit(us[i], acc.st, dq, o)
       IN AFold(us, i + 1, [r EXCEPT !.ph = PhAppend(acc.ph, r.ph)], dq, o)

(* the text a single-field context makes of a phrase: [S], [D] ifs_join    *)
AText(r) == Str(Plain(RemoveQuotes(JoinFields(r.ph, IfsRec(r.st)))))

ASwitch(u, st, dq, o) ==
  LET v == PVal(u.p, st)
      trig == Triggered(u.colon, v)
      plain == Res(Finish(u.p, ValPhrase(v), st, dq), st)
      word == AUnits(u.w, st, dq, o)
      soft == [word EXCEPT !.ph = Soften(word.ph)]
  IN CASE u.act = "+" -> IF trig THEN plain ELSE soft
       [] u.act = "-" -> IF trig THEN soft ELSE plain
       [] u.act = "=" ->
            IF ~trig THEN plain
            ELSE IF word.err # "" THEN word
            ELSE IF u.p \notin Names THEN Err("nonassignable", word.st, "")      \* [P]
            ELSE IF word.st[u.p].ro THEN Err("readonly", word.st, "")            \* [V]
            ELSE LET s == AText(word)                                            \* [P] quote removal, [D] assign
                 IN Res(<<SoftField(s)>>, SetVal(word.st, u.p, VS(s)))
       [] u.act = "?" ->
            IF ~trig THEN plain
            ELSE IF word.err # "" THEN word
            ELSE Err("vacant", word.st, IF u.w = <<>> THEN "" ELSE AText(word))

(* [P] trim: "removes ... from a parameter's value"; for a multi-valued    *)
(* parameter every element is a value (as for the length modifier).        *)
ATrim(u, st, dq, o) ==
  LET v == PVal(u.p, st) IN
  IF v.k = "u" THEN (IF st.nounset THEN Err("unset", st, "") ELSE Res(OneEmptyField, st))
  ELSE LET r == AUnits(u.w, st, FALSE, o) IN
       IF r.err # "" THEN r
       ELSE LET pf == JoinFields(r.ph, IfsRec(r.st))
                pat == PatChars(pf)
                TrimStr(s) == Str(TrimValue(Chars(s), pat, u.side, u.long))
                tv == IF v.k = "s" THEN VS(TrimStr(v.s)) ELSE VA([i \in DOMAIN v.e |-> TrimStr(v.e[i])])
            IN IF ~PatSupported(pf) THEN Err("skip", r.st, "")
               ELSE Res(Finish(u.p, ValPhrase(tv), r.st, dq), r.st)

AParam(u, st, dq, o) ==
  LET v == PVal(u.p, st) IN
  CASE u.m = "none" ->
         IF v.k = "u" /\ st.nounset THEN Err("unset", st, "")
         ELSE Res(Finish(u.p, ValPhrase(v), st, dq), st)
    [] u.m = "len" ->                                  \* [P] Length
         IF v.k = "u" THEN (IF st.nounset THEN Err("unset", st, "") ELSE Res(<<SoftField("0")>>, st))
         ELSE LET LenStr(s) == ToString(Len(s))
                  lv == IF v.k = "s" THEN VS(LenStr(v.s)) ELSE VA([i \in DOMAIN v.e |-> LenStr(v.e[i])])
              IN Res(Finish(u.p, ValPhrase(lv), st, dq), st)
    [] u.m = "sw" ->
         IF u.p = "#" THEN Err("skip", st, "")
         ELSE IF u.p \in {"@", "*"} /\ ~u.colon /\ v.e = <<>> THEN Err("skip", st, "")
         ELSE ASwitch(u, st, dq, o)
    [] u.m = "trim" ->
         IF u.p = "#" THEN Err("skip", st, "")
         ELSE ATrim(u, st, dq, o)

AUnit(u, st, dq, o) ==
  CASE u.t = "lit" -> Res(<<<<AC(u.c, "lit")>>>>, st)
    [] u.t = "bs" ->
         IF ~dq \/ u.c \in DqEscapable
         THEN Res(<<<<AC("\\", "qm"), AC(u.c, "qtd")>>>>, st)
         ELSE Res(<<<<AC("\\", "lit"), AC(u.c, "lit")>>>>, st)
    [] u.t = "sq" ->
         IF dq THEN Err("skip", st, "")
         ELSE Res(<< <<AC("'", "qm")>> \o ACs(Chars(u.s), "qtd") \o <<AC("'", "qm")>> >>, st)
    [] u.t = "dq" ->
         IF dq THEN Err("skip", st, "")
         ELSE LET r == AUnits(u.u, st, TRUE, o) IN
              IF r.err # "" THEN r
              ELSE IF AAmbCandidate(u.u, st) /\ NoChars(r.ph)
                   THEN Res(IF o THEN <<QuoteField(<<>>)>> ELSE ZeroFields, r.st)
                   ELSE Res([i \in DOMAIN r.ph |-> QuoteField(r.ph[i])], r.st)
    [] u.t = "par" -> IF IfsOpen(st) THEN Err("skip", st, "") ELSE AParam(u, st, dq, o)

---------------------------------------------------------------------------
(* Expansion of a list of words where fields are expected ([F]: command    *)
(* words, for-loop words, array assignments; also `set --` operands) and   *)
(* of one word where a single field is expected ([F], [S]: scalar          *)
(* assignment, case subject, redirection operand, here-document text).     *)
(* Result [k, f, j, st]: k = "ok" / an error kind / "skip"; f the fields;  *)
(* j the single text; st the state afterwards (${n=w} assigns).            *)
Out(k, f, j, st) == [k |-> k, f |-> f, j |-> j, st |-> st]

RECURSIVE AWords(_, _, _, _, _)
AWords(ws, i, acc, st, o) ==          \* acc: fields so far
  IF i > Len(ws) THEN Out("ok", acc, "", st)
  ELSE LET r == AUnits(ws[i], st, FALSE, o) IN
       IF r.err # "" THEN Out(r.err, <<>>, r.msg, r.st)
       ELSE IF IfsOpen(r.st) THEN Out("skip", <<>>, "", r.st)
       ELSE LET F == SplitFields(r.ph, IfsCh(r.st))
            IN AWords(ws, i + 1, acc \o [k \in DOMAIN F |-> Str(Plain(RemoveQuotes(F[k])))], r.st, o)

FieldsWith(ws, st, o) == AWords(ws, 1, <<>>, st, o)

SingleWith(w, st, o) ==
  LET r == AUnits(w, st, FALSE, o) IN
  IF r.err # "" THEN Out(r.err, <<>>, r.msg, r.st)
  ELSE IF IfsOpen(r.st) THEN Out("skip", <<>>, "", r.st)
  ELSE Out("ok", <<>>, AText(r), r.st)

(* one word, both readings computed from one initial expansion (f: where    *)
(* fields are expected, j: where a single field is expected)               *)
WordWith(w, st, o) ==
  LET r == AUnits(w, st, FALSE, o) IN
  IF r.err # "" THEN Out(r.err, <<>>, r.msg, r.st)
  ELSE IF IfsOpen(r.st) THEN Out("skip", <<>>, "", r.st)
  ELSE LET F == SplitFields(r.ph, IfsCh(r.st))
       IN Out("ok", [k \in DOMAIN F |-> Str(Plain(RemoveQuotes(F[k])))], AText(r), r.st)

RECURSIVE AmbOfWords(_, _)
AmbOfWords(ws, st) == IF ws = <<>> THEN 0 ELSE AAmbCount(Head(ws), st) + AmbOfWords(Tail(ws), st)

(* One or two allowed outcomes.  More than one ambiguous unit: skipped.    *)
Allowed(n, A(_), st) ==
  IF n >= 2 THEN <<Out("skip", <<>>, "", st)>>
  ELSE LET x == A(FALSE) IN
       IF x.k = "skip" THEN <<Out("skip", <<>>, "", st)>>
       ELSE IF n = 0 THEN <<x>>
       ELSE LET y == A(TRUE) IN IF x = y THEN <<x>> ELSE <<x, y>>

Fields(ws, st) == LET A(o) == FieldsWith(ws, st, o) IN Allowed(AmbOfWords(ws, st), A, st)
Single(w, st) == LET A(o) == SingleWith(w, st, o) IN Allowed(AAmbCount(w, st), A, st)
Word(w, st) == LET A(o) == WordWith(w, st, o) IN Allowed(AAmbCount(w, st), A, st)

(* The text of a here-document is not a word: quotes are ordinary          *)
(* characters there.  Words of literal ordinary characters and unmodified  *)
(* or length expansions mean the same in both places.                      *)
HereChars == {"x", "y", "z", "v", "w", "p", "q", ":", " ", "-", "e", "*", "?"}
HereWord(w) == \A i \in DOMAIN w :
                  \/ w[i].t = "lit" /\ w[i].c \in HereChars
                  \/ w[i].t = "par" /\ w[i].m \in {"none", "len"}

(* A file name the redirection family may create in the scratch directory. *)
SafeName(j) == /\ j # "" /\ j \notin {".", ".."}
               /\ \A i \in 1..Len(j) : SubSeq(j, i, i) \in HereChars \ {"e"}

---------------------------------------------------------------------------
(* Commands.  Step(st, cmd) gives the sequence of allowed results          *)
(*   [k, f, j, st, x]                                                      *)
(* k = "ok": completed; f / j: what the command shows (see each command);  *)
(*   st: state afterwards;                                                 *)
(* k = "fail": the command fails with a non-zero status, the shell goes on *)
(*   with st ([B] read: "the exit status is two or higher");               *)
(* k = an error kind: the command is aborted, the non-interactive shell    *)
(*   exits with a non-zero status ([C] "the error is reported and the      *)
(*   command is aborted"; XCU 2.8.1 variable assignment error / expansion  *)
(*   error / special built-in error);                                      *)
(* k = "skip": left open.                                                  *)
(* x: environment shown to an external utility (command "env" only).       *)
Rs(k, f, j, st) == [k |-> k, f |-> f, j |-> j, st |-> st, x |-> <<>>]
FromOut(o) == Rs(o.k, o.f, o.j, o.st)
MapSeq(s, Op(_)) == [i \in DOMAIN s |-> Op(s[i])]

(* [D] env_c_strings: name=value of every exported variable that has a     *)
(* value; array items are joined with ":".  Restricted to a, b, c.         *)
RECURSIVE JoinStr(_, _)
JoinStr(e, sep) == IF e = <<>> THEN "" ELSE IF Len(e) = 1 THEN e[1] ELSE e[1] \o sep \o JoinStr(Tail(e), sep)
EnvOf1(n, x) == IF ~x.ex \/ x.k = "u" THEN <<>>
                ELSE << n \o "=" \o (IF x.k = "s" THEN x.s ELSE JoinStr(x.e, ":")) >>
EnvOf(st) == EnvOf1("a", st.a) \o EnvOf1("b", st.b) \o EnvOf1("c", st.c)

(* [B] typeset -p / export -p / readonly -p NAME: "a format that can be    *)
(* evaluated as shell code to recreate the variables"; for an array "a     *)
(* separate assignment command precedes" the built-in invocation, which    *)
(* typeset omits "if no options are applied".  The shape is a sequence of  *)
(* line kinds ("asg" = NAME=(...) ; "typeset", "typeset -r", "typeset -x", *)
(* "typeset -r -x", "export", "readonly" = invocation naming NAME, for a   *)
(* scalar with =value); f = the shape, st.c... the re-read variable is     *)
(* reported in j-free form by PrintReread.                                 *)
PrintShape(how, x) ==
  LET opts == (IF x.ro THEN " -r" ELSE "") \o (IF x.ex THEN " -x" ELSE "")
  IN IF how = "typeset"
     THEN (IF x.k = "a" THEN <<"asg">> \o (IF opts = "" THEN <<>> ELSE <<"typeset" \o opts>>)
           ELSE <<"typeset" \o opts>>)
     ELSE (IF x.k = "a" THEN <<"asg", how>> ELSE <<how>>)
(* what a fresh shell holds in NAME after evaluating the printed text      *)
PrintReread(how, x) ==
  CASE how = "typeset" -> x
    [] how = "export" -> Var(ValOf(x), FALSE, TRUE)      \* [B] export.md: no options to restore -r
    [] how = "readonly" -> Var(ValOf(x), TRUE, FALSE)    \* [B] readonly.md: no options to restore -x
PrintDefined(how, x) ==
  /\ x.k # "u"
  /\ how = "export" => x.ex
  /\ how = "readonly" => x.ro

StepAssign(st, n, o, v) ==       \* o: the expansion outcome; v: the value it gives
  IF o.k # "ok" THEN FromOut(o)
  ELSE IF o.st[n].ro THEN Rs("readonly", <<>>, "", o.st)      \* [V], [C]
  ELSE Rs("ok", <<>>, "", SetVal(o.st, n, v))

ReadValues(line, st) ==          \* [B] read with one variable: Split.tla
  { Str(v[1]) : v \in ReadAllowed(SoftField(line), 1, IfsCh(st)) }
RECURSIVE SeqOfStrSet(_)
SeqOfStrSet(S) == IF S = {} THEN <<>> ELSE LET x == CHOOSE x \in S : TRUE IN <<x>> \o SeqOfStrSet(S \ {x})

Step(st, cmd) ==
  CASE cmd.c \in {"probe", "for"} ->          \* shows the fields
         MapSeq(Fields(cmd.ws, st), FromOut)
    [] cmd.c = "set" ->                         \* [B] set -- words
         MapSeq(Fields(cmd.ws, st),
                LAMBDA o : IF o.k # "ok" THEN FromOut(o) ELSE Rs("ok", <<>>, "", [o.st EXCEPT !.pos = o.f]))
    [] cmd.c = "arr" ->                         \* [V] n=(words), [F], [D] expand_value
         MapSeq(Fields(cmd.ws, st), LAMBDA o : StepAssign(st, cmd.n, o, VA(o.f)))
    [] cmd.c = "sca" ->                         \* [V] n=word
         MapSeq(Single(cmd.w, st), LAMBDA o : StepAssign(st, cmd.n, o, VS(o.j)))
    [] cmd.c \in {"case", "here"} ->            \* shows the single text
         MapSeq(Single(cmd.w, st), FromOut)
    [] cmd.c = "redir" ->                       \* : >word creates the file named by the single text
         MapSeq(Single(cmd.w, st),
                LAMBDA o : IF o.k = "ok" /\ ~SafeName(o.j) THEN Rs("skip", <<>>, "", st) ELSE FromOut(o))
    [] cmd.c = "unset" ->                       \* [B] unset; [V] Removing variables
         IF st[cmd.n].ro THEN <<Rs("readonly", <<>>, "", st)>>
         ELSE <<Rs("ok", <<>>, "", [st EXCEPT ![cmd.n] = NoVar])>>
    [] cmd.c = "ro" -> <<Rs("ok", <<>>, "", [st EXCEPT ![cmd.n].ro = TRUE])>>        \* [B] readonly: value retained
    [] cmd.c = "export" -> <<Rs("ok", <<>>, "", [st EXCEPT ![cmd.n].ex = TRUE])>>
    [] cmd.c = "read" ->                        \* [B] read: never an array
         IF IfsOpen(st) THEN <<Rs("skip", <<>>, "", st)>>
         ELSE IF st[cmd.n].ro THEN <<Rs("fail", <<>>, "", st)>>
         ELSE MapSeq(SeqOfStrSet(ReadValues(cmd.line, st)),
                     LAMBDA s : Rs("ok", <<>>, "", SetVal(st, cmd.n, VS(s))))
    [] cmd.c = "print" ->                       \* f = shape; j unused; the re-read variable in x
         IF ~PrintDefined(cmd.how, st[cmd.n]) THEN <<Rs("skip", <<>>, "", st)>>
         ELSE <<[Rs("ok", PrintShape(cmd.how, st[cmd.n]), "", st) EXCEPT !.x = <<PrintReread(cmd.how, st[cmd.n])>>]>>
    [] cmd.c = "env" ->                         \* [C], [D]
         <<[Rs("ok", <<>>, "", st) EXCEPT !.x = EnvOf(st)]>>
    [] cmd.c = "tmpenv" ->                      \* n=(words) utility: exported for the utility only ([C])
         MapSeq(Fields(cmd.ws, st),
                LAMBDA o : IF o.k # "ok" THEN FromOut(o)
                           ELSE IF o.st[cmd.n].ro THEN Rs("readonly", <<>>, "", o.st)
                           ELSE [Rs("ok", <<>>, "", o.st) EXCEPT
                                   !.x = EnvOf([o.st EXCEPT ![cmd.n] = Var(VA(o.f), FALSE, TRUE)])])
    [] cmd.c = "nounset" -> <<Rs("ok", <<>>, "", [st EXCEPT !.nounset = cmd.on])>>

(* The `portable` option ([P] Compatibility, docs/src/posix.md "Features    *)
(* that cause an error": "The shell reports an error and does not run the  *)
(* construct"): a length or switch modifier on * or @, a trim modifier on  *)
(* #, * or @, and every array assignment are rejected when the command is  *)
(* parsed; everything else is unaffected.                                  *)
RECURSIVE PortableRejects(_)
PortableRejects(us) ==
  \E i \in DOMAIN us :
     LET u == us[i] IN
     \/ u.t = "dq" /\ PortableRejects(u.u)
     \/ u.t = "par" /\ u.p \in {"@", "*"} /\ u.m \in {"len", "sw"}
     \/ u.t = "par" /\ u.p \in {"#", "@", "*"} /\ u.m = "trim"
     \/ u.t = "par" /\ u.m \in {"sw", "trim"} /\ PortableRejects(u.w)
CmdRejected(cmd) ==
  CASE cmd.c \in {"arr", "tmpenv"} -> TRUE
    [] cmd.c \in {"probe", "for", "set"} -> \E i \in DOMAIN cmd.ws : PortableRejects(cmd.ws[i])
    [] cmd.c \in {"sca", "case", "here", "redir"} -> PortableRejects(cmd.w)
    [] OTHER -> FALSE
(* result kind "syntax": nothing of the command is executed, the           *)
(* non-interactive shell exits with a non-zero status                      *)
StepPortable(st, cmd) == IF CmdRejected(cmd) THEN <<Rs("syntax", <<>>, "", st)>> ELSE Step(st, cmd)

(* command constructors *)
CProbe(ws) == [c |-> "probe", ws |-> ws]
CFor(ws) == [c |-> "for", ws |-> ws]
CSet(ws) == [c |-> "set", ws |-> ws]
CArr(n, ws) == [c |-> "arr", n |-> n, ws |-> ws]
CSca(n, w) == [c |-> "sca", n |-> n, w |-> w]
CCase(w) == [c |-> "case", w |-> w]
CHere(w) == [c |-> "here", w |-> w]
CRedir(w) == [c |-> "redir", w |-> w]
CUnset(n) == [c |-> "unset", n |-> n]
CRo(n) == [c |-> "ro", n |-> n]
CExport(n) == [c |-> "export", n |-> n]
CRead(n, line) == [c |-> "read", n |-> n, line |-> line]
CPrint(how, n) == [c |-> "print", how |-> how, n |-> n]
CEnv == [c |-> "env"]
CTmpEnv(n, ws) == [c |-> "tmpenv", n |-> n, ws |-> ws]
CNounset(on) == [c |-> "nounset", on |-> on]

(* a run: commands in order until one exits the shell; deterministic runs  *)
(* only (first allowed result), used for witnesses and calibration         *)
RECURSIVE Run(_, _)
Run(st, cmds) ==
  IF cmds = <<>> THEN st
  ELSE LET r == Step(st, Head(cmds))[1] IN
       IF r.k \in {"ok", "fail"} THEN Run(r.st, Tail(cmds)) ELSE r.st

(* Does an observation agree with a result?  obs = [k, f, j, st, x] with   *)
(* k = "ok" (completed, status 0), "fail" (completed, non-zero status) or  *)
(* "exit" (the shell exited with a non-zero status before the end).        *)
AgreesR(cmd, obs, r) ==
  CASE r.k = "ok" ->
         /\ obs.k = "ok" /\ obs.st = r.st
         /\ cmd.c \in {"probe", "for", "print"} => obs.f = r.f
         /\ cmd.c \in {"case", "here", "redir"} => obs.j = r.j
         /\ cmd.c \in {"env", "tmpenv", "print"} => obs.x = r.x
    [] r.k = "fail" -> obs.k = "fail" /\ obs.st = r.st
    [] OTHER ->
         \* an expansion error inside a redirection (here-document text, operand) is a
         \* redirection error: whether the shell exits depends on the utility (XCU 2.8.1);
         \* that is not this module's subject, both are accepted
         \/ obs.k = "exit"
         \/ cmd.c \in {"here", "redir"} /\ obs.k = "fail" /\ obs.st = r.st
=============================================================================
