
