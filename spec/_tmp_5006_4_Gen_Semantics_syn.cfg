SPECIFICATION Spec
CONSTANTS
  Fuel = 24
  TickLimit = 2
  K = 4
  Alphabet <- AlphaSyn
  ItemAlphabet <- NoItems
  Mode = "syn"
INVARIANT Emit
CHECK_DEADLOCK FALSE
