SPECIFICATION Spec
CONSTANT Fams = {"eof"}
CONSTANT Deep = 0
CONSTANT Variant = "noreset"
INVARIANT Refute
