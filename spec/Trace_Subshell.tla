--------------------------- MODULE Trace_Subshell ---------------------------
(***************************************************************************)
(* P3 validation for C08.  One record per (scenario, distinct observation) *)
(* produced by harness/c08: the scenario (shell texts from Subshell.tla),  *)
(* the observed first snapshot `init` (flat map) and the differences       *)
(*   d_before = init -> before        (the parent's prelude)               *)
(*   ch[j].d_entry = before -> entry  (what the subshell sees first)       *)
(*   ch[j].d_end   = entry -> end     (what the subshell did to itself)    *)
(*   d_after  = before -> after       (what the parent sees afterwards)    *)
(* each a sequence of [k, o, n] (key, old, new; "-" = absent).             *)
(*                                                                         *)
(* Judged with the operators of Subshell.tla:                              *)
(*   entry : entry  = ForkImageK(before, kind, role) on MK; no other key   *)
(*           differs from the parent's             -> finding "entry"      *)
(*   leak  : after  = ApplySeq(before, post)       on MK; no other key     *)
(*           changes except the own steps' extra footprint                 *)
(*                                                 -> finding "leak"       *)
(*           and the subshell's process runs no trap action it did not     *)
(*           install itself (ch[j].probes, oprobes) -> finding "entry"     *)
(*   end   : end    = ApplySeq(entry, child steps) on MK (anti-vacuity:    *)
(*           the mutation did happen in the child) -> "end"    (tool)      *)
(*   a redirection-only command (>>file$((a=1))) inside pre / a subshell   *)
(*   body / post is a subshell of its own: a change of its footprint in    *)
(*   the environment executing it             -> finding "leak"            *)
(*   drift : init = InitMap, before = ApplySeq(InitMap, pre) on MK         *)
(*                                                 -> "drift"  (tool)      *)
(*   abnormal outcome / missing snapshot         -> "abnormal" (tool)      *)
(* (r.inparent lists subshell bodies that ran in the parent's process; it  *)
(* is informational: what such a body changes shows as a leak.)            *)
(* Every record is judged (no early stop); a line                          *)
(* {"line": l, "id": .., "v": [[c, k, expected, observed], ..]} is printed *)
(* for each record with a non-empty verdict.                               *)
(***************************************************************************)
EXTENDS Subshell, IOUtils

Rec == ndJsonDeserialize(IOEnv.TRACE)

VARIABLE l
tvars == <<l>>

Get(m, k) == IF k \in DOMAIN m THEN m[k] ELSE "-"
DGet(d, dflt, k) ==
  IF \E i \in 1..Len(d) : d[i].k = k
  THEN d[CHOOSE i \in 1..Len(d) : d[i].k = k].n
  ELSE dflt
DKeys(d) == {d[i].k : i \in 1..Len(d)}

(* Does the observed map V agree with the model map M on key k?  Model      *)
(* values naming an open file description created during the scenario are  *)
(* symbolic: the observed identity must be new (not in Ref) and equal       *)
(* exactly where the model's are equal.                                     *)
KeyOK(M, V(_), Ref, k) ==
  IF M[k] \in SymSet
  THEN /\ V(k) # "-"
       /\ V(k) \notin Ref
       /\ \A k2 \in FdKeys : (M[k2] = M[k]) <=> (V(k2) = V(k))
  ELSE V(k) = M[k]
(* M is the model's successor of the map B, V the observed successor given  *)
(* as B's observation patched with the difference list d: only keys that    *)
(* either side changed can disagree.                                        *)
BadKeys(M, B, V(_), d, Ref) ==
  {k \in (DKeys(d) \cap MK) \cup {x \in MK : M[x] # B[x]} : ~KeyOK(M, V, Ref, k)}

Verdict(r) ==
  LET sc   == r.sc
      kind_ == sc.kind
      roles == Roles(kind_)
      \* the driver replaces an `init` equal to that of the first record by {"same": "1"}
      init_ == IF "same" \in DOMAIN r.init THEN Rec[1].init ELSE r.init
      Vinit(k)   == Get(init_, k)
      Vbefore(k) == DGet(r.d_before, Vinit(k), k)
      Vafter(k)  == DGet(r.d_after, Vbefore(k), k)
      Ventry(j, k) == DGet(r.ch[j].d_entry, Vbefore(k), k)
      Vend(j, k)   == DGet(r.ch[j].d_end, Ventry(j, k), k)
      Ob == [k \in MK |-> Vbefore(k)]
      RefInit   == {Vinit(k) : k \in FdKeys}
      RefBefore == {Ob[k] : k \in FdKeys}
      nch == Len(roles)
      (* A subshell that never takes its entry snapshot although the run completed and *)
      (* the parent went on to its last snapshot did not start from the fork image    *)
      (* (e.g. it was killed at once by a signal it was never sent): a violation of   *)
      (* "on entry the subshell sees a copy of the parent's state", not a tool error  *)
      entrymiss == {r.miss[i] : i \in {x \in 1..Len(r.miss) : Len(r.miss[x]) >= 5 /\ SubSeq(r.miss[x], 1, 5) = "entry"}}
      parentmiss == {r.miss[i] : i \in {x \in 1..Len(r.miss) : r.miss[x] \in {"after", "before", "init"}}}
      abnormal ==
         IF r.outcome = "completed" /\ entrymiss # {} /\ parentmiss = {} /\ Len(r.ch) = nch
         THEN {<<"entry", "snapshot:" \o m, "taken (the subshell starts from the fork image and runs)",
                 "missing: the subshell ended before its first command">> : m \in entrymiss}
         ELSE IF r.outcome # "completed" \/ r.miss # <<>> \/ Len(r.ch) # nch
         THEN {<<"abnormal", "outcome", "completed", r.outcome>>} ELSE {}
      Init0 == InitMapFor(sc.mode)
      drift0 == {<<"drift", k, Init0[k], Vinit(k)>> : k \in {x \in MK : Vinit(x) # Init0[x]}}
      Mb == EnterCtx(ApplySeq(Init0, sc.pre, "pre"), sc.ctx)
      (* a redirection-only command is a subshell of its own: a key of its     *)
      (* footprint that changes in the environment executing it is a leak     *)
      Nested(seq) == UNION {NestedFootprint(seq[i]) : i \in 1..Len(seq)}
      Class(seq, k, dflt) == IF k \in Nested(seq) THEN "leak" ELSE dflt
      drift1 == {<<Class(sc.pre, k, "drift"), k, Mb[k], Vbefore(k)>> :
                    k \in BadKeys(Mb, Init0, Vbefore, r.d_before, RefInit)}
      files == IF {r.files[i] : i \in 1..Len(r.files)}
                  = NestedFiles(sc.pre) \cup NestedFiles(sc.post) \cup UNION {NestedFiles(sc.ch[j]) : j \in 1..nch}
               THEN {} ELSE {<<"end", "files", "as the redirection-only commands prescribe", "different">>}
      EntryBad(j) ==
         LET Me == ForkImageK(Ob, kind_, roles[j])     \* (a negated pipeline is itself an errexit-exempt context)
             V(k) == Ventry(j, k)
         IN  {<<"entry", k, Me[k], V(k)>> : k \in BadKeys(Me, Ob, V, r.ch[j].d_entry, RefBefore)}
             \cup {<<"entry", k, Vbefore(k), V(k)>> : k \in DKeys(r.ch[j].d_entry) \ MK}
      (* keys whose entry value already deviates are reported there; what the *)
      (* child's own steps make of them is not judged                         *)
      EndBad(j) ==
         LET Oe == [k \in MK |-> Ventry(j, k)]
             Mend == ApplySeq(Oe, sc.ch[j], "c" \o ToString(j))
             V(k) == Vend(j, k)
             tainted == {t[2] : t \in EntryBad(j)}
         IN  {<<Class(sc.ch[j], k, "end"), k, Mend[k], V(k)>> :
                 k \in BadKeys(Mend, Oe, V, r.ch[j].d_end, RefBefore \cup {Oe[k] : k \in FdKeys}) \ tainted}
      (* behaviour: every trap action (`probe <tag>`) run by the subshell's   *)
      (* process is one the subshell installed itself; processes that are    *)
      (* neither the parent nor a subshell of the scenario (grandchildren)   *)
      (* run none                                                            *)
      ForeignRuns(j) ==
         {<<"entry", "trapaction:" \o r.ch[j].probes[i], "not run in the subshell", "run by the subshell">> :
             i \in {x \in 1..Len(r.ch[j].probes) :
                       ("cmd:probe " \o r.ch[j].probes[x]) \notin OwnActs(sc.ch[j])}}
      otherRuns ==
         {<<"entry", "trapaction:" \o r.oprobes[i], "not run", "run by a descendant of the subshell">> :
             i \in 1..Len(r.oprobes)}
      Ma == ApplySeq(Ob, sc.post, "post")
      extra == UNION {ExtraFootprint(sc.post[i]) : i \in 1..Len(sc.post)}
      leak == {<<"leak", k, Ma[k], Vafter(k)>> : k \in BadKeys(Ma, Ob, Vafter, r.d_after, RefBefore)}
              \cup {<<"leak", k, Vbefore(k), Vafter(k)>> : k \in (DKeys(r.d_after) \ MK) \ extra}
      data ==
         IF sc.fin # "normal" THEN {}    \* e.g. an interrupted substitution abandons its command
         ELSE IF kind_ = "CmdSubst" /\ r.out # "out" THEN {<<"drift", "out", "out", r.out>>}
         ELSE IF kind_ \in {"Pipe", "Pipe3", "Pipe4", "NotPipe", "NotPipe3"} /\ r.out # "data\n" THEN {<<"drift", "out", "data", r.out>>}
         ELSE {}
  IN IF abnormal # {} THEN abnormal
     ELSE drift0 \cup drift1 \cup leak \cup data \cup files
          \cup UNION {EntryBad(j) : j \in 1..nch} \cup UNION {EndBad(j) : j \in 1..nch}
          \cup UNION {ForeignRuns(j) : j \in 1..nch} \cup otherRuns

TraceInit == l = 1 /\ Init      \* the scenario machine's variables are idle here

TraceNext ==
  /\ l <= Len(Rec)
  /\ LET v == Verdict(Rec[l])
     IN IF v = {} THEN TRUE
        ELSE PrintT(ToJson([line |-> l, id |-> Rec[l].id, v |-> v]))
  /\ l' = l + 1
  /\ UNCHANGED vars

TraceSpec == TraceInit /\ [][TraceNext]_<<l, vars>>

(* all records were judged *)
Accepted ==
  LET d == TLCGet("stats").diameter
  IN IF d - 1 = Len(Rec) THEN TRUE
     ELSE Print(<<"REJECT", d, "not all records were judged">>, FALSE)
=============================================================================
