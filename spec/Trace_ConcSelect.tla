--------------------------- MODULE Trace_ConcSelect ---------------------------
(***************************************************************************)
(* impl -> spec: the events recorded by harness/g17 from the real          *)
(* Concurrent<S> (random task systems, random driver, random external      *)
(* events; one JSON record per event, `reset` starts a new run) must form  *)
(* behaviours of ConcSelect.  One step of the specification may produce    *)
(* several events (`ev'`); a step matches if its events equal the next     *)
(* records - event kind, task, arguments, result, sets, and the projection *)
(* of the world after the step.  The invariants of ConcSelect are checked  *)
(* on every state of the matched behaviour.                                *)
(*                                                                         *)
(* Verdicts are printed as JSON lines: {"v":"reject","i":n} (the record no *)
(* step explains; the rest of that run is skipped), {"v":"F1","i":n} (the  *)
(* known deviation G17-F1: O_NONBLOCK cleared by one operation while       *)
(* another operation on the same descriptor is still in flight; the rest   *)
(* of the run is skipped), {"v":"end","n":records,"runs":k}.               *)
(***************************************************************************)
EXTENDS ConcSelect, Json, IOUtils

Rec == ndJsonDeserialize(IOEnv.TRACE)

VARIABLES i, skip, runs
tvars == <<vars, i, skip, runs>>

TOps  == [k : {"R", "W", "WA", "S", "G", "D", "C", "Y"}, a : 0 .. 64, b : 0 .. 64]
TExts == [k : {"xw", "xr", "xc", "xs", "xt", "xn"}, a : 0 .. 64, b : 0 .. 64]

ExtKinds == {"xw", "xr", "xc", "xs", "xt", "xn"}

\* `se`: y of the record is the order in which the timer tasks were really
\* woken - any order that respects the deadlines (z of the model) is allowed
RECURSIVE NonDecr(_)
NonDecr(s) == IF Len(s) < 2 THEN TRUE ELSE s[1] <= s[2] /\ NonDecr(Tail(s))
DlOf(m, t) == LET k == CHOOSE j \in 1 .. Len(m[7]) : m[7][j] = t IN m[8][k]
SeOK(m, r) ==
  /\ Len(r.y) = Len(m[7])
  /\ {r.y[j] : j \in 1 .. Len(r.y)} = {m[7][j] : j \in 1 .. Len(m[7])}
  /\ NonDecr([j \in 1 .. Len(r.y) |-> DlOf(m, r.y[j])])

SameBut(m, r) ==   \* everything but the projection
  /\ m[1] = r.e /\ m[2] = r.t /\ m[3] = r.a /\ m[4] = r.b /\ m[5] = r.r /\ m[6] = r.x
  /\ IF m[1] = "se" THEN SeOK(m, r) ELSE m[7] = r.y /\ m[8] = r.z

Same(m, r) == SameBut(m, r) /\ (m[9] = <<>> \/ m[9] = r.w)

\* G17-F1: the record differs from the model only in O_NONBLOCK flags that
\* the code has cleared although an operation on the descriptor is in flight,
\* and two operations on that descriptor were in flight before the step
NbPos(j) == j > 1 + 3 * NP /\ j <= 1 + 5 * NP
FdOfPos(j) == j - (1 + 3 * NP) + 2
Overlap(fd) == Cardinality({t \in Tasks : InFlight(t, fd)}) >= 2
F1Like(m, r) ==
  /\ SameBut(m, r)
  /\ m[9] # <<>> /\ Len(m[9]) = Len(r.w) /\ m[9] # r.w
  /\ \A j \in 1 .. Len(r.w) :
       m[9][j] # r.w[j] => (NbPos(j) /\ m[9][j] = 1 /\ r.w[j] = 0 /\ Overlap(FdOfPos(j)))

R(k) == Rec[i + k - 1]
Fits == /\ Len(ev') >= 1 /\ i + Len(ev') - 1 <= Len(Rec)
EvOK == Fits /\ \A k \in 1 .. Len(ev') : Same(ev'[k], R(k))
EvF1 == /\ Fits
        /\ \A k \in 1 .. (Len(ev') - 1) : Same(ev'[k], R(k))
        /\ F1Like(ev'[Len(ev')], R(Len(ev')))

\* the step of the specification that the next record announces
Cand ==
  LET r == Rec[i] IN
  \/ r.e = "poll" /\ r.t \in Tasks /\ Poll(r.t)
  \/ r.e = "op" /\ r.t \in Tasks /\ r.r \in {"R", "W", "WA"} /\ IO(r.t, [k |-> r.r, a |-> r.a, b |-> r.b], TRUE)
  \/ r.e = "op" /\ r.t \in Tasks /\ r.r \in {"S", "G", "Y", "D", "C"} /\ Begin(r.t, [k |-> r.r, a |-> r.a, b |-> r.b])
  \/ r.e \in {"rd", "wr"} /\ cur # 0 /\ stg[cur] = "io" /\ IO(cur, opr[cur], FALSE)
  \/ r.e = "pe" /\ cur # 0 /\ Park(cur)
  \/ r.e \in {"pe", "res"} /\ cur # 0 /\ Cont(cur)
  \/ r.e = "pe" /\ cur # 0 /\ Finish(cur)
  \/ r.e \in {"sm", "sa"} /\ cur # 0 /\ D2(cur)
  \/ r.e = "cancel" /\ r.t \in Tasks /\ Cancel(r.t)
  \/ r.e = "sb" /\ SelBegin(r.a = 1)
  \/ r.e \in {"sw", "sr"} /\ SelCall
  \/ r.e = "sr" /\ SelWake
  \/ r.e = "se" /\ SelEnd
  \/ r.e \in ExtKinds /\ Ext([k |-> r.e, a |-> r.a, b |-> r.b])

Match   == Cand /\ EvOK
MatchF1 == Cand /\ EvF1

ResetStep ==
  LET r == Rec[i]
      b == {r.x[j] : j \in 1 .. Len(r.x)}
  IN
  /\ r.e = "reset"
  /\ occ' = [p \in Pipes |-> 0]
  /\ open' = [fd \in Fds |-> TRUE]
  /\ nb0' = [fd \in Fds |-> FALSE]
  /\ now' = 0
  /\ disp' = [s \in Sigs |-> "Default"]
  /\ blk' = b /\ base' = b
  /\ pnd' = {} /\ cgt' = <<>>
  /\ rkeys' = {} /\ wkeys' = {} /\ smset' = FALSE /\ sm' = {} /\ tch' = {}
  /\ ts' = [t \in Tasks |-> "new"]
  /\ pc' = [t \in Tasks |-> 0]
  /\ opr' = [t \in Tasks |-> NoOp]
  /\ stg' = [t \in Tasks |-> "idle"]
  /\ reg' = [t \in Tasks |-> NoReg]
  /\ wleft' = [t \in Tasks |-> 0]
  /\ got' = [t \in Tasks |-> <<>>]
  /\ cur' = 0 /\ sel' = "no" /\ sp' = NoSp /\ sr' = NoSr /\ saved' = {} /\ idl' = -1 /\ oc' = 0
  /\ xn' = 0 /\ sn' = 0 /\ spn' = 0
  /\ ev' = <<>> /\ h' = <<>>
  /\ skip' = FALSE
  /\ runs' = runs + 1
  /\ i' = i + 1

TraceInit == Init /\ i = 1 /\ skip = FALSE /\ runs = 0

TraceNext ==
  /\ i <= Len(Rec)
  /\ \/ ResetStep
     \/ /\ Rec[i].e # "reset" /\ ~skip
        /\ \/ Match /\ i' = i + Len(ev') /\ UNCHANGED <<skip, runs>>
           \/ /\ ~ENABLED Match
              /\ \/ /\ MatchF1 /\ i' = i + Len(ev')
                    /\ PrintT(ToJson([v |-> "F1", i |-> i + Len(ev') - 1]))
                 \/ /\ ~ENABLED MatchF1
                    /\ UNCHANGED vars /\ i' = i + 1
                    /\ PrintT(ToJson([v |-> "reject", i |-> i]))
              /\ skip' = TRUE /\ UNCHANGED runs
     \/ /\ Rec[i].e # "reset" /\ skip
        /\ i' = i + 1
        /\ UNCHANGED <<vars, skip, runs>>

TraceSpec == TraceInit /\ [][TraceNext]_tvars

\* the invariants of the specification, on every matched state
TraceInv == skip \/ Inv

AtEnd == IF i = Len(Rec) + 1 THEN PrintT(ToJson([v |-> "end", n |-> Len(Rec), runs |-> runs])) ELSE TRUE
=============================================================================
