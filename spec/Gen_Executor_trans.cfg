SPECIFICATION Spec
CONSTANTS
  MaxTasks = 3
  NChan = 2
  Budget = 2
  MaxOver = 2
  YieldFree = FALSE
  MaxRoots = 2
  MaxExt = 1
  Lifo = FALSE
  Hist = TRUE
  Pinned = FALSE
VIEW view
INVARIANT DriverInv
INVARIANT FifoOnce
ACTION_CONSTRAINT EmitTrans
PROPERTY RefinesAbs
PROPERTY RelayForward
PROPERTY StatusForward
