\* negative test: a fork that copies the parent's pending signals must be refuted (PendingCleared)
CONSTANTS
  MaxPre = 0
  MaxChild = 1
  MaxPost = 0
  MaxTotal = 1
  MinPre = 0
  MinTotal = 0
  Leaky = FALSE
  ForkBug = "pending"
  Alphabet <- CtxCmds
  PreAlphabet <- CtxPreCmds
  Kinds <- AllKinds
  Modes <- ScriptMode
  Fins <- NormalFin
  Ctxs <- SigCtx
INIT Init
NEXT Next
INVARIANTS PendingCleared
