SPECIFICATION Spec
CONSTANTS
  Fuel = 24
  TickLimit = 2
  K = 5
  Alphabet <- AlphaPos
  Opts <- OptsFlow
INVARIANT Emit
CHECK_DEADLOCK FALSE
