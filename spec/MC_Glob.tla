------------------------------ MODULE MC_Glob ------------------------------
(***************************************************************************)
(* C05, P1 + P4 (enumeration): TLC enumerates words (sequences of units    *)
(* of a unit alphabet, one state per word) and file trees (families built  *)
(* from a universe of nodes), evaluates the oracle Glob!Allowed for every  *)
(* (word, tree) and                                                        *)
(*   - checks the sanity theorems about the oracle itself (T_* below; a    *)
(*     failure is a defect of the specification = tool error),             *)
(*   - prints one JSON line per word with the allowed results in every     *)
(*     tree (invariant Emit); harness/c05 replays them on the real shell.  *)
(* The first line printed (for the empty word) is the header: the unit     *)
(* alphabet and the trees.                                                 *)
(***************************************************************************)
EXTENDS Glob, Json, Randomization

CONSTANTS MaxLen,     \* maximal number of units of a word
          FullLen,    \* words up to this length use the whole alphabet ...
          Core,       \* ... longer ones only these units (indices)
          Families,   \* which tree families: subset of {"rich", "one", "two", "rand", "deep"}
          NRand,      \* number of random trees
          RandSize    \* nodes drawn per random tree

Scope == "w"          \* every tree lives below /w; the rest of the file system is not modelled

(***************************************************************************)
(* The unit alphabet.                                                      *)
(***************************************************************************)
U(k, s) == [k |-> k, s |-> s]

Alphabet == <<
  U("lit", "a"),        \*  1
  U("lit", "b"),        \*  2
  U("lit", "."),        \*  3
  U("lit", "/"),        \*  4
  U("lit", "*"),        \*  5
  U("lit", "?"),        \*  6
  U("lit", "[ab]"),     \*  7
  U("lit", "[!a]"),     \*  8
  U("bs", "*"),         \*  9
  U("dq", "*"),         \* 10
  U("var", "*"),        \* 11
  U("lit", "sub/"),     \* 12
  U("lit", "["),        \* 13
  U("lit", "]"),        \* 14
  U("lit", "-"),        \* 15
  U("lit", "!"),        \* 16
  U("lit", "[^-b]"),    \* 17
  U("lit", "[.]"),      \* 18
  U("sq", "*"),         \* 19
  U("dqvar", "*"),      \* 20
  U("var", "\\*"),      \* 21
  U("bs", "."),         \* 22
  U("dq", "/"),         \* 23
  U("dq", "[a]"),       \* 24
  U("lit", "./"),       \* 25
  U("lit", "../"),      \* 26
  U("lit", "/w/"),      \* 27
  U("tilde", "/w/*"),   \* 28
  U("var", "[!a]*"),    \* 29
  U("lit", "ln/"),      \* 30
  U("lit", "dl"),       \* 31
  U("var", "?/"),       \* 32
  U("lit", "[b-a]"),    \* 33  empty range: no specified meaning
  U("sq", "\\"),        \* 34  a quoted backslash is an ordinary character
  U("dq", "\\"),        \* 35
  U("bs", "\\"),        \* 36
  U("lit", "[[:x:]]")   \* 37  undefined character class
>>

ASSUME Core \subseteq 1..Len(Alphabet)

Word(f) == [i \in 1..Len(f) |-> Alphabet[f[i]]]

(***************************************************************************)
(* Trees.  A tree is given by its nodes [p, k, to]; p below /w.            *)
(***************************************************************************)
Nd(p, k) == [p |-> <<Scope>> \o p, k |-> k, to |-> <<>>]
Ln(p, to) == [p |-> <<Scope>> \o p, k |-> "l", to |-> to]
Root == [p |-> <<Scope>>, k |-> "d", to |-> <<>>]

\* tree function of a set of nodes with distinct paths
TreeOf(S) == [p \in {n.p : n \in S} |-> LET n == CHOOSE n \in S : n.p = p IN [k |-> n.k, to |-> n.to]]

Names1 == {"a", "b", "ab", ".a", ".b", "-", "[", "*", "a]"}

Flat == {Nd(<<n>>, "f") : n \in Names1}

Nested ==
  {Nd(<<"a">>, "f"), Nd(<<"b">>, "f"), Nd(<<".a">>, "f"), Nd(<<"-">>, "f"),
   Nd(<<"sub">>, "d"), Nd(<<"sub", "a">>, "f"), Nd(<<"sub", "b">>, "f"), Nd(<<"sub", "ab">>, "f"),
   Nd(<<"sub", ".a">>, "f"), Nd(<<"sub", "*">>, "f"),
   Nd(<<"sub", "sub">>, "d"), Nd(<<"sub", "sub", "a">>, "f"), Nd(<<"sub", "sub", ".b">>, "f"),
   Nd(<<".b">>, "d"), Nd(<<".b", "a">>, "f"), Nd(<<".b", ".a">>, "f"),
   Nd(<<"*">>, "d"), Nd(<<"*", "a">>, "f"), Nd(<<"*", "[">>, "f")}

Links ==
  {Nd(<<"a">>, "f"), Nd(<<"b">>, "d"), Nd(<<"b", "a">>, "f"),
   Nd(<<"sub">>, "d"), Nd(<<"sub", "a">>, "f"), Nd(<<"sub", "b">>, "f"), Nd(<<"sub", ".a">>, "f"),
   Ln(<<"sub", "up">>, <<"..">>), Ln(<<"sub", "lb">>, <<"..", "a">>), Ln(<<"sub", "dl">>, <<"nope">>),
   Ln(<<"ln">>, <<"sub">>), Ln(<<"dl">>, <<"nope">>), Ln(<<"la">>, <<"", "w", "sub">>),
   Ln(<<".l">>, <<"sub">>), Ln(<<"lf">>, <<"a">>), Ln(<<"ab">>, <<"sub", "dl">>)}

Meta ==
  {Nd(<<"[">>, "d"), Nd(<<"[", "a">>, "f"), Nd(<<"[", "a]">>, "f"), Nd(<<"a]">>, "f"), Nd(<<"*">>, "f"),
   Nd(<<"-">>, "d"), Nd(<<"-", "*">>, "f"), Nd(<<"-", ".b">>, "f"), Nd(<<"!">>, "f"), Nd(<<"]">>, "f"),
   Nd(<<"a">>, "d"), Nd(<<"a", "b">>, "d"), Nd(<<"a", "b", "ab">>, "f")}

\* Directory names one of which is a proper prefix of another, the next
\* character sorting below "/" ("-" 45, "." 46, "*" 42 < "/" 47): here the
\* order of whole pathname strings ("a-/b" < "a/b") differs from an order
\* taken component by component ("a" < "a-").
Prefixes ==
  {Nd(<<"a">>, "d"), Nd(<<"a", "a">>, "f"), Nd(<<"a", "b">>, "f"),
   Nd(<<"a-">>, "d"), Nd(<<"a-", "a">>, "f"), Nd(<<"a-", "b">>, "f"),
   Nd(<<"a.d">>, "d"), Nd(<<"a.d", "a">>, "f"), Nd(<<"a.d", "b">>, "f"),
   Nd(<<"a*">>, "d"), Nd(<<"a*", "a">>, "f"),
   Nd(<<"ab">>, "d"), Nd(<<"ab", "a">>, "f"),
   Nd(<<"sub">>, "d"), Nd(<<"sub", "a">>, "d"), Nd(<<"sub", "a", "b">>, "f"),
   Nd(<<"sub", "a.">>, "d"), Nd(<<"sub", "a.", "b">>, "f"), Nd(<<"a+">>, "d"), Nd(<<"a+", "b">>, "f")}

\* file names that hold a backslash
Backslash ==
  {Nd(<<"a\\">>, "f"), Nd(<<"a\\b">>, "f"), Nd(<<"\\a">>, "f"), Nd(<<"\\">>, "f"), Nd(<<"a">>, "f"), Nd(<<"ab">>, "f"),
   Nd(<<"a*">>, "f"), Nd(<<"*">>, "f"), Nd(<<"b">>, "f"),
   Nd(<<"b\\">>, "d"), Nd(<<"b\\", "a">>, "f"), Nd(<<"b\\", "a\\">>, "f"),
   Nd(<<"sub">>, "d"), Nd(<<"sub", "\\*">>, "f"), Nd(<<"sub", "a">>, "f")}

\* [cwd, nodes]
Rich == <<
  [cwd |-> <<Scope>>, S |-> Flat],
  [cwd |-> <<Scope>>, S |-> Nested],
  [cwd |-> <<Scope>>, S |-> Links],
  [cwd |-> <<Scope>>, S |-> Meta],
  [cwd |-> <<Scope, "sub">>, S |-> Nested],
  [cwd |-> <<Scope, "sub">>, S |-> Links],
  [cwd |-> <<Scope>>, S |-> {}],
  [cwd |-> <<Scope>>, S |-> Prefixes],
  [cwd |-> <<Scope>>, S |-> Backslash]
>>

\* the universe from which small and random trees are drawn
Names2 == {"a", "b", ".a", "*", "["}
Universe ==
  Flat
  \cup {Nd(<<d>>, "d") : d \in {"sub", ".b", "*", "a", "a-"}}
  \cup {Nd(<<d, n>>, "f") : d \in {"sub", ".b", "*", "a", "a-"}, n \in Names2}
  \cup {Nd(<<"sub", "sub">>, "d"), Nd(<<"sub", "sub", "a">>, "f"), Nd(<<"sub", "sub", ".a">>, "f"),
        Nd(<<"sub", "sub", "*">>, "f")}
  \cup {Ln(<<"ln">>, <<"sub">>), Ln(<<"dl">>, <<"nope">>), Ln(<<"b">>, <<"sub", "sub">>),
        Ln(<<"sub", "up">>, <<"..">>), Ln(<<"sub", "dl">>, <<"nope">>), Ln(<<"sub", "b">>, <<"..", "a">>),
        Ln(<<".b">>, <<"sub">>)}

\* make a set of nodes a tree: one node per path (directories first), every
\* ancestor below /w present as a directory
Ancestors(n) == {SubSeq(n.p, 1, j) : j \in 2..(Len(n.p) - 1)}
Close(S) ==
  LET anc == UNION {Ancestors(n) : n \in S}
      dirs == {[p |-> p, k |-> "d", to |-> <<>>] : p \in anc}
      rest == {n \in S : n.p \notin anc}
      uniq == {n \in rest : n = CHOOSE m \in rest : m.p = n.p}
  IN dirs \cup uniq

One == {Close({x}) : x \in Universe}
\* two-node trees: any node together with a link, a directory or one of a few
\* telling files
Key == {n \in Universe : n.k \in {"l", "d"}} \cup {Nd(<<".a">>, "f"), Nd(<<"*">>, "f"), Nd(<<"sub", "a">>, "f")}
Two == {Close({x, y}) : x \in Universe, y \in Key}

RECURSIVE SeqOfSet(_)
SeqOfSet(S) == IF S = {} THEN <<>> ELSE LET x == CHOOSE x \in S : TRUE IN <<x>> \o SeqOfSet(S \ {x})

AtW(SS) == LET q == SeqOfSet(SS) IN [i \in 1..Len(q) |-> [cwd |-> <<Scope>>, S |-> q[i]]]

RandTrees ==
  [i \in 1..NRand |->
     LET S == Close(RandomSubset(RandSize, Universe))
         subs == {n.p : n \in {m \in S : m.k = "d"}} \cup {<<Scope>>}
     IN [cwd |-> IF i % 4 = 0 THEN CHOOSE p \in subs : \A q \in subs : Len(q) <= Len(p) ELSE <<Scope>>, S |-> S]]

TreeSpecs ==
  (IF "rich" \in Families THEN Rich ELSE <<>>)
  \o (IF "one" \in Families THEN AtW(One) ELSE <<>>)
  \o (IF "two" \in Families THEN AtW(Two \ One) ELSE <<>>)
  \o (IF "rand" \in Families THEN RandTrees ELSE <<>>)

(***************************************************************************)
(* State: the word under construction; the trees (fixed in Init so that    *)
(* every state sees the same random draw).                                 *)
(***************************************************************************)
VARIABLES field, trees, names

Init ==
  /\ field = <<>>
  /\ trees = [i \in 1..Len(TreeSpecs) |->
                [cwd |-> TreeSpecs[i].cwd,
                 T |-> TreeOf(TreeSpecs[i].S \cup {Root}),
                 nodes |-> SeqOfSet(TreeSpecs[i].S \cup {Root})]]
  /\ names = {".", ".."} \cup UNION {{n.p[Len(n.p)] : n \in TreeSpecs[i].S \cup {Root}} : i \in 1..Len(TreeSpecs)}

Next ==
  /\ Len(field) < MaxLen
  /\ \E u \in 1..Len(Alphabet) :
       LET f == Append(field, u) IN
       /\ Len(f) > FullLen => \A i \in 1..Len(f) : f[i] \in Core
       /\ WellFormed(Word(f))
       /\ field' = f
  /\ UNCHANGED <<trees, names>>

View == field

(***************************************************************************)
(* Output.                                                                 *)
(***************************************************************************)
PathStr(p) == IF p = <<>> THEN "/" ELSE Str([i \in 1..(2 * Len(p)) |-> IF i % 2 = 1 THEN "/" ELSE p[i \div 2]])
TargetStr(to) == IF to = <<>> THEN "" ELSE Join(to)

Header ==
  [hdr |-> TRUE,
   scope |-> Scope,
   alphabet |-> Alphabet,
   trees |-> [i \in 1..Len(trees) |->
                [cwd |-> PathStr(trees[i].cwd),
                 nodes |-> [j \in 1..Len(trees[i].nodes) |->
                              [p |-> PathStr(trees[i].nodes[j].p), k |-> trees[i].nodes[j].k,
                               to |-> TargetStr(trees[i].nodes[j].to)]]]]]

\* the word, its characters and its readings (computed once per state)
Us == Word(field)
Cs == FieldChars(Us)
PP == Readings(Cs, names)

Line ==
  LET cs == Cs
      pp == Readings(cs, names)
  IN
  IF UnspecifiedR(pp)
  THEN \* a: one list, the pathnames a result may hold (weak judgement)
       [f |-> field, un |-> TRUE, ng |-> Removed(cs),
        r |-> [i \in 1..Len(trees) |->
                 IF WeakOutsideR(pp, names, trees[i].T, trees[i].cwd, Scope)
                 THEN [o |-> TRUE, a |-> <<>>]
                 ELSE [o |-> FALSE, a |-> <<SortStrings(WeakUniverse(pp, names, trees[i].T, trees[i].cwd))>>]]]
  ELSE [f |-> field, un |-> FALSE,
        ng |-> Removed(cs),
        r |-> [i \in 1..Len(trees) |->
                 IF OutsideR(pp, trees[i].T, trees[i].cwd, Scope)
                 THEN [o |-> TRUE, a |-> <<>>]
                 ELSE [o |-> FALSE, a |-> SeqOfSet(AllowedR(cs, pp, trees[i].T, trees[i].cwd))]]]

Emit == PrintT(ToJson(IF field = <<>> THEN Header ELSE Line))

(***************************************************************************)
(* Sanity theorems about the oracle (DESIGN.md C05 "TLC (oracle sanity)"). *)
(***************************************************************************)
TreesOK == \A i \in 1..Len(trees) : WellFormedTree(trees[i].T) /\ IsDir(trees[i].T, trees[i].cwd)
                                      /\ \A p \in DOMAIN trees[i].T : p[1] = Scope
TreesOK0 == field # <<>> \/ TreesOK      \* once (the trees never change)

\* split a result string at slashes
RECURSIVE SplitStr(_)
SplitStr(cs) ==
  LET I == {i \in 1..Len(cs) : cs[i] = "/"} IN
  IF I = {} THEN <<Str(cs)>>
  ELSE LET i == F!MinS(I) IN <<Str(SubSeq(cs, 1, i - 1))>> \o SplitStr(SubSeq(cs, i + 1, Len(cs)))
Comps(s) == SplitStr(Chars(s))

Variants(t) ==
  {[bs |-> bs, dg |-> dg, P |-> PP[bs], out |-> GlobP(Cs, PP[bs], t.T, t.cwd, dg)] :
      bs \in DOMAIN PP, dg \in DgChoices(t.T)}

\* did the variant find something?  (a result list equal to the removed field
\* may also be a genuine single match: then the path exists)
Found(t, v) == Matched(v.P, t.T, t.cwd, v.dg) # {}

ForAllCases(Q(_, _)) ==
  field # <<>> /\ ~UnspecifiedR(PP) =>
     \A i \in 1..Len(trees) : \A v \in Variants(trees[i]) : Q(trees[i], v)

\* every result names an existing directory entry of the tree
T_Exist ==
  ForAllCases(LAMBDA t, v :
     Found(t, v) => \A k \in 1..Len(v.out) : LStatOk(t.T, t.cwd, Comps(v.out[k])))

\* no existing pathname that matches component by component is missing:
\* independent formulation -- choose any names from the whole tree first,
\* then test the choice component by component.
Choices(T, P) ==
  LET D == [i \in 1..Len(P) |->
              IF P[i].lit THEN {P[i].name}
              ELSE {n \in AllNames(T) : NameMatches(P[i].atoms, n)}]
  IN {f \in [1..Len(P) -> UNION {D[i] : i \in 1..Len(P)}] : \A i \in 1..Len(P) : f[i] \in D[i]}
ChainOK(T, cwd, P, ns) ==
  /\ \A i \in 1..Len(P) : ~P[i].lit => /\ DirOf(T, cwd, SubSeq(ns, 1, i - 1)).ok
                                       /\ ns[i] \in Children(T, DirOf(T, cwd, SubSeq(ns, 1, i - 1)).at)
  /\ P[Len(P)].lit => Stat(T, cwd, ns).ok
T_Complete ==
  ForAllCases(LAMBDA t, v :
     \A ns \in Choices(t.T, v.P) :
        ChainOK(t.T, t.cwd, v.P, ns) => \E k \in 1..Len(v.out) : v.out[k] = Join(ns))

\* sorted (strictly: no duplicates)
T_Sorted ==
  ForAllCases(LAMBDA t, v :
     \A k \in 1..(Len(v.out) - 1) : StrLess(v.out[k], v.out[k + 1]))

\* a word without unquoted characters, and any word under noglob, is
\* returned verbatim (after quote removal)
T_Quoted ==
  field # <<>> =>
    /\ \A i \in 1..Len(trees) : Allowed(Us, trees[i].T, trees[i].cwd, TRUE) = {<<Removed(Cs)>>}
    /\ (\A j \in 1..Len(Cs) : Cs[j].a # "n") =>
          /\ ~UnspecifiedR(PP)
          /\ \A i \in 1..Len(trees) : AllowedR(Cs, PP, trees[i].T, trees[i].cwd) = {<<Removed(Cs)>>}

\* a component matched by a pattern is never "." or "..", and begins with a
\* period only if the pattern component begins with a literal period
T_Period ==
  ForAllCases(LAMBDA t, v :
     Found(t, v) =>
       \A k \in 1..Len(v.out) :
          LET ns == Comps(v.out[k]) IN
          /\ Len(ns) = Len(v.P)
          /\ \A i \in 1..Len(ns) :
               ~v.P[i].lit =>
                  /\ ns[i] \notin {".", ".."}
                  /\ SubSeq(ns[i], 1, 1) = "." => F!StartsWithDot(v.P[i].atoms))

\* if nothing matches the word itself is the result
T_Fallback ==
  ForAllCases(LAMBDA t, v : ~Found(t, v) => v.out = <<Removed(Cs)>>)
=============================================================================
