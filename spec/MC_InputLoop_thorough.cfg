SPECIFICATION Spec
CONSTANTS
  MaxLen = 4
  Kinds = {"P", "RD", "AL", "UA", "ON", "OF", "NP", "VB", "GO", "GC", "HD", "HE", "LC", "SE", "CM", "U8", "BX"}
  PadKinds = {"P"}
  Feeds = {"fd", "str"}
  MaxLenC = 0
  KindsC = {}
  ChunkSizes = {0}
INVARIANT TypeOK
INVARIANT OffAtExec
INVARIANT StdinBlocking
INVARIANT PrefixBeforeError
INVARIANT Catalogue
