----------------------------- MODULE Gen_Tilde -----------------------------
(***************************************************************************)
(* spec -> impl enumeration for G04 (A).  TLC's breadth-first search       *)
(* enumerates words over the unit alphabet U (every word of up to MaxFull  *)
(* units; words of up to MaxCore units over the first NCore units, the     *)
(* characters that form tilde-prefixes).  For every word the invariant     *)
(* Emit prints one JSON line                                               *)
(*    {w: units, o: [[ctx, home, state, fields], ...]}                     *)
(* with the outcome Tilde.tla prescribes in every context x HOME value x   *)
(* shell state where the word is inside the modelled fragment; the empty   *)
(* word prints the tables (contexts, HOME values, user database, states).  *)
(* Slice > 1 keeps a 1/Slice sample (selected by SEED) of the words longer *)
(* than FullUpTo that contain a unit outside the core.                     *)
(***************************************************************************)
EXTENDS Tilde, Json, IOUtils

CONSTANTS MaxFull, MaxCore, Slice, FullUpTo

Seed == IF "SEED" \in DOMAIN IOEnv THEN (CHOOSE n \in 0..9999 : ToString(n) = IOEnv.SEED) ELSE 1

L(s) == WLit(s)
P(p) == WPar(p)

(* the first NCore units: what tilde-prefixes and their delimiters are made of *)
U == L("~") \o L("u") \o L("/") \o L(":") \o L("a")
     \o L("=") \o WBs("~") \o WSq("~") \o WDq(L("~")) \o P("x") \o WBs("/") \o WBs(":")
     \o WSq("u") \o WSp \o L("+") \o L("-") \o WDq(P("x")) \o WDq(L(":")) \o WSq("/")
NCore == 5
NU == Len(U)

CtxSeq == <<"arg", "for", "assign", "export", "readonly", "typeset", "cmdexport", "case", "pat", "sw", "here">>

HomeTable == << Val("/h"), Val(""), Val("/h/"), Val("/w/* x"), Unset, Val("/"), Val("//") >>
Users == << [n |-> "u", d |-> "/home/u"], [n |-> "uu", d |-> "/w/*/"], [n |-> "ua", d |-> ""] >>
StateTable == <<
  [x |-> Val("~u b"), y |-> Unset, pos |-> <<>>, ifs |-> Val(" \t\n"), nounset |-> FALSE, st |-> "0"],
  [x |-> Val("a/~"),  y |-> Unset, pos |-> <<>>, ifs |-> Val("/"),     nounset |-> FALSE, st |-> "0"] >>

Env(h) == [home |-> HomeTable[h], users |-> Users]

VARIABLE ws          \* the word: a sequence of indices into U

RECURSIVE Hash(_, _)
Hash(q, i) == IF i > Len(q) THEN 7 ELSE (q[i] * 31 + Hash(q, i + 1) * 17) % 10007

AllCoreIn(q) == \A i \in DOMAIN q : q[i] <= NCore
SelectedWord(q) == Len(q) <= FullUpTo \/ AllCoreIn(q) \/ Slice <= 1 \/ (Hash(q, 1) + Seed) % Slice = 0
Selected == SelectedWord(ws)

Init == ws = <<>>
Next == /\ Len(ws) < (IF MaxFull > MaxCore THEN MaxFull ELSE MaxCore)
        /\ \E k \in 1..NU :
             /\ (Len(ws) >= MaxFull => k <= NCore /\ AllCoreIn(ws))
             /\ ws' = Append(ws, k)
             \* words that are neither printed nor a prefix of a printed word are not generated
             /\ (Len(ws') < MaxFull \/ SelectedWord(ws'))
Spec == Init /\ [][Next]_ws

Word == [i \in DOMAIN ws |-> U[ws[i]]]

Outs(w) ==
  LET T == { <<c, h, s>> : c \in DOMAIN CtxSeq, h \in DOMAIN HomeTable, s \in DOMAIN StateTable }
      R == { <<t, Outcome(CtxSeq[t[1]], w, StateTable[t[3]], Env(t[2]))>> : t \in T }
  IN { <<r[1][1], r[1][2], r[1][3], r[2].f>> : r \in { r \in R : r[2].k = "ok" } }

RECURSIVE SeqOfSet(_)
SeqOfSet(S) == IF S = {} THEN <<>> ELSE LET e == CHOOSE e \in S : TRUE IN <<e>> \o SeqOfSet(S \ {e})

Emit ==
  IF ws = <<>>
  THEN PrintT(ToJson([hdr |-> TRUE, ctx |-> CtxSeq, homes |-> HomeTable, users |-> Users, states |-> StateTable]))
  ELSE Selected => PrintT(ToJson([w |-> Word, o |-> SeqOfSet(Outs(Word))]))

---------------------------------------------------------------------------
(* laws of the oracle on the enumerated domain (cheap sanity theorems)     *)
(*  - a word that does not begin with an unquoted tilde, has no unquoted   *)
(*    colon followed by a tilde, is unaffected by HOME in every context;   *)
(*  - in the "arg" context only the first unit of a word can start a       *)
(*    tilde-prefix: prefixing the word with the literal `a` makes the      *)
(*    result independent of HOME.                                          *)
NoTildeLit(w) == \A i \in DOMAIN w : ~IsLitC(w[i], "~")
Laws ==
  Selected =>
  LET w == Word IN
  /\ NoTildeLit(w) =>
       \A c \in DOMAIN CtxSeq, s \in DOMAIN StateTable, h \in DOMAIN HomeTable :
          Outcome(CtxSeq[c], w, StateTable[s], Env(h)) = Outcome(CtxSeq[c], w, StateTable[s], Env(1))
  /\ (Len(w) <= 3 /\ ~HasBlank(w)) =>
       \A s \in DOMAIN StateTable, h \in DOMAIN HomeTable :
          Outcome("arg", L("a") \o w, StateTable[s], Env(h)) = Outcome("arg", L("a") \o w, StateTable[s], Env(1))
=============================================================================
