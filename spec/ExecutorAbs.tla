---------------------------- MODULE ExecutorAbs ----------------------------
(***************************************************************************)
(* Abstract contract of the single-threaded executor (property C15),       *)
(* written from the doc comments of yash-executor (lib.rs, executor.rs,    *)
(* task.rs, forwarder.rs) and from the property text.                      *)
(*                                                                         *)
(* The scheduler is abstract: `woken` is the SET of tasks that have been   *)
(* woken (or spawned) since they last began a poll.  A step may poll ANY   *)
(* member of that set (no queue order is prescribed), subject to the       *)
(* bounded-overtaking form of starvation freedom: while a task u is woken  *)
(* and waiting for its poll, no other task is polled more than MaxOver     *)
(* times (FIFO gives 1).  Everything else in the state is the "world" of   *)
(* the cooperating test tasks (channels, relays of spawned tasks, what a   *)
(* task is blocked on), whose semantics is fixed by the harness futures:   *)
(*   Yield        wake self (by ref), return Pending                       *)
(*   Wait(k)      if sig[k] then consume it and go on, else register the   *)
(*                task's waker with channel k and return Pending; retried  *)
(*                at the next poll                                         *)
(*   Signal(k)    set sig[k], wake (by value) and forget every registered  *)
(*                waiter                                                   *)
(*   Spawn        Spawner::spawn / spawn_pinned of a new task              *)
(*   Kick(u)      wake task u through a stashed clone of its last waker    *)
(*                (u may be idle, queued, or finished: a stale waker)      *)
(*   Await(c)     poll the Receiver of child c                             *)
(*   Complete     return Ready(100 + id)                                   *)
(* External (between steps): spawn of a root task, kick, try_receive, and   *)
(* the two ways of running: step() (one poll, observed individually) and   *)
(* run_until_stalled() (RunBegin .. RunEnd(n): polls until nothing is      *)
(* woken; each poll needs its own wake; n = number of polls that reported   *)
(* completion, i.e. tasks that completed during the call plus finished     *)
(* tasks a stale waker had queued - step() returns Some(true) for those).  *)
(*                                                                         *)
(* Observation points: every event carries Executor::wake_count(); the     *)
(* contract demands wake_count = Cardinality(woken) (no lost wake-up, no   *)
(* duplicate queue entry), a poll only of a member of `woken` that is not  *)
(* finished and only when no poll is active, step() = None only when       *)
(* `woken` is empty, step() = Some(true) exactly when the polled task      *)
(* completed in this poll or had completed before (then its body is not    *)
(* entered), and receivers deliver 100 + id exactly once.                  *)
(***************************************************************************)
EXTENDS Integers, Sequences, FiniteSets, TLC

CONSTANTS MaxTasks,   \* task ids 1..MaxTasks, allocated in order
          NChan,      \* channels 1..NChan  (NChan < 10)
          Budget,     \* actions a task may perform before it must complete
          MaxOver,    \* bound of the overtaking clause
          YieldFree   \* BOOLEAN: Yield costs no budget (liveness configs)

Tasks == 1 .. MaxTasks
Chans == 1 .. NChan
AwaitBase == 10
Val(c) == 100 + c
Zero == [t \in Tasks |-> 0]

VARIABLES
  st,     \* [Tasks -> {"A","I","D"}]  absent / spawned, unfinished / finished
  woken,  \* set of tasks woken or spawned since their last poll began
  cur,    \* task being polled, 0 if none
  ph,     \* "none" | "run" | "pend" | "ready"  phase of the current poll
  blk,    \* [Tasks -> 0 | k (blocked in Wait(k)) | AwaitBase + c]
  left,   \* [Tasks -> 0..Budget] remaining budget
  sig,    \* [Chans -> BOOLEAN]
  wt,     \* [Chans -> SUBSET Tasks] tasks whose waker is registered
  relay,  \* [Tasks -> {"N","P","W","C","D"}] none/Pending/Polled(waker)/Computed/Done
  rw,     \* [Tasks -> Tasks \cup {0}] owner of the waker stored in relay "W"
  par,    \* [Tasks -> Tasks \cup {0}] spawner (0 = external)
  seen,   \* [Tasks -> BOOLEAN] polled at least once (a waker is stashed)
  ov,     \* [Tasks -> [Tasks -> Nat]] ov[u][t] = polls of t since u was woken
  run,    \* BOOLEAN: inside a call of Executor::run_until_stalled
  rc      \* completions counted by the current run_until_stalled call

avars == <<st, woken, cur, ph, blk, left, sig, wt, relay, rw, par, seen, ov, run, rc>>
\* model-checking view: the count rc is a function of the path, not of the state
aview == <<st, woken, cur, ph, blk, left, sig, wt, relay, rw, par, seen, ov, run>>

AInit ==
  /\ st = [t \in Tasks |-> "A"]
  /\ woken = {}
  /\ cur = 0
  /\ ph = "none"
  /\ blk = [t \in Tasks |-> 0]
  /\ left = [t \in Tasks |-> 0]
  /\ sig = [k \in Chans |-> FALSE]
  /\ wt = [k \in Chans |-> {}]
  /\ relay = [t \in Tasks |-> "N"]
  /\ rw = [t \in Tasks |-> 0]
  /\ par = [t \in Tasks |-> 0]
  /\ seen = [t \in Tasks |-> FALSE]
  /\ ov = [u \in Tasks |-> Zero]
  /\ run = FALSE
  /\ rc = 0

\* the same, as an action (used by `reset` records of a trace)
AReset ==
  /\ st' = [t \in Tasks |-> "A"]
  /\ woken' = {}
  /\ cur' = 0
  /\ ph' = "none"
  /\ blk' = [t \in Tasks |-> 0]
  /\ left' = [t \in Tasks |-> 0]
  /\ sig' = [k \in Chans |-> FALSE]
  /\ wt' = [k \in Chans |-> {}]
  /\ relay' = [t \in Tasks |-> "N"]
  /\ rw' = [t \in Tasks |-> 0]
  /\ par' = [t \in Tasks |-> 0]
  /\ seen' = [t \in Tasks |-> FALSE]
  /\ ov' = [u \in Tasks |-> Zero]
  /\ run' = FALSE
  /\ rc' = 0

-----------------------------------------------------------------------------
\* helpers

\* waking every task of S: members not yet woken start a fresh wait
WakeAll(S) ==
  /\ woken' = woken \cup S
  /\ ov' = [u \in Tasks |-> IF u \in S \ woken THEN Zero ELSE ov[u]]

NoWake == UNCHANGED <<woken, ov>>

Running(t) == cur = t /\ t # 0 /\ ph = "run"
Free(t)    == Running(t) /\ blk[t] = 0 /\ left[t] > 0
Spend(t)   == left' = [left EXCEPT ![t] = @ - 1]
NextId     == Cardinality({t \in Tasks : st[t] # "A"}) + 1

-----------------------------------------------------------------------------
\* scheduler steps

\* The run loop enters the body of task t.  D = finished tasks (queued by
\* stale wakers) that run_until_stalled has dequeued, invisibly, since the
\* last observed event: their polls enter no body and count as complete.
\* Outside run_until_stalled every step() is observed, so D = {}.
DoneWoken == {d \in woken : st[d] = "D"}
PollBeginD(t, D) ==
  /\ cur = 0
  /\ D \subseteq DoneWoken /\ (D # {} => run)
  /\ t \in woken
  /\ st[t] = "I"                          \* never a finished (or unknown) task
  /\ \A u \in woken \ {t} : st[u] = "I" => ov[u][t] < MaxOver
  /\ cur' = t /\ ph' = "run"
  /\ woken' = (woken \ D) \ {t}
  /\ rc' = rc + Cardinality(D)
  /\ UNCHANGED run
  /\ seen' = [seen EXCEPT ![t] = TRUE]
  /\ ov' = [u \in Tasks |->
              IF u = t THEN Zero
              ELSE IF u \in woken /\ st[u] = "I" THEN [ov[u] EXCEPT ![t] = @ + 1]
              ELSE ov[u]]
  /\ UNCHANGED <<st, blk, left, sig, wt, relay, rw, par>>

PollBegin(t) == PollBeginD(t, {})

\* step() pops a finished task that a stale waker had queued: Some(true),
\* no body entered
Noop(d) ==
  /\ cur = 0
  /\ d \in woken
  /\ st[d] = "D"
  /\ woken' = woken \ {d}
  /\ rc' = IF run THEN rc + 1 ELSE rc
  /\ UNCHANGED <<st, cur, ph, blk, left, sig, wt, relay, rw, par, seen, ov, run>>

\* the poll of t returns; ret is step()'s Some(ret)
PollEnd(t, ret) ==
  /\ cur = t /\ t # 0
  /\ ph \in {"pend", "ready"}
  /\ ret = (ph = "ready")
  /\ st' = [st EXCEPT ![t] = IF ret THEN "D" ELSE "I"]
  /\ cur' = 0 /\ ph' = "none"
  /\ rc' = IF run /\ ret THEN rc + 1 ELSE rc
  /\ UNCHANGED <<woken, blk, left, sig, wt, relay, rw, par, seen, ov, run>>

\* step() = None
Stall ==
  /\ cur = 0 /\ ~run
  /\ woken = {}
  /\ UNCHANGED avars

\* Executor::run_until_stalled is called ...
RunBegin ==
  /\ cur = 0 /\ ~run
  /\ run' = TRUE /\ rc' = 0
  /\ UNCHANGED <<st, woken, cur, ph, blk, left, sig, wt, relay, rw, par, seen, ov>>

\* ... and returns n: every woken task has been polled (the finished ones in
\* D without entering a body), each once per wake, nothing is left woken (a
\* genuine stall, see StallGenuine), and n is the number of polls that
\* reported completion
RunEnd(n) ==
  /\ cur = 0 /\ run
  /\ woken = DoneWoken
  /\ n = rc + Cardinality(DoneWoken)
  /\ woken' = {}
  /\ run' = FALSE /\ rc' = 0
  /\ UNCHANGED <<st, cur, ph, blk, left, sig, wt, relay, rw, par, seen, ov>>

-----------------------------------------------------------------------------
\* spawning: p = 0 external (Executor::spawn[_pinned]), p > 0 inside p's poll
\* (Spawner::spawn[_pinned]); rl = a Receiver exists

Spawn(p, c, rl) ==
  /\ c \in Tasks /\ c = NextId
  /\ IF p = 0 THEN cur = 0 /\ ~run ELSE Free(p)
  /\ left' = IF p = 0 THEN [left EXCEPT ![c] = Budget]
                      ELSE [left EXCEPT ![p] = @ - 1, ![c] = Budget]
  /\ st' = [st EXCEPT ![c] = "I"]
  /\ par' = [par EXCEPT ![c] = p]
  /\ relay' = [relay EXCEPT ![c] = IF rl THEN "P" ELSE "N"]
  /\ WakeAll({c})
  /\ UNCHANGED <<cur, ph, blk, sig, wt, rw, seen, run, rc>>

\* waking u through a stashed waker: p = 0 between steps, p > 0 inside p's poll
Kick(p, u) ==
  /\ u \in Tasks /\ seen[u]
  /\ IF p = 0 THEN cur = 0 /\ ~run /\ UNCHANGED left
              ELSE Free(p) /\ u # p /\ Spend(p)
  /\ WakeAll({u})
  /\ UNCHANGED <<st, cur, ph, blk, sig, wt, relay, rw, par, seen, run, rc>>

\* Receiver::try_receive from outside; r, v = observed result
Try(c, r, v) ==
  /\ cur = 0 /\ ~run
  /\ c \in Tasks /\ relay[c] # "N"
  /\ CASE relay[c] = "C" -> r = "ok" /\ v = Val(c) /\ relay' = [relay EXCEPT ![c] = "D"]
       [] relay[c] = "D" -> r = "already" /\ UNCHANGED relay
       [] OTHER          -> r = "notsent" /\ UNCHANGED relay
  /\ UNCHANGED <<st, woken, cur, ph, blk, left, sig, wt, rw, par, seen, ov, run, rc>>

-----------------------------------------------------------------------------
\* actions of the task being polled

Yield(t) ==
  /\ Free(t)
  /\ WakeAll({t})
  /\ IF YieldFree THEN UNCHANGED left ELSE Spend(t)
  /\ ph' = "pend"
  /\ UNCHANGED <<st, cur, blk, sig, wt, relay, rw, par, seen, run, rc>>

\* re = this is the retry of a wait the task is blocked in; r = "pass" | "block"
Wait(t, k, re, r) ==
  /\ Running(t) /\ k \in Chans
  /\ re = (blk[t] # 0)
  /\ IF re THEN blk[t] = k /\ UNCHANGED left ELSE left[t] > 0 /\ Spend(t)
  /\ IF sig[k]
     THEN /\ r = "pass"
          /\ sig' = [sig EXCEPT ![k] = FALSE]
          /\ blk' = [blk EXCEPT ![t] = 0]
          /\ UNCHANGED <<wt, ph>>
     ELSE /\ r = "block"
          /\ wt' = [wt EXCEPT ![k] = @ \cup {t}]
          /\ blk' = [blk EXCEPT ![t] = k]
          /\ ph' = "pend"
          /\ UNCHANGED sig
  /\ NoWake
  /\ UNCHANGED <<st, cur, relay, rw, par, seen, run, rc>>

Signal(t, k) ==
  /\ Free(t) /\ k \in Chans
  /\ Spend(t)
  /\ sig' = [sig EXCEPT ![k] = TRUE]
  /\ WakeAll(wt[k])
  /\ wt' = [wt EXCEPT ![k] = {}]
  /\ UNCHANGED <<st, cur, ph, blk, relay, rw, par, seen, run, rc>>

\* poll of child c's Receiver in t's context; r = "recv" (v = value) | "block"
Await(t, c, re, r, v) ==
  /\ Running(t) /\ c \in Tasks
  /\ par[c] = t /\ relay[c] \in {"P", "W", "C"}
  /\ re = (blk[t] # 0)
  /\ IF re THEN blk[t] = AwaitBase + c /\ UNCHANGED left ELSE left[t] > 0 /\ Spend(t)
  /\ IF relay[c] = "C"
     THEN /\ r = "recv" /\ v = Val(c)
          /\ relay' = [relay EXCEPT ![c] = "D"]
          /\ blk' = [blk EXCEPT ![t] = 0]
          /\ UNCHANGED <<rw, ph>>
     ELSE /\ r = "block"
          /\ relay' = [relay EXCEPT ![c] = "W"]
          /\ rw' = [rw EXCEPT ![c] = t]
          /\ blk' = [blk EXCEPT ![t] = AwaitBase + c]
          /\ ph' = "pend"
  /\ NoWake
  /\ UNCHANGED <<st, cur, sig, wt, par, seen, run, rc>>

\* the body returns Ready; the wrapper of spawn() then sends the value, which
\* wakes the stored waker of a receiver that has been polled
Complete(t) ==
  /\ Running(t) /\ blk[t] = 0
  /\ ph' = "ready"
  /\ relay' = [relay EXCEPT ![t] = IF @ = "N" THEN "N" ELSE "C"]
  /\ IF relay[t] = "W" THEN WakeAll({rw[t]}) ELSE NoWake
  /\ UNCHANGED <<st, cur, blk, left, sig, wt, rw, par, seen, run, rc>>

-----------------------------------------------------------------------------
\* The abstract next-state relation: any woken task may be polled.
ANext ==
  \/ \E t \in Tasks : PollBegin(t) \/ Noop(t) \/ Yield(t) \/ Complete(t)
  \/ \E t \in Tasks, D \in SUBSET Tasks : PollBeginD(t, D)
  \/ RunBegin
  \/ RunEnd(rc + Cardinality(DoneWoken))
  \/ \E t \in Tasks, b \in BOOLEAN : PollEnd(t, b)
  \/ \E p \in Tasks \cup {0}, rl \in BOOLEAN : Spawn(p, NextId, rl)
  \/ \E p \in Tasks \cup {0}, u \in Tasks : Kick(p, u)
  \/ \E c \in Tasks, r \in {"ok", "already", "notsent"} : Try(c, r, Val(c))
  \/ \E t \in Tasks, k \in Chans, re \in BOOLEAN, r \in {"pass", "block"} : Wait(t, k, re, r)
  \/ \E t \in Tasks, k \in Chans : Signal(t, k)
  \/ \E t \in Tasks, c \in Tasks, re \in BOOLEAN, r \in {"recv", "block"} : Await(t, c, re, r, Val(c))

ASpec == AInit /\ [][ANext]_avars

-----------------------------------------------------------------------------
\* The property

TypeOK ==
  /\ st \in [Tasks -> {"A", "I", "D"}]
  /\ woken \subseteq Tasks
  /\ cur \in Tasks \cup {0}
  /\ ph \in {"none", "run", "pend", "ready"}
  /\ \A t \in Tasks : left[t] \in 0 .. Budget
  /\ relay \in [Tasks -> {"N", "P", "W", "C", "D"}]
  /\ (cur = 0) = (ph = "none")
  /\ run \in BOOLEAN /\ rc \in Nat /\ (~run => rc = 0)

\* only known tasks are ever queued
WokenKnown == \A t \in woken : st[t] # "A"

\* the body of a finished task is never entered again; no re-entrant poll
\* (a single `cur`); a task being polled is unfinished
DoneNeverPolled == cur # 0 => st[cur] = "I"

\* bounded overtaking (starvation freedom in finitely checkable form)
OvBound == \A u, t \in Tasks : ov[u][t] <= MaxOver

\* t is genuinely waiting for a wake-up that has not happened
Waiting(t) ==
  \/ /\ blk[t] \in Chans
     /\ ~sig[blk[t]]
     /\ t \in wt[blk[t]]
  \/ /\ blk[t] > AwaitBase
     /\ relay[blk[t] - AwaitBase] = "W"
     /\ rw[blk[t] - AwaitBase] = t
     /\ st[blk[t] - AwaitBase] = "I"

\* between steps every unfinished task is either woken or genuinely waiting;
\* in particular when the run loop stalls (woken has no unfinished member)
StallGenuine ==
  cur = 0 => \A t \in Tasks : st[t] = "I" => (t \in woken \/ Waiting(t))

\* relay of a spawned task: the value is present exactly from completion on,
\* a stored waker belongs to the awaiting parent
RelayOK ==
  \A c \in Tasks :
    /\ relay[c] \in {"C", "D"} => (st[c] = "D" \/ (cur = c /\ ph = "ready"))
    /\ (st[c] = "D" /\ relay[c] # "N") => relay[c] \in {"C", "D"}
    /\ relay[c] = "W" => (rw[c] = par[c] /\ rw[c] # 0 /\ blk[rw[c]] = AwaitBase + c)
    /\ st[c] = "A" => relay[c] = "N"

Rank(x) == CASE x = "N" -> 0 [] x = "P" -> 1 [] x = "W" -> 2 [] x = "C" -> 3 [] x = "D" -> 4

\* relay moves only forward; hence a value is received at most once
\* (the only steps into "D" are Await/recv and Try/ok, both from "C")
RelayFwdStep == \A c \in Tasks : Rank(relay'[c]) >= Rank(relay[c])
RelayForward == [][RelayFwdStep]_avars

\* a finished task stays finished, a task never becomes absent again
StatusFwdStep == \A t \in Tasks : (st[t] = "D" => st'[t] = "D") /\ (st[t] # "A" => st'[t] # "A")
StatusForward == [][StatusFwdStep]_avars

AbsInv == TypeOK /\ WokenKnown /\ DoneNeverPolled /\ OvBound /\ StallGenuine /\ RelayOK
=============================================================================
