SPECIFICATION Spec
CONSTANTS
  Cfg = "posix"
  Bug = "none"
  Sim = FALSE
INVARIANT TypeOK
INVARIANT InternalInv
INVARIANT Conforms
