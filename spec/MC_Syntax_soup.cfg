SPECIFICATION Spec
CONSTANTS
  Profile = "soup"
  MaxTok = 2
  MaxUnits = 0
INVARIANT SoupInv
