SPECIFICATION Spec
CONSTANTS
  Profile = "soup"
  MaxTok = 3
  MaxUnits = 0
INVARIANT SoupInv
