\* P4 enumeration, thorough, part B: every tree of one or two nodes x words of <= 2 units
INIT Init
NEXT Next
VIEW View
CONSTANTS
  MaxLen = 2
  FullLen = 2
  Core = {}
  Families = {"one", "two"}
  NRand = 0
  RandSize = 0
INVARIANT TreesOK0
INVARIANT Emit
