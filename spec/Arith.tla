------------------------------- MODULE Arith -------------------------------
(***************************************************************************)
(* Specification of shell arithmetic expansion (property C03), written     *)
(* from POSIX.1-2024 XCU 2.6.4 (which defers to ISO C: 6.5 Expressions,    *)
(* 6.4.4.1 Integer constants) and the manual /repo/docs/src/arithmetic.md  *)
(* (signed 64-bit integers, constants in radix 8/10/16, unset variable =   *)
(* 0, non-numeric variable value = error, ++/-- supported).                *)
(*                                                                         *)
(*   Eval(e, env)  = the SET of outcomes the documents allow for evaluating *)
(*                   expression tree e in environment env.  An outcome is   *)
(*                   a value with the updated environment, an evaluation    *)
(*                   error, or "unspecified" (anything but a crash).  The   *)
(*                   set has one element except where C leaves the result   *)
(*                   undefined (INT64_MIN % -1, negative << n).             *)
(*   Toks(e)       = the expression as tokens with the minimal parentheses  *)
(*                   the C grammar needs to parse back to e, so a wrong     *)
(*                   precedence/associativity in an implementation changes  *)
(*                   the value it computes from the text.                   *)
(*   Parse(toks)   = the C grammar as a recursive-descent recogniser        *)
(*                   (one operator per grammar level); Gen_Arith!Line       *)
(*                   checks Parse(Toks(e)) = e on every enumerated tree     *)
(*                   and family 10 uses it to judge all short token         *)
(*                   sequences.                                             *)
(*                                                                         *)
(* Numbers are Int64.tla numbers (exact; the 64-bit range is checked after  *)
(* every operation: out of range = the error "Overflow", never a wrapped   *)
(* value).  Text is a sequence of one-character strings.                    *)
(***************************************************************************)
EXTENDS Int64, FiniteSets

-----------------------------------------------------------------------------
\* Abstract syntax

Const(v, r)   == [k |-> "c", v |-> v, r |-> r]      \* v >= 0; r in {"d","o","x","X"}: how it is written
RawConst(v, cs) == [k |-> "c", v |-> v, r |-> "raw", cs |-> cs]   \* a constant with its own spelling cs
Var(n)        == [k |-> "v", n |-> n]
Pre(op, a)    == [k |-> "u", op |-> op, a |-> a]    \* prefix operator
Post(op, a)   == [k |-> "p", op |-> op, a |-> a]    \* postfix ++ --
Bin(op, l, r) == [k |-> "b", op |-> op, l |-> l, r |-> r]
Cond(c, t, e) == [k |-> "q", c |-> c, t |-> t, e |-> e]
Group(a)      == [k |-> "g", a |-> a]               \* ( a ): parentheses the grammar does not need

\* C 6.5.1p5: a parenthesized expression is an lvalue if the unparenthesized one is
RECURSIVE Ungroup(_)
Ungroup(e) == IF e.k = "g" THEN Ungroup(e.a) ELSE e

PrefixOps  == {"+", "-", "~", "!", "++", "--"}
PostfixOps == {"++", "--"}
ArithOps   == {"*", "/", "%", "+", "-", "<<", ">>", "<", "<=", ">", ">=", "==", "!=", "&", "^", "|"}
LogicOps   == {"&&", "||"}
AssignOps  == {"=", "*=", "/=", "%=", "+=", "-=", "<<=", ">>=", "&=", "^=", "|="}
BinaryOps  == ArithOps \cup LogicOps \cup AssignOps

\* the arithmetic operator of a compound assignment
BaseOp(op) ==
  CASE op = "*=" -> "*" [] op = "/=" -> "/" [] op = "%=" -> "%" [] op = "+=" -> "+" [] op = "-=" -> "-"
    [] op = "<<=" -> "<<" [] op = ">>=" -> ">>" [] op = "&=" -> "&" [] op = "^=" -> "^" [] op = "|=" -> "|"

-----------------------------------------------------------------------------
\* Text of numbers; the value a variable's string denotes

HexLower == <<"0", "1", "2", "3", "4", "5", "6", "7", "8", "9", "a", "b", "c", "d", "e", "f">>
HexUpper == <<"0", "1", "2", "3", "4", "5", "6", "7", "8", "9", "A", "B", "C", "D", "E", "F">>

DigitChars(ds, table) == [i \in 1..Len(ds) |-> table[ds[i] + 1]]

\* decimal text of a number, e.g. <<"-", "4", "2">>
DecChars(a) == (IF a.n THEN <<"-">> ELSE <<>>) \o DigitChars(MDigits(a.m, 10), HexLower)

\* text of a constant (v >= 0) written in radix r (C 6.4.4.1)
ConstChars(v, r) ==
  CASE r = "d" -> DigitChars(MDigits(v.m, 10), HexLower)
    [] r = "o" -> <<"0">> \o DigitChars(MDigits(v.m, 8), HexLower)
    [] r = "x" -> <<"0", "x">> \o DigitChars(MDigits(v.m, 16), HexLower)
    [] r = "X" -> <<"0", "X">> \o DigitChars(MDigits(v.m, 16), HexUpper)

RECURSIVE StrFrom(_, _)
StrFrom(cs, i) == IF i > Len(cs) THEN "" ELSE cs[i] \o StrFrom(cs, i + 1)
Str(cs) == StrFrom(cs, 1)

\* value of a digit character in radix 16, or -1
DigVal(c) ==
  CASE c = "0" -> 0 [] c = "1" -> 1 [] c = "2" -> 2 [] c = "3" -> 3 [] c = "4" -> 4
    [] c = "5" -> 5 [] c = "6" -> 6 [] c = "7" -> 7 [] c = "8" -> 8 [] c = "9" -> 9
    [] c \in {"a", "A"} -> 10 [] c \in {"b", "B"} -> 11 [] c \in {"c", "C"} -> 12
    [] c \in {"d", "D"} -> 13 [] c \in {"e", "E"} -> 14 [] c \in {"f", "F"} -> 15
    [] OTHER -> -1

IsDigitIn(c, radix) == DigVal(c) >= 0 /\ DigVal(c) < radix
AllDigitsIn(cs, radix) == \A i \in 1..Len(cs) : IsDigitIn(cs[i], radix)
DigitsOf(cs) == [i \in 1..Len(cs) |-> DigVal(cs[i])]

\* C 6.4.4.1: decimal-constant = nonzero-digit digit*; octal-constant = 0 octal-digit*;
\* hexadecimal-constant = (0x|0X) hexadecimal-digit+.  Result: [ok, m] (m = magnitude).
NoConst == [ok |-> FALSE, m |-> <<>>]
ConstMag(cs) ==
  IF Len(cs) = 0 THEN NoConst
  ELSE IF cs[1] = "0" THEN
         IF Len(cs) >= 2 /\ cs[2] \in {"x", "X"}
         THEN (IF Len(cs) >= 3 /\ AllDigitsIn(SubSeq(cs, 3, Len(cs)), 16)
               THEN [ok |-> TRUE, m |-> MFromDigits(DigitsOf(SubSeq(cs, 3, Len(cs))), 16)] ELSE NoConst)
         ELSE (IF AllDigitsIn(cs, 8) THEN [ok |-> TRUE, m |-> MFromDigits(DigitsOf(cs), 8)] ELSE NoConst)
       ELSE IF AllDigitsIn(cs, 10) THEN [ok |-> TRUE, m |-> MFromDigits(DigitsOf(cs), 10)] ELSE NoConst

\* What the string value of a variable denotes.
\*  "num"    an integer constant, optionally signed (XCU 2.6.4: "a valid integer
\*           constant, optionally including a leading <plus-sign> or
\*           <hyphen-minus>"), within the 64-bit range: denotes that number;
\*  "range"  such a constant outside the 64-bit range: not representable, an error;
\*  "bad"    a string without any decimal digit (the empty string, "foo", "*"):
\*           the manual says "If a variable has a non-numeric value, an error occurs";
\*  "unspec" anything else ("08", "1 ", "1.5", "3 + 4", "0x"): neither POSIX nor
\*           the manual fixes the outcome (other shells evaluate some of these).
ValueOf(cs) ==
  LET signed == Len(cs) >= 1 /\ cs[1] \in {"+", "-"}
      body   == IF signed THEN SubSeq(cs, 2, Len(cs)) ELSE cs
      mag    == ConstMag(body)
  IN IF mag.ok
     THEN LET v == Mk(signed /\ cs[1] = "-", mag.m)
          IN IF InRange64(v) THEN [c |-> "num", v |-> v] ELSE [c |-> "range", v |-> Zero]
     ELSE IF \A i \in 1..Len(cs) : ~IsDigitIn(cs[i], 10)
          THEN [c |-> "bad", v |-> Zero]
          ELSE [c |-> "unspec", v |-> Zero]

\* A NAMED DEVIATION (not part of the specification; used only to attribute
\* observed mismatches to known finding F3, DESIGN.md section 8): variable
\* values are read as optionally signed DECIMAL numbers only, so "010" reads
\* as ten and "0x10" is an error.
ValueOfDecimalOnly(cs) ==
  LET signed == Len(cs) >= 1 /\ cs[1] \in {"+", "-"}
      body   == IF signed THEN SubSeq(cs, 2, Len(cs)) ELSE cs
  IN IF Len(body) >= 1 /\ AllDigitsIn(body, 10)
     THEN LET v == Mk(signed /\ cs[1] = "-", MFromDigits(DigitsOf(body), 10))
          IN IF InRange64(v) THEN [c |-> "num", v |-> v] ELSE [c |-> "bad", v |-> Zero]
     ELSE [c |-> "bad", v |-> Zero]

\* m = "spec": the specification; m = "dec": the deviation above
ValueOfM(cs, m) == IF m = "spec" THEN ValueOf(cs) ELSE ValueOfDecimalOnly(cs)

-----------------------------------------------------------------------------
\* Environments: a function from variable names to cells [set, s]
\* (s = the string value as characters; <<>> when unset).

Unset      == [set |-> FALSE, s |-> <<>>]
Cell(cs)   == [set |-> TRUE, s |-> cs]
NumCell(a) == Cell(DecChars(a))

-----------------------------------------------------------------------------
\* Outcomes

V(a, env)    == [t |-> "v", v |-> a, c |-> "", env |-> env]
E(cls, env)  == [t |-> "e", v |-> Zero, c |-> cls, env |-> env]   \* evaluation error (class is informative)
U(env)       == [t |-> "u", v |-> Zero, c |-> "", env |-> env]    \* unspecified: any outcome but a crash

Bool(p) == IF p THEN One ELSE Zero

\* the exact result if representable, else the error (never a wrapped value)
R(a, env) == IF InRange64(a) THEN {V(a, env)} ELSE {E("Overflow", env)}

\* a binary arithmetic operator applied to two values (C 6.5.5 - 6.5.12)
Apply(op, a, b, env) ==
  CASE op = "+"  -> R(Add(a, b), env)
    [] op = "-"  -> R(Sub(a, b), env)
    [] op = "*"  -> R(Mul(a, b), env)
    [] op = "/"  -> IF IsZero(b) THEN {E("DivByZero", env)} ELSE R(DivTrunc(a, b), env)
    [] op = "%"  -> IF IsZero(b) THEN {E("DivByZero", env)}
                    \* 6.5.5p6: if a/b is not representable, a%b is undefined
                    ELSE IF ~InRange64(DivTrunc(a, b)) THEN {V(Zero, env), E("Overflow", env)}
                    ELSE {V(RemTrunc(a, b), env)}
    [] op = "<<" -> \* 6.5.7p3: negative or too large count is undefined: the property demands an error
                    IF IsNeg(b) \/ ~Lt(b, FromInt(64)) THEN {E("BadShift", env)}
                    \* 6.5.7p4: E1 negative is undefined in C (an error or the exact product)
                    ELSE IF IsNeg(a) THEN {E("BadShift", env)} \cup
                                          (IF InRange64(ShlExact(a, ToInt(b))) THEN {V(ShlExact(a, ToInt(b)), env)} ELSE {})
                    ELSE R(ShlExact(a, ToInt(b)), env)
    [] op = ">>" -> IF IsNeg(b) \/ ~Lt(b, FromInt(64)) THEN {E("BadShift", env)}
                    \* exact value of a / 2^b rounded down (arithmetic shift)
                    ELSE {V(ShrFloor(a, ToInt(b)), env)}
    [] op = "<"  -> {V(Bool(Cmp(a, b) < 0), env)}
    [] op = "<=" -> {V(Bool(Cmp(a, b) <= 0), env)}
    [] op = ">"  -> {V(Bool(Cmp(a, b) > 0), env)}
    [] op = ">=" -> {V(Bool(Cmp(a, b) >= 0), env)}
    [] op = "==" -> {V(Bool(Cmp(a, b) = 0), env)}
    [] op = "!=" -> {V(Bool(Cmp(a, b) # 0), env)}
    [] op = "&"  -> {V(BitAnd(a, b), env)}
    [] op = "^"  -> {V(BitXor(a, b), env)}
    [] op = "|"  -> {V(BitOr(a, b), env)}

ApplyPre(op, a, env) ==
  CASE op = "+" -> {V(a, env)}
    [] op = "-" -> R(Neg(a), env)
    [] op = "~" -> {V(BitNot(a), env)}
    [] op = "!" -> {V(Bool(IsZero(a)), env)}

\* value of variable n
Read(n, env, m) ==
  IF ~env[n].set THEN {V(Zero, env)}                     \* manual: unset (nounset off) is treated as zero
  ELSE LET d == ValueOfM(env[n].s, m)
       IN CASE d.c = "num"    -> {V(d.v, env)}
            [] d.c = "range"  -> {E("BadVariableValue", env)}
            [] d.c = "bad"    -> {E("BadVariableValue", env)}
            [] d.c = "unspec" -> {U(env)}

\* variables occurring in e; variables modified somewhere in e
RECURSIVE Names(_), Writes(_)
Names(e) ==
  CASE e.k = "c" -> {}
    [] e.k = "v" -> {e.n}
    [] e.k \in {"u", "p", "g"} -> Names(e.a)
    [] e.k = "b" -> Names(e.l) \cup Names(e.r)
    [] e.k = "q" -> Names(e.c) \cup Names(e.t) \cup Names(e.e)
Writes(e) ==
  CASE e.k \in {"c", "v"} -> {}
    [] e.k = "u" -> IF e.op \in {"++", "--"} THEN Names(e.a) ELSE Writes(e.a)
    [] e.k = "p" -> Names(e.a)
    [] e.k = "g" -> Writes(e.a)
    [] e.k = "b" -> IF e.op \in AssignOps THEN Names(e.l) \cup Writes(e.r) ELSE Writes(e.l) \cup Writes(e.r)
    [] e.k = "q" -> Writes(e.c) \cup Writes(e.t) \cup Writes(e.e)

\* C 6.5p2: a side effect on an object unsequenced relative to another side
\* effect on, or a value computation using, the same object is undefined.
\* The operands of an operator other than && || ?: are unsequenced.
Unsequenced(l, r) ==
  \/ Writes(l) \cap Names(r) # {}
  \/ Writes(r) \cap Names(l) # {}

\* e with every occurrence of variable n replaced by the tree w
RECURSIVE Subst(_, _, _)
Subst(e, n, w) ==
  CASE e.k = "c" -> e
    [] e.k = "v" -> IF e.n = n THEN w ELSE e
    [] e.k = "u" -> Pre(e.op, Subst(e.a, n, w))
    [] e.k = "p" -> Post(e.op, Subst(e.a, n, w))
    [] e.k = "g" -> Group(Subst(e.a, n, w))
    [] e.k = "b" -> Bin(e.op, Subst(e.l, n, w), Subst(e.r, n, w))
    [] e.k = "q" -> Cond(Subst(e.c, n, w), Subst(e.t, n, w), Subst(e.e, n, w))

\* the expression a signed integer constant cs is when it is spliced into the
\* text as by "$x": an optional unary sign applied to a constant
SplicedConstant(cs) ==
  LET signed == Len(cs) >= 1 /\ cs[1] \in {"+", "-"}
      body   == IF signed THEN SubSeq(cs, 2, Len(cs)) ELSE cs
      k      == RawConst(Mk(FALSE, ConstMag(body).m), body)
  IN IF signed THEN Pre(cs[1], k) ELSE k

\* for every value outcome in S continue with F(outcome); other outcomes pass through
Then(S, F(_)) == UNION {IF o.t = "v" THEN F(o) ELSE {o} : o \in S}

RECURSIVE EvalM(_, _, _)

\* ++ and --: operand must be a variable (C: a modifiable lvalue)
IncDec(e, env, prefix, m) ==
  IF Ungroup(e.a).k = "q" THEN {U(env)}         \* a conditional as an lvalue is an extension C does not have
  ELSE IF Ungroup(e.a).k # "v" THEN {E("NotAssignable", env)}
  ELSE LET n == Ungroup(e.a).n
           Step(o) == LET new == IF e.op = "++" THEN Add(o.v, One) ELSE Sub(o.v, One)
                      IN IF InRange64(new)
                         THEN {V(IF prefix THEN new ELSE o.v, [o.env EXCEPT ![n] = NumCell(new)])}
                         ELSE {E("Overflow", o.env)}
       IN Then(Read(n, env, m), Step)

Assign(e, env, m) ==
  IF Ungroup(e.l).k = "q" THEN {U(env)}
  ELSE IF Ungroup(e.l).k # "v" THEN {E("NotAssignable", env)}
  ELSE LET n == Ungroup(e.l).n
       IN IF n \in Writes(e.r) THEN {U(env)}            \* two unsequenced side effects on n
          ELSE LET Store(o) == {V(o.v, [o.env EXCEPT ![n] = NumCell(o.v)])}
                   Compound(ro) ==
                     LET Op(lo) == Then(Apply(BaseOp(e.op), lo.v, ro.v, ro.env), Store)
                     IN Then(Read(n, ro.env, m), Op)
               IN IF e.op = "=" THEN Then(EvalM(e.r, env, m), Store)
                  ELSE Then(EvalM(e.r, env, m), Compound)

EvalM(e, env, m) ==
  CASE e.k = "c" -> R(e.v, env)
    [] e.k = "v" -> Read(e.n, env, m)
    [] e.k = "u" -> IF e.op \in {"++", "--"} THEN IncDec(e, env, TRUE, m)
                    ELSE LET F(o) == ApplyPre(e.op, o.v, o.env) IN Then(EvalM(e.a, env, m), F)
    [] e.k = "p" -> IncDec(e, env, FALSE, m)
    [] e.k = "g" -> EvalM(e.a, env, m)
    [] e.k = "q" -> LET F(o) == IF IsZero(o.v) THEN EvalM(e.e, o.env, m) ELSE EvalM(e.t, o.env, m)
                    IN Then(EvalM(e.c, env, m), F)
    [] e.k = "b" ->
         IF e.op = "||" THEN
           LET G(ro) == {V(Bool(~IsZero(ro.v)), ro.env)}
               F(lo) == IF ~IsZero(lo.v) THEN {V(One, lo.env)} ELSE Then(EvalM(e.r, lo.env, m), G)
           IN Then(EvalM(e.l, env, m), F)
         ELSE IF e.op = "&&" THEN
           LET G(ro) == {V(Bool(~IsZero(ro.v)), ro.env)}
               F(lo) == IF IsZero(lo.v) THEN {V(Zero, lo.env)} ELSE Then(EvalM(e.r, lo.env, m), G)
           IN Then(EvalM(e.l, env, m), F)
         ELSE IF e.op \in AssignOps THEN Assign(e, env, m)
         ELSE IF Unsequenced(e.l, e.r) THEN {U(env)}
         ELSE LET F(lo) == LET G(ro) == Apply(e.op, lo.v, ro.v, ro.env)
                           IN Then(EvalM(e.r, lo.env, m), G)
              IN Then(EvalM(e.l, env, m), F)

Eval(e, env) == EvalM(e, env, "spec")

\* A constant that is not representable is an error of the expression as a
\* whole, wherever it occurs (C 6.4.4.1p6 is a constraint; no evaluation order
\* can skip it): outcome class "s", a syntax error.
RECURSIVE ConstsOK(_)
ConstsOK(e) ==
  CASE e.k = "c" -> InRange64(e.v) /\ ~e.v.n
    [] e.k = "v" -> TRUE
    [] e.k \in {"u", "p", "g"} -> ConstsOK(e.a)
    [] e.k = "b" -> ConstsOK(e.l) /\ ConstsOK(e.r)
    [] e.k = "q" -> ConstsOK(e.c) /\ ConstsOK(e.t) /\ ConstsOK(e.e)
SyntaxErr(env) == [t |-> "s", v |-> Zero, c |-> "ConstantOutOfRange", env |-> env]

\* The allowed outcomes of an expansion.  After an error the environment is
\* not constrained (an implementation may have performed earlier side effects).
Allowed(e, env) == IF ConstsOK(e) THEN Eval(e, env) ELSE {SyntaxErr(env)}

\* outcomes under the named deviation (decimal-only variable values)
AllowedDecimalOnly(e, env) == IF ConstsOK(e) THEN EvalM(e, env, "dec") ELSE {SyntaxErr(env)}

\* does some variable of the environment read differently under the deviation?
DeviationApplies(env) ==
  \E n \in DOMAIN env : env[n].set /\ ValueOf(env[n].s) # ValueOfDecimalOnly(env[n].s)

\* Is an observed outcome allowed?  obs = [t, v, c, env] with t = "v" (value and
\* final environment), "e" (evaluation error), "s" (syntax error), "p" (crash).
\* Which kind of error is reported is not part of the property where C makes the
\* construct a constraint violation (diagnosed at translation time): assigning
\* to a non-lvalue may be rejected by the parser, an unrepresentable constant
\* may be reported by the evaluator.
Admits(S, obs) ==
  /\ obs.t # "p"
  /\ \/ \E o \in S : o.t = "u"
     \/ obs.t = "v" /\ \E o \in S : o.t = "v" /\ o.v = obs.v /\ o.env = obs.env
     \/ obs.t = "e" /\ \E o \in S : o.t \in {"e", "s"}
     \/ obs.t = "s" /\ \E o \in S : o.t = "s" \/ (o.t = "e" /\ o.c = "NotAssignable")

-----------------------------------------------------------------------------
\* Unparsing with minimal parentheses (C 6.5.1 - 6.5.16, one level per rule)

BinPrec(op) ==
  CASE op \in {"*", "/", "%"} -> 12
    [] op \in {"+", "-"} -> 11
    [] op \in {"<<", ">>"} -> 10
    [] op \in {"<", "<=", ">", ">="} -> 9
    [] op \in {"==", "!="} -> 8
    [] op = "&" -> 7
    [] op = "^" -> 6
    [] op = "|" -> 5
    [] op = "&&" -> 4
    [] op = "||" -> 3
    [] op \in AssignOps -> 1

\* grammar level of the outermost construct of e: 15 primary, 14 postfix,
\* 13 unary, 12..3 binary, 2 conditional, 1 assignment
Prec(e) ==
  CASE e.k \in {"c", "v", "g"} -> 15
    [] e.k = "p" -> 14
    [] e.k = "u" -> 13
    [] e.k = "b" -> BinPrec(e.op)
    [] e.k = "q" -> 2

ConstText(e) == IF e.r = "raw" THEN Str(e.cs) ELSE Str(ConstChars(e.v, e.r))

RECURSIVE Toks(_)
Wrap(e, min) == IF Prec(e) >= min THEN Toks(e) ELSE <<"(">> \o Toks(e) \o <<")">>
Toks(e) ==
  CASE e.k = "c" -> <<ConstText(e)>>
    [] e.k = "v" -> <<e.n>>
    [] e.k = "g" -> <<"(">> \o Toks(e.a) \o <<")">>
    [] e.k = "u" -> <<e.op>> \o Wrap(e.a, 13)                          \* unary-operator cast-expression
    [] e.k = "p" -> Wrap(e.a, 14) \o <<e.op>>                          \* postfix-expression ++
    [] e.k = "q" -> Wrap(e.c, 3) \o <<"?">> \o Wrap(e.t, 1) \o <<":">> \o Wrap(e.e, 2)
                                                  \* logical-OR-expression ? expression : conditional-expression
    [] e.k = "b" -> IF e.op \in AssignOps
                    THEN Wrap(e.l, 13) \o <<e.op>> \o Wrap(e.r, 1)     \* unary-expression op assignment-expression
                    ELSE Wrap(e.l, BinPrec(e.op)) \o <<e.op>> \o Wrap(e.r, BinPrec(e.op) + 1)   \* left associative

IsOperatorTok(t) == t \in PrefixOps \cup BinaryOps \cup {"?", ":"}

\* tokens to text (white space between tokens is insignificant, C 6.4p3).
\*  mode "s": one space between tokens;
\*  mode "t": no space except between two adjacent operators (which could fuse:
\*            "- -1", "x++ + 1");
\*  mode "w": tabs, newlines and runs of blanks between tokens and around the text.
WS == <<"\t", "\n", "  ", " \t ">>
RECURSIVE JoinFrom(_, _, _)
JoinFrom(ts, i, mode) ==
  IF i > Len(ts) THEN (IF mode = "w" THEN "\n " ELSE "")
  ELSE (IF i = 1 THEN (IF mode = "w" THEN " \t" ELSE "")
        ELSE IF mode = "w" THEN WS[(i % 4) + 1]
        ELSE IF mode = "s" \/ (IsOperatorTok(ts[i - 1]) /\ IsOperatorTok(ts[i])) THEN " "
        ELSE "") \o ts[i] \o JoinFrom(ts, i + 1, mode)
Text(e, mode) == JoinFrom(Toks(e), 1, mode)

-----------------------------------------------------------------------------
\* The C expression grammar as a parser of token sequences (used to check Toks
\* and by family 10 of Gen_Arith.tla).  Operands are tokens that are not operators or
\* parentheses; a parsed operand token t becomes [k |-> "t", t |-> t].
\* Each function returns [ok, e, i] (i = next position).

Fail == [ok |-> FALSE, e |-> <<>>, i |-> 0]
Ok(e, i) == [ok |-> TRUE, e |-> e, i |-> i]
Tok(ts, i) == IF i <= Len(ts) THEN ts[i] ELSE ""

LevelOps(p) ==
  CASE p = 12 -> {"*", "/", "%"} [] p = 11 -> {"+", "-"} [] p = 10 -> {"<<", ">>"}
    [] p = 9 -> {"<", "<=", ">", ">="} [] p = 8 -> {"==", "!="} [] p = 7 -> {"&"}
    [] p = 6 -> {"^"} [] p = 5 -> {"|"} [] p = 4 -> {"&&"} [] p = 3 -> {"||"}

RECURSIVE PExpr(_, _), PCond(_, _), PBinary(_, _, _), PBinaryRest(_, _, _, _), PUnary(_, _), PPostfixRest(_, _, _)

\* postfix-expression: primary-expression { ++ | -- }
PPostfixRest(ts, e, i) ==
  IF Tok(ts, i) \in PostfixOps THEN PPostfixRest(ts, Post(Tok(ts, i), e), i + 1) ELSE Ok(e, i)

\* unary-expression: postfix-expression | (++|--) unary-expression | unary-operator cast-expression
PUnary(ts, i) ==
  LET t == Tok(ts, i)
  IN IF t \in PrefixOps THEN
       LET a == PUnary(ts, i + 1) IN IF a.ok THEN Ok(Pre(t, a.e), a.i) ELSE Fail
     ELSE IF t = "(" THEN
       LET a == PExpr(ts, i + 1)
       IN IF a.ok /\ Tok(ts, a.i) = ")" THEN PPostfixRest(ts, a.e, a.i + 1) ELSE Fail
     ELSE IF t = "" \/ t = ")" \/ IsOperatorTok(t) THEN Fail
     ELSE PPostfixRest(ts, [k |-> "t", t |-> t], i + 1)

\* level-p expression: level-(p+1) expression { op level-(p+1) expression }   (left associative)
PBinaryRest(ts, p, e, i) ==
  IF Tok(ts, i) \in LevelOps(p)
  THEN LET r == IF p = 12 THEN PUnary(ts, i + 1) ELSE PBinary(ts, p + 1, i + 1)
       IN IF r.ok THEN PBinaryRest(ts, p, Bin(Tok(ts, i), e, r.e), r.i) ELSE Fail
  ELSE Ok(e, i)
PBinary(ts, p, i) ==
  LET l == IF p = 12 THEN PUnary(ts, i) ELSE PBinary(ts, p + 1, i)
  IN IF l.ok THEN PBinaryRest(ts, p, l.e, l.i) ELSE Fail

\* conditional-expression: logical-OR-expression [ ? expression : conditional-expression ]
PCond(ts, i) ==
  LET c == PBinary(ts, 3, i)
  IN IF ~c.ok THEN Fail
     ELSE IF Tok(ts, c.i) # "?" THEN c
     ELSE LET t == PExpr(ts, c.i + 1)
          IN IF ~(t.ok /\ Tok(ts, t.i) = ":") THEN Fail
             ELSE LET f == PCond(ts, t.i + 1)
                  IN IF f.ok THEN Ok(Cond(c.e, t.e, f.e), f.i) ELSE Fail

\* assignment-expression: conditional-expression | unary-expression assignment-operator assignment-expression
\* (if a unary-expression is followed by an assignment operator the production
\* must be the second one; otherwise the first)
PExpr(ts, i) ==
  LET u == PUnary(ts, i)
  IN IF u.ok /\ Tok(ts, u.i) \in AssignOps
     THEN LET r == PExpr(ts, u.i + 1)
          IN IF r.ok THEN Ok(Bin(Tok(ts, u.i), u.e, r.e), r.i) ELSE Fail
     ELSE PCond(ts, i)

Parse(ts) == LET r == PExpr(ts, 1) IN IF r.ok /\ r.i = Len(ts) + 1 THEN r ELSE Fail

\* the tree with every operand replaced by its token (what Parse can return)
RECURSIVE Skeleton(_)
Skeleton(e) ==
  CASE e.k = "c" -> [k |-> "t", t |-> ConstText(e)]
    [] e.k = "v" -> [k |-> "t", t |-> e.n]
    [] e.k = "g" -> Skeleton(e.a)
    [] e.k = "u" -> Pre(e.op, Skeleton(e.a))
    [] e.k = "p" -> Post(e.op, Skeleton(e.a))
    [] e.k = "b" -> Bin(e.op, Skeleton(e.l), Skeleton(e.r))
    [] e.k = "q" -> Cond(Skeleton(e.c), Skeleton(e.t), Skeleton(e.e))
=============================================================================
