SPECIFICATION Spec
CONSTANTS
  PIPE_BUF = 2
  PIPE_SIZE = 4
  Level = "K"
  Actors = {1, 2, 3}
  WSizes = {1, 5}
  RSizes = {1, 5}
  MaxH = 5
  Spurious = FALSE
VIEW view
CONSTRAINT Bound
INVARIANT TypeOK
INVARIANT Emit
