SPECIFICATION Spec
CONSTANTS
  Profile = "struct"
  MaxTok = 8
  MaxUnits = 0
INVARIANT GenInv
