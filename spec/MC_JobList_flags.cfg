SPECIFICATION Spec
CONSTANTS
  N = 2
  Pids = {1, 2}
  MaxH = 100
  Flags = TRUE
VIEW view
INVARIANT TypeOK
INVARIANT Consistent
INVARIANT EmitState
PROPERTY StableNumbers
