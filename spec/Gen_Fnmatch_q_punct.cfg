INIT Init
NEXT Next
VIEW view
CONSTANTS
  PNorm <- AlphaPunct
  PLit <- NoChars
  PMacro <- NoChars
  PLen = 2
  SAlpha <- AlphaPunct
  SLen = 2
  Kind = "match"
INVARIANT Emit
