SPECIFICATION Spec
CONSTANTS
  MaxDepth = 4
  Variant = ""
  MaxOps = 5
INVARIANTS Laws Emit
