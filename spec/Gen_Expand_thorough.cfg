SPECIFICATION Spec
CONSTANT Slice = 1
CONSTANT Level = 2
CONSTANT PairSlice = 12
INVARIANT Emit
INVARIANT Laws
