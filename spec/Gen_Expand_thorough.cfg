SPECIFICATION Spec
CONSTANT Slice = 1
CONSTANT Level = 2
INVARIANT Emit
INVARIANT Laws
