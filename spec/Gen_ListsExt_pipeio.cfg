SPECIFICATION Spec
CONSTANTS
  Fuel = 24
  TickLimit = 2
  Variant = ""
  K = 4
  Alphabet <- AlphaPipeIO
  ItemAlphabet <- NoItems
  Opts <- OptsPf
INVARIANT Emit
CHECK_DEADLOCK FALSE
