SPECIFICATION Spec
CONSTANTS
  MaxTasks = 4
  NChan = 1
  Budget = 3
  MaxOver = 2
  YieldFree = FALSE
  MaxRoots = 1
  MaxExt = 0
  Lifo = FALSE
  Hist = TRUE
  Pinned = FALSE
VIEW view
INVARIANT DriverInv
INVARIANT FifoOnce
INVARIANT EmitStalled
PROPERTY RefinesAbs
PROPERTY RelayForward
PROPERTY StatusForward
