\* P1 + P2 generator, theme "fork", quick tier: every distinct state reachable by
\* <= 5 calls of the theme's alphabet (parent and child), and the result of
\* every call in each of them (sequences of <= 6 calls).
SPECIFICATION Spec
CONSTANTS
  Theme = "fork"
  MaxFd = 4
  MaxLen = 6
  MaxPipe = 1
  MaxH = 5
VIEW view
CONSTRAINT Bounded
INVARIANT TypeOK
INVARIANT NoDanglingOfd
INVARIANT TreeClosed
INVARIANT NoIgnoredPending
INVARIANT EmitBounded
PROPERTY ForkLaw
PROPERTY KillKidLaw
