\* negative configuration: the wrong variant "fg_no_tc" must be refuted (law FgResumed)
SPECIFICATION Spec
CONSTANTS
  Variant = "fg_no_tc"
  Fams = {"fg", "async", "stop1", "tty", "nomon"}
  Cfgs = {"m", "mi", "-", "ml", "mib"}
  Enf = {TRUE}
ALIAS Brief
INVARIANT FgResumed
