SPECIFICATION Spec
CONSTANTS
  Fuel = 24
  TickLimit = 2
  K = 5
  Alphabet <- AlphaC10Nest2
  Opts <- OptsC10
INVARIANT EmitC10
CHECK_DEADLOCK FALSE
