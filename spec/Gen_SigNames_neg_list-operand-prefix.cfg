\* G14 negative configuration: the wrong variant "list-operand-prefix" of SigNames.tla must be refuted by a law
SPECIFICATION Spec
CONSTANTS
  Level = "laws"
  Variant = "list-operand-prefix"
INVARIANT LawsHold
