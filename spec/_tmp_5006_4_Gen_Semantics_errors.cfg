SPECIFICATION Spec
CONSTANTS
  Fuel = 24
  TickLimit = 2
  K = 4
  Alphabet <- AlphaErrors
  ItemAlphabet <- NoItems
  Mode = "c10"
INVARIANT Emit
CHECK_DEADLOCK FALSE
