SPECIFICATION Spec
INVARIANT Emit
