SPECIFICATION Spec
CONSTANTS
  Cfg = "q2"
  Bug = "none"
  Sim = TRUE
INVARIANT TypeOK
INVARIANT InternalInv
INVARIANT Conforms
INVARIANT Emit
