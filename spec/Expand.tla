------------------------------- MODULE Expand -------------------------------
(***************************************************************************)
(* Word expansion (property C01): which fields a word expands to in a      *)
(* given shell state.  Written from POSIX.1-2024 XCU 2.2 (quoting), 2.5.2  *)
(* (special parameters), 2.6 (word expansions: 2.6.2 parameter expansion,  *)
(* 2.6.5 field splitting, 2.6.7 quote removal), the `set -u` description,  *)
(* and the manual docs/src/language/words/{parameters,field_splitting,     *)
(* quoting}.md, docs/src/language/parameters/special.md.                   *)
(*                                                                         *)
(* A word is a sequence of units (records; `c` is one character, `s` a     *)
(* string, `u`/`w` sequences of units):                                    *)
(*   [t |-> "lit", c]          an ordinary character written as is        *)
(*   [t |-> "bs",  c]          \c                                          *)
(*   [t |-> "sq",  s]          's'            (not inside double quotes)   *)
(*   [t |-> "dq",  u]          "units"        (not inside double quotes)   *)
(*   [t |-> "par", p, m |-> "none"]                    $p  ${p}            *)
(*   [t |-> "par", p, m |-> "len"]                     ${#p}               *)
(*   [t |-> "par", p, m |-> "sw", colon, act, w]       ${p[:]act w}        *)
(*                         act in {"-", "=", "?", "+"}                     *)
(*   [t |-> "par", p, m |-> "trim", side, long, w]     ${p# w} ${p## w}    *)
(*                         side in {"#", "%"}          ${p% w} ${p%% w}    *)
(*   p in {"x", "y", "IFS"} (variables), "1", "2" (positional), "@", "*",  *)
(*   "#", "?".  IFS is a variable like any other: ${IFS=w} assigns it.     *)
(*                                                                         *)
(* Shell state: [x, y : [set, v], pos : Seq(STRING), ifs : [set, v],       *)
(*               nounset : BOOLEAN, st : STRING (value of $?)].            *)
(*                                                                         *)
(* The expansion proceeds as 2.6 prescribes:                               *)
(*  1. initial expansion, beginning to end, of every unit to a *phrase*    *)
(*     (a sequence of fields of attributed characters; only "$@"/$@/$*     *)
(*     make it differ from one field), threading the state for ${p=w} and  *)
(*     stopping at the first error;                                        *)
(*  2. field splitting of every field of the phrase (Split.tla), with the  *)
(*     value IFS has *after* step 1 (2.6: splitting is performed on the    *)
(*     results of the expansions of the whole word, so an assignment to    *)
(*     IFS made by ${IFS=w} in the same word already governs it), while    *)
(*     "$*" joins with the IFS in force where it is expanded;              *)
(*  3. quote removal.                                                      *)
(* Pathname expansion is not modelled (the harness runs with `set -f`).    *)
(***************************************************************************)
EXTENDS Split

Unset == [set |-> FALSE, v |-> ""]
Val(s) == [set |-> TRUE, v |-> s]

---------------------------------------------------------------------------
(* Notation for writing words: every operator yields a sequence of units,  *)
(* so words are built with \o.                                             *)
WLit(s) == [i \in 1..Len(s) |-> [t |-> "lit", c |-> SubSeq(s, i, i)]]
WBs(c) == <<[t |-> "bs", c |-> c]>>
WSq(s) == <<[t |-> "sq", s |-> s]>>
WDq(us) == <<[t |-> "dq", u |-> us]>>
WPar(p) == <<[t |-> "par", p |-> p, m |-> "none"]>>
WLen(p) == <<[t |-> "par", p |-> p, m |-> "len"]>>
WSw(p, colon, act, w) == <<[t |-> "par", p |-> p, m |-> "sw", colon |-> colon, act |-> act, w |-> w]>>
WTrim(p, side, long, w) == <<[t |-> "par", p |-> p, m |-> "trim", side |-> side, long |-> long, w |-> w]>>

---------------------------------------------------------------------------
(* Phrases                                                                 *)
ZeroFields == <<>>
OneEmptyField == << <<>> >>

(* 2.5.2 "@": "... the first field shall be joined with the beginning part *)
(* of the original word and the last field shall be joined with the end    *)
(* part of the original word"; zero fields contribute nothing.             *)
PhAppend(P, Q) ==
  IF P = <<>> THEN Q
  ELSE IF Q = <<>> THEN P
  ELSE SubSeq(P, 1, Len(P) - 1) \o << P[Len(P)] \o Q[1] >> \o SubSeq(Q, 2, Len(Q))

(* 2.6.2: the result of ${p-word} etc. is a result of parameter expansion, *)
(* so what was literal text of `word` becomes splittable; what `word`      *)
(* quotes stays quoted (fsplit-p.sh, "field splitting applies to results   *)
(* of expansions").                                                        *)
SoftenChar(a) == IF a.k = "lit" THEN AC(a.c, "exp") ELSE a
Soften(P) == [i \in DOMAIN P |-> [j \in DOMAIN P[i] |-> SoftenChar(P[i][j])]]

DQuote == AC("\"", "qm")
QuoteChar(a) == IF a.k = "qm" THEN a ELSE AC(a.c, "qtd")
QuoteField(f) == <<DQuote>> \o [j \in DOMAIN f |-> QuoteChar(f[j])] \o <<DQuote>>

(* 2.5.2 "*": joined "separated by the first character of the IFS variable *)
(* if IFS contains at least one character, or separated by a <space> if    *)
(* IFS is unset, or with no separation if IFS is set to a null string".    *)
JoinSep(ifs) ==
  IF ~ifs.set THEN <<AC(" ", "exp")>>
  ELSE IF ifs.v = "" THEN <<>>
  ELSE <<AC(SubSeq(ifs.v, 1, 1), "exp")>>

RECURSIVE JoinFields(_, _)
JoinFields(P, ifs) ==
  IF P = <<>> THEN <<>>
  ELSE IF Len(P) = 1 THEN P[1]
  ELSE P[1] \o JoinSep(ifs) \o JoinFields(Tail(P), ifs)

NoChars(P) == \A i \in DOMAIN P : P[i] = <<>>

---------------------------------------------------------------------------
(* Parameters                                                              *)
Lookup(p, st) ==
  CASE p = "x" -> st.x
    [] p = "y" -> st.y
    [] p = "IFS" -> st.ifs
    [] p = "1" -> IF Len(st.pos) >= 1 THEN Val(st.pos[1]) ELSE Unset
    [] p = "2" -> IF Len(st.pos) >= 2 THEN Val(st.pos[2]) ELSE Unset
    [] p = "#" -> Val(ToString(Len(st.pos)))
    [] p = "?" -> Val(st.st)

IsVariable(p) == p \in {"x", "y", "IFS"}
IfsC(st) == [set |-> st.ifs.set, v |-> Chars(st.ifs.v)]   \* IFS in the form Split.tla uses
Assign(p, s, st) ==
  CASE p = "x" -> [st EXCEPT !.x = Val(s)]
    [] p = "y" -> [st EXCEPT !.y = Val(s)]
    [] p = "IFS" -> [st EXCEPT !.ifs = Val(s)]

---------------------------------------------------------------------------
(* Patterns of ${p#w} ${p%w}: only the fragment "literal characters, *, ?" *)
(* of XCU 2.14 is modelled here (bracket expressions and unquoted          *)
(* backslashes from expansions belong to C04; such patterns are skipped).  *)
PatChars(f) == LET g == RemoveQuotes(f)
               IN [i \in DOMAIN g |-> [c |-> g[i].c, sp |-> g[i].k # "qtd" /\ g[i].c \in {"*", "?"}]]
PatSupported(f) == \A i \in DOMAIN f : f[i].k \in {"lit", "exp"} => f[i].c \notin {"[", "\\"}

RECURSIVE PatMatch(_, _)
PatMatch(p, s) ==          \* does pattern p match the whole of s
  IF p = <<>> THEN s = <<>>
  ELSE IF p[1].sp /\ p[1].c = "*" THEN \E k \in 0..Len(s) : PatMatch(Tail(p), SubSeq(s, k + 1, Len(s)))
  ELSE IF s = <<>> THEN FALSE
  ELSE IF p[1].sp THEN PatMatch(Tail(p), Tail(s))                 \* ?
  ELSE p[1].c = s[1] /\ PatMatch(Tail(p), Tail(s))

SetMin(S) == CHOOSE k \in S : \A j \in S : k <= j
SetMax(S) == CHOOSE k \in S : \A j \in S : j <= k

(* 2.6.2: remove smallest/largest prefix/suffix matching the pattern.      *)
TrimValue(v, pat, side, long) ==
  LET n == Len(v)
      K == IF side = "#" THEN {k \in 0..n : PatMatch(pat, SubSeq(v, 1, k))}
                         ELSE {k \in 0..n : PatMatch(pat, SubSeq(v, n - k + 1, n))}
  IN IF K = {} THEN v
     ELSE LET k == IF long THEN SetMax(K) ELSE SetMin(K)
          IN IF side = "#" THEN SubSeq(v, k + 1, n) ELSE SubSeq(v, 1, n - k)

---------------------------------------------------------------------------
(* 2.5.2 "@": with no positional parameters "$@" generates zero fields,    *)
(* "however, if the expansion is embedded within a word which contains one *)
(* or more other parts that expand to a quoted null string, these null     *)
(* string(s) shall still produce an empty field, except that if the other  *)
(* parts are all within the same double-quotes as the '@', it is           *)
(* unspecified whether the result is zero fields or one empty field."      *)
(* A double-quoted unit is an *ambiguity candidate* if there are no        *)
(* positional parameters and it contains an expansion of @ together with   *)
(* anything else (over-approximated syntactically); if such a unit         *)
(* produces no character, both outcomes are allowed (parameter `o` of the  *)
(* expansion selects one).                                                 *)
IsAt(u) == u.t = "par" /\ u.p = "@"
RECURSIVE HasAt(_)
HasAt(us) ==
  \E i \in DOMAIN us :
     \/ IsAt(us[i])
     \/ us[i].t = "par" /\ us[i].m \in {"sw", "trim"} /\ HasAt(us[i].w)
     \/ us[i].t = "dq" /\ HasAt(us[i].u)
SoleAt(us) == Len(us) = 1 /\ IsAt(us[1]) /\ us[1].m = "none"
AmbCandidate(us, st) == st.pos = <<>> /\ HasAt(us) /\ ~SoleAt(us)

RECURSIVE AmbCount(_, _)
AmbCount(us, st) ==
  IF us = <<>> THEN 0
  ELSE LET u == Head(us)
           here == CASE u.t = "dq" -> (IF AmbCandidate(u.u, st) THEN 1 ELSE 0) + AmbCount(u.u, st)
                     [] u.t = "par" /\ u.m \in {"sw", "trim"} -> AmbCount(u.w, st)
                     [] OTHER -> 0
       IN here + AmbCount(Tail(us), st)

---------------------------------------------------------------------------
(* Initial expansion.  Result: [ph, st, err, msg]; err = "" (success),     *)
(* "unset" (set -u), "vacant" (${p?w}), "nonassignable" (${1=w}: "only     *)
(* variables ... can be assigned in this way"), "skip" (outside the        *)
(* modelled fragment).  dq: the unit is lexically inside double quotes;    *)
(* o: how the unspecified case of "$@" above is resolved.                  *)
Res(ph, st) == [ph |-> ph, st |-> st, err |-> "", msg |-> ""]
Err(kind, st, msg) == [ph |-> <<>>, st |-> st, err |-> kind, msg |-> msg]

(* 2.2.3: inside double quotes the backslash keeps its special meaning only *)
(* before $ ` " \ (and newline)                                            *)
DqEscapable == {"$", "`", "\"", "\\"}

RECURSIVE XUnits(_, _, _, _), XFold(_, _, _, _, _), XUnit(_, _, _, _)

(* 2.6: a word without units (the empty `word` of ${p-}) is the null string *)
XUnits(us, st, dq, o) ==
  IF us = <<>> THEN Res(OneEmptyField, st)
  ELSE XFold(us, 1, Res(ZeroFields, st), dq, o)

XFold(us, i, acc, dq, o) ==
  IF i > Len(us) \/ acc.err # "" THEN acc
  ELSE LET r == XUnit(us[i], acc.st, dq, o)
       IN XFold(us, i + 1, [r EXCEPT !.ph = PhAppend(acc.ph, r.ph)], dq, o)

(* the text a single-string context gets from `word`: fields joined as for *)
(* "$*", quotes removed (assignment of ${p=w}, message of ${p?w})          *)
WordText(r) == Str(Plain(RemoveQuotes(JoinFields(r.ph, r.st.ifs))))

XSwitch(u, st, dq, o) ==
  LET v == Lookup(u.p, st)
      vacant == ~v.set \/ (u.colon /\ v.v = "")
      value == Res(IF v.set THEN <<ACs(Chars(v.v), "exp")>> ELSE OneEmptyField, st)
      word == XUnits(u.w, st, dq, o)
  IN CASE u.act = "+" -> IF vacant THEN Res(OneEmptyField, st)
                         ELSE [word EXCEPT !.ph = Soften(word.ph)]
       [] u.act = "-" -> IF vacant THEN [word EXCEPT !.ph = Soften(word.ph)] ELSE value
       [] u.act = "=" -> IF ~vacant THEN value
                         ELSE IF word.err # "" THEN word
                         ELSE IF ~IsVariable(u.p) THEN Err("nonassignable", word.st, "")
                         ELSE LET s == WordText(word)
                              IN Res(<<ACs(Chars(s), "exp")>>, Assign(u.p, s, word.st))
       [] u.act = "?" -> IF ~vacant THEN value
                         ELSE IF word.err # "" THEN word
                         ELSE Err("vacant", word.st, IF u.w = <<>> THEN "" ELSE WordText(word))

XTrim(u, st, o) ==
  LET v == Lookup(u.p, st) IN
  IF ~v.set THEN (IF st.nounset THEN Err("unset", st, "") ELSE Res(OneEmptyField, st))
  ELSE LET r == XUnits(u.w, st, FALSE, o) IN      \* 2.2.3: enclosing "..." has no effect on the pattern
       IF r.err # "" THEN r
       ELSE LET pf == JoinFields(r.ph, r.st.ifs) IN
            IF ~PatSupported(pf) THEN Err("skip", r.st, "")
            ELSE Res(<<ACs(TrimValue(Chars(v.v), PatChars(pf), u.side, u.long), "exp")>>, r.st)

XParam(u, st, dq, o) ==
  CASE u.m = "none" ->
         IF u.p \in {"@", "*"} THEN
            LET F == [i \in DOMAIN st.pos |-> ACs(Chars(st.pos[i]), "exp")]
            IN IF u.p = "*" /\ dq THEN Res(<<JoinFields(F, st.ifs)>>, st) ELSE Res(F, st)
         ELSE LET v == Lookup(u.p, st)
              IN IF v.set THEN Res(<<ACs(Chars(v.v), "exp")>>, st)
                 ELSE IF st.nounset THEN Err("unset", st, "")
                 ELSE Res(OneEmptyField, st)
    [] u.m = "len" ->
         IF u.p \in {"@", "*"} THEN Err("skip", st, "")     \* unspecified (2.6.2)
         ELSE LET v == Lookup(u.p, st)
              IN IF v.set THEN Res(<<ACs(DigitChars(Len(v.v)), "exp")>>, st)
                 ELSE IF st.nounset THEN Err("unset", st, "")
                 ELSE Res(<<ACs(<<"0">>, "exp")>>, st)
    [] u.m = "sw" ->
         IF u.p \in {"@", "*", "#"} THEN Err("skip", st, "")  \* unspecified / ambiguous ${#-w}
         ELSE XSwitch(u, st, dq, o)
    [] u.m = "trim" ->
         IF u.p \in {"@", "*", "#"} THEN Err("skip", st, "")  \* unspecified (2.6.2)
         ELSE XTrim(u, st, o)

XUnit(u, st, dq, o) ==
  CASE u.t = "lit" -> Res(<<<<AC(u.c, "lit")>>>>, st)
    [] u.t = "bs" ->
         IF ~dq \/ u.c \in DqEscapable
         THEN Res(<<<<AC("\\", "qm"), AC(u.c, "qtd")>>>>, st)
         ELSE Res(<<<<AC("\\", "lit"), AC(u.c, "lit")>>>>, st)
    [] u.t = "sq" ->
         IF dq THEN Err("skip", st, "")
         ELSE Res(<< <<AC("'", "qm")>> \o ACs(Chars(u.s), "qtd") \o <<AC("'", "qm")>> >>, st)
    [] u.t = "dq" ->
         IF dq THEN Err("skip", st, "")      \* 2.2.3: nested unescaped double quote: unspecified
         ELSE LET r == XUnits(u.u, st, TRUE, o) IN
              IF r.err # "" THEN r
              ELSE IF AmbCandidate(u.u, st) /\ NoChars(r.ph)
                   THEN Res(IF o THEN <<QuoteField(<<>>)>> ELSE ZeroFields, r.st)
                   ELSE Res([i \in DOMAIN r.ph |-> QuoteField(r.ph[i])], r.st)
    [] u.t = "par" -> XParam(u, st, dq, o)

---------------------------------------------------------------------------
(* The complete expansion of one word used as a command argument.          *)
ExpandWith(w, st, o) ==
  LET r == XUnits(w, st, FALSE, o) IN
  IF r.err # "" THEN [k |-> r.err, f |-> <<>>, x |-> r.st.x, y |-> r.st.y, ifs |-> r.st.ifs, msg |-> r.msg]
  ELSE LET F == SplitFields(r.ph, IfsC(r.st))
       IN [k |-> "ok", f |-> [i \in DOMAIN F |-> Str(Plain(RemoveQuotes(F[i])))],
           x |-> r.st.x, y |-> r.st.y, ifs |-> r.st.ifs, msg |-> ""]

SkipOutcome(st) == [k |-> "skip", f |-> <<>>, x |-> st.x, y |-> st.y, ifs |-> st.ifs, msg |-> ""]

(* Allowed outcomes (a sequence of one or two records).                    *)
Outcomes(w, st) ==
  LET n == AmbCount(w, st) IN
  IF n >= 2 THEN <<SkipOutcome(st)>>
  ELSE LET a == ExpandWith(w, st, FALSE) IN
       IF a.k = "skip" THEN <<SkipOutcome(st)>>
       ELSE IF n = 0 THEN <<a>>
       ELSE LET b == ExpandWith(w, st, TRUE) IN IF a = b THEN <<a>> ELSE <<a, b>>

(* Does an observation [k, f, x, y, ifs] (k = "ok"/"err") agree with an outcome? *)
(* The kind of an error and the values of variables after an error are     *)
(* not compared (the shell exits; POSIX fixes no diagnostics).             *)
Agrees(obs, out) ==
  IF out.k = "ok" THEN obs.k = "ok" /\ obs.f = out.f /\ obs.x = out.x /\ obs.y = out.y /\ obs.ifs = out.ifs
  ELSE obs.k = "err"

---------------------------------------------------------------------------
(* The `read` built-in on one line (no -r): a character written \c in the  *)
(* line is quoted.  line: sequence of [c, esc].                            *)
ReadLine(line) ==
  Flatten([i \in DOMAIN line |->
     IF line[i].esc THEN <<AC("\\", "qm"), AC(line[i].c, "qtd")>> ELSE <<AC(line[i].c, "exp")>>])
ReadOutcomes(line, n, ifs) ==
  LET A == ReadAllowed(ReadLine(line), n, ifs)
  IN { [k \in 1..n |-> Str(v[k])] : v \in A }
=============================================================================
