\* C08 quick: what the fork does with the parent's pending signals and execution context:
\* a sibling signals the parent (trapped SIGUSR1) at any moment relative to the forks ("sig");
\* the construct inside the condition of if / while / until, `!`, the left of && (errexit-exempt)
CONSTANTS
  MaxPre = 1
  MaxChild = 2
  MaxPost = 1
  MaxTotal = 2
  MinPre = 0
  MinTotal = 0
  Leaky = FALSE
  ForkBug = "none"
  Alphabet <- CtxCmds1
  PreAlphabet <- CtxPreCmds1
  Kinds <- CtxKinds
  Modes <- ScriptMode
  Fins <- NormalFin
  Ctxs <- NewCtxs
INIT Init
NEXT Next
INVARIANTS NoForeignTrapAction EntryIsForkImage PendingCleared ParentTrapOnce ContextDuplicated TrapRule SharedDescriptions Final Emit
PROPERTIES Isolation CopyNotReference
