----------------------------- MODULE NestedExec -----------------------------
(***************************************************************************)
(* Nested execution contexts created by built-in utilities (growth module  *)
(* G07): eval, dot (`.` / `source`), exec, return, exit, break, continue   *)
(* and the EXIT trap, written from                                         *)
(*   POSIX.1-2024 XCU 2.15 (eval, dot, exec, return, exit, break,          *)
(*   continue, set -e, trap), 2.8.1 (consequences of shell errors), 2.8.2, *)
(*   2.9.4 (compound commands), 2.9.5 (functions), 2.13 (environments)     *)
(* and the project manual docs/src/builtins/{eval,source,exec,return,exit, *)
(* break,continue}.md, docs/src/termination.md, dynamic_evaluation.md.     *)
(* It is NOT a transcription of yash-builtin / yash-semantics.             *)
(*                                                                         *)
(* The definition is a big-step interpreter Ev(node, state, context) over  *)
(* a small command language (the style of Semantics.tla, C02):             *)
(*    mk m n    records <<m, $?>>, returns status n   (regular built-in)   *)
(*    probe m   records <<m, $?>>, leaves $? unchanged                     *)
(*    pp m      records <<1000 * (1 + $#) + m, $?>>, leaves $? unchanged    *)
(*    tick      succeeds the first TickLimit times (loop bound)            *)
(*    f, g      function calls with n arguments; NAME() body definitions   *)
(*    set -- a.. (n words), set -e / set +e                                *)
(*    ; && || ! ( ) if while for                                           *)
(* extended with the nodes this module is about:                           *)
(*    eval P        `eval 'text of P'` : P parsed and executed in the      *)
(*                  current environment                                    *)
(*    evalnil       eval without commands (no operand, null operands,      *)
(*                  blanks, a comment)                                     *)
(*    evalsyn       eval of a string that is one complete command with a   *)
(*                  syntax error                                           *)
(*    dot P         `. file` where the file holds the text of P            *)
(*                  (n = 0: name with a slash, n = 1: found through PATH)  *)
(*    dotnil        `. file`, file without commands                        *)
(*    dotmiss       `. file`, no such file (n as above)                    *)
(*    dotsyn        `. file`, the file is one complete command with a      *)
(*                  syntax error                                           *)
(*    exec found n  `exec utility`: the process image is replaced; the     *)
(*                  utility records <<m, $?>> and exits with n             *)
(*    exec missing / noexec / none                                         *)
(*    return [n], exit [n], break n, continue n                            *)
(*    fail c        one command that fails with an error of category c of   *)
(*                  XCU 2.8.1 "Consequences of Shell Errors" (see ErrCats;   *)
(*                  the nested-errors stage of property C10)                 *)
(*    trap a        `trap 'probe m[; exit a]' EXIT` or, for the operand-less *)
(*                  exit, `trap 'probe m; ! :; exit' EXIT` (the `! :`      *)
(*                  makes $? inside the action differ from the $? before)  *)
(*                                                                         *)
(* A program yields the sequence of recorded <<marker, $?>> pairs, the     *)
(* final exit status, the way the shell process ended, or is classified    *)
(* "unspec" where POSIX and the manual leave the behaviour open (such      *)
(* programs are skipped and counted) or "div" when it does not terminate   *)
(* within the fuel.                                                        *)
(*                                                                         *)
(* Statuses POSIX only bounds ("non-zero") are symbolic: the k-th such     *)
(* error of a run has status -(10+k); the conformance check binds each     *)
(* symbol consistently to one observed value in 1..255.                    *)
(***************************************************************************)
EXTENDS Integers, Sequences, FiniteSets, TLC

CONSTANTS Fuel,        \* bound on loop iterations + function calls + dot scripts of one run
          TickLimit    \* `tick` succeeds this many times (per environment)

(***************************************************************************)
(* Syntax: tokens in prefix form, Token = [k, n, s]; tree node = token +   *)
(* m (marker: index of the token) + c (children).                          *)
(***************************************************************************)
Tok(k, n, s) == [k |-> k, n |-> n, s |-> s]

LeafKinds == {"mk", "P", "Q", "setpp", "sete", "tick", "cmd", "brk", "cnt", "ret", "exit", "trap",
              "evalnil", "evalsyn", "dotnil", "dotmiss", "dotsyn", "exec", "fail"}

SlotsOf(k) ==
  CASE k \in LeafKinds -> <<>>
    [] k \in {"not", "sub", "def", "for", "eval", "dot"} -> <<"C">>
    [] k = "seq" -> <<"N", "C">>
    [] k \in {"and", "or", "if", "while"} -> <<"C", "C">>
    [] k = "ife" -> <<"C", "C", "C">>

Arity(k) == Len(SlotsOf(k))

RECURSIVE ParseAt(_, _), ParseKids(_, _, _)
ParseAt(toks, i) ==
  LET tk == toks[i]
      ks == ParseKids(toks, i + 1, Arity(tk.k))
  IN [t |-> [k |-> tk.k, n |-> tk.n, s |-> tk.s, m |-> i, c |-> ks.c], nx |-> ks.nx]
ParseKids(toks, i, a) ==
  IF a = 0 THEN [c |-> <<>>, nx |-> i]
  ELSE LET first == ParseAt(toks, i)
           rest == ParseKids(toks, first.nx, a - 1)
       IN [c |-> <<first.t>> \o rest.c, nx |-> rest.nx]

Parse(toks) == ParseAt(toks, 1).t

RECURSIVE Open(_, _, _)
Open(toks, i, need) ==
  IF i > Len(toks) THEN need
  ELSE IF need = 0 THEN -1
  ELSE Open(toks, i + 1, need - 1 + Arity(toks[i].k))
WellFormed(toks) == Len(toks) > 0 /\ Open(toks, 1, 1) = 0

(***************************************************************************)
(* Run-time state.                                                         *)
(*   st    $?                                                              *)
(*   tr    recorded <<marker, $?>> pairs in execution order                *)
(*   dv    why execution is being abandoned:                               *)
(*           "none"                                                        *)
(*           "brk" / "cnt"  dn loops still to leave                        *)
(*           "ret"          the innermost function or dot script ends      *)
(*           "exit"         this shell environment terminates with st      *)
(*           "exec"         the process image of this environment has been *)
(*                          replaced; the utility exited with st           *)
(*           "unspec", "div"                                               *)
(*   fn    function table, c tick counter, fuel, en error-symbol counter   *)
(*   pp    number of positional parameters ($#)                            *)
(*   trap  EXIT trap of this environment: m marker (-1: none), a action    *)
(*         (-2: `probe m`, -1: `probe m; ! :; exit`, n >= 0: `probe m;     *)
(*         exit n`)                                                        *)
(*   nt    number of EXIT trap actions run so far (all environments)       *)
(*   e     errexit option, fired: terminating because of errexit           *)
(*   xw    why the environment terminates ("exit", "errexit", "error",     *)
(*         "execfail"), ghost except for the tags                          *)
(*   xamb  the environment terminates by `exit n` with an operand that     *)
(*         differs from the $? before it (see RunExitTrap)                 *)
(*   tg    ghost: set of rule tags applied (coverage accounting only)      *)
(* Context (dynamic, handed down):                                         *)
(*   ig    -e is being ignored (XCU 2.15 set -e, exception 2)              *)
(*   ld    loops lexically enclosing the command in the current function   *)
(*         body / dot script and execution environment                     *)
(*   od    further loops in progress in the same execution environment     *)
(*         that do not lexically enclose the command                       *)
(*   infn  a function or dot script is being executed in this environment  *)
(*   in    ghost: innermost context kind ("top","eval","dot","fn","sub")   *)
(***************************************************************************)
FNames == {"f", "g"}

Undef == [k |-> "undef", n |-> 0, s |-> "", m |-> 0, c |-> <<>>]

NoTrap == [m |-> -1, a |-> -2]

State0(e, trap) ==
  [st |-> 0, tr |-> <<>>, dv |-> "none", dn |-> 0, fn |-> [x \in FNames |-> Undef],
   c |-> 0, pp |-> 0, fuel |-> Fuel, en |-> 0, trap |-> trap, nt |-> 0, e |-> e,
   fired |-> FALSE, xamb |-> FALSE, xw |-> "", tg |-> {}]

Ctx0 == [ig |-> FALSE, ld |-> 0, od |-> 0, infn |-> FALSE, in |-> "top"]

Abandon(S, why) == [S EXCEPT !.dv = why]
Tag(S, t) == [S EXCEPT !.tg = @ \cup {t}]

\* XCU 2.15 set -e: "when any command fails ... the shell immediately shall
\* exit, as if by executing the exit special built-in utility with no
\* arguments".  Applied after simple commands (eval, dot, exec, function calls
\* and the probes are simple commands) and subshells.
Errexit(S, C) ==
  IF S.dv = "none" /\ S.e = 1 /\ ~C.ig /\ S.st # 0
  THEN Tag([S EXCEPT !.dv = "exit", !.fired = TRUE, !.xw = "errexit"], "errexit@" \o C.in)
  ELSE S

NewErr(S) == [S EXCEPT !.st = -(10 + S.en), !.en = @ + 1]
\* 2.8.1 "shall exit": special built-in utility error, shell language syntax
\* error (non-interactive shell; in a subshell the subshell exits).
ShellError(S) == [NewErr(S) EXCEPT !.dv = "exit", !.xw = "error"]

Record(S, m) == [S EXCEPT !.tr = Append(@, <<m, S.st>>)]

(***************************************************************************)
(* Categories of failing commands (leaf `fail c`), XCU 2.8.1 "Consequences *)
(* of Shell Errors" (non-interactive shell) and docs/src/termination.md    *)
(* "Shell errors":                                                         *)
(*   "sp"    special built-in utility error                 shall exit     *)
(*   "spr"   redirection error with a special built-in      shall exit     *)
(*   "asg"   variable assignment error, no command name     shall exit     *)
(*   "asgc"  variable assignment error, with a command name shall exit     *)
(*   "exp"   expansion error                                shall exit     *)
(*   "reg"   other utility (not a special built-in) error   shall not exit *)
(*   "cmdsp" special built-in error, the utility executed                  *)
(*           through `command` ("the shell shall not exit") shall not exit *)
(*   "regr"  redirection error with other utilities         shall not exit *)
(*   "cmpr"  redirection error with a compound command      shall not exit *)
(* "shall exit" ends the current execution environment (2.8.1: "from a     *)
(* subshell environment ... the shell shall exit from the subshell         *)
(* environment"; termination.md "Exiting subshells") with a non-zero       *)
(* status, whatever executes the command: the operand of eval, a dot       *)
(* script, a function, the condition of an if.  "shall not exit": the      *)
(* command is not performed (redirection errors) or has failed, $? is      *)
(* non-zero and the failure is that of an ordinary command: -e applies     *)
(* unless it is being ignored (termination.md: "The shell exits if         *)
(* `errexit` is set. Otherwise, it continues with the next command.").     *)
(* The statuses are only bounded (> 0): symbolic.  The command itself      *)
(* records nothing.                                                        *)
(***************************************************************************)
ExitCats == {"sp", "spr", "asg", "asgc", "exp"}
SoftCats == {"reg", "cmdsp", "regr", "cmpr"}
ErrCats == ExitCats \cup SoftCats

(***************************************************************************)
(* EXIT trap (XCU 2.15 trap, exit; termination.md "EXIT trap"; exit.md).   *)
(* The action runs once when the environment terminates other than by a    *)
(* replaced process image; it sees the $? the environment is terminating   *)
(* with.  `exit n` inside the action: the shell exits immediately with n.  *)
(* `exit` without operand inside the action: "the value [of $?] it had     *)
(* immediately preceding the trap action" (exit.md: "the value of $?       *)
(* before entering the trap").  When the environment is terminating by     *)
(* `exit n` with n different from the $? before that command, the two      *)
(* readings of "preceding the trap action" (n / the earlier $?) differ     *)
(* (exit-p.sh: "Many shells including yash interpret it as ..."): unspec.  *)
(***************************************************************************)
RunExitTrap(S) ==
  IF S.trap.m >= 0 /\ S.dv \in {"none", "exit"}
  THEN LET S1 == Tag([Record(S, S.trap.m) EXCEPT !.nt = @ + 1, !.trap = NoTrap],
                     "trap-after-" \o (IF S.dv = "none" THEN "eof" ELSE S.xw))
       IN (CASE S.trap.a = -2 -> S1
             \* the action is a command list executed by the shell: with errexit
             \* on, `probe m` completing with a non-zero status (it returns the
             \* $? it saw) ends the shell before the `exit` that follows it
             [] S.e = 1 /\ S.st # 0 -> Tag([S1 EXCEPT !.dv = "exit"], "trap-errexit")
             [] S.trap.a = -1 -> (IF S.xamb THEN Abandon(S1, "unspec")
                                  ELSE Tag([S1 EXCEPT !.dv = "exit"], "trap-exit-default"))
             [] OTHER -> Tag([S1 EXCEPT !.dv = "exit", !.st = S.trap.a], "trap-exit-n"))
  ELSE S

Fn(S, name) == IF name \in FNames THEN S.fn[name] ELSE Undef

RECURSIVE Ev(_, _, _), WLoop(_, _, _, _, _), FLoop(_, _, _, _)

\* A subshell environment (2.13): a copy of the state; traps are reset; loops,
\* functions and dot scripts of the parent do not enclose its commands.  What
\* comes back is $?, the observations and the bookkeeping.  exit, a shell
\* error, errexit and exec inside end the subshell only (exit: "exit from the
\* subshell environment ... and continue in the environment from which that
\* subshell environment was invoked"; termination.md "Exiting subshells").
Sub(t, S, C) ==
  LET S1 == Ev(t, [S EXCEPT !.trap = NoTrap, !.fired = FALSE, !.xamb = FALSE, !.xw = ""],
               [ig |-> C.ig, ld |-> 0, od |-> 0, infn |-> FALSE, in |-> "sub"])
      S2 == RunExitTrap(S1)
  IN [S EXCEPT !.st = S2.st, !.tr = S2.tr, !.fuel = S2.fuel, !.en = S2.en, !.nt = S2.nt,
               !.tg = S2.tg,
               !.dv = IF S2.dv \in {"unspec", "div"} THEN S2.dv ELSE "none"]

\* A frame: function call (2.9.5) or dot script (XCU dot).  The body runs in
\* the current environment; `return` ends the innermost frame only ("stop
\* executing the current function or dot script"); loops outside the frame do
\* not lexically enclose its commands.
Frame(body, S, C, kind) ==
  IF S.fuel = 0 THEN Abandon(S, "div")
  ELSE LET S1 == Ev(body, [S EXCEPT !.fuel = @ - 1],
                    [ig |-> C.ig, ld |-> 0, od |-> C.ld + C.od, infn |-> TRUE, in |-> kind])
       IN IF S1.dv = "ret" THEN Tag([S1 EXCEPT !.dv = "none"], "ret-ends-" \o kind) ELSE S1

\* break n / continue n (XCU break): without a lexically enclosing loop, or
\* with n exceeding the lexically enclosing loops while another loop is in
\* progress in the same environment, the behaviour is unspecified; otherwise
\* min(n, ld) loops are left.  The text of an eval operand that appears in a
\* loop body is executed "in the current environment"; this specification
\* counts it as contained in the loop (break.md: "the break command appears
\* inside the condition or body of the loop"; break-p.sh 'breaking out of
\* eval'), tagged "brk@eval".
LoopExit(t, S, C) ==
  IF C.ld = 0 \/ (t.n > C.ld /\ C.od > 0) THEN Abandon(S, "unspec")
  ELSE Tag([S EXCEPT !.st = 0, !.dv = t.k, !.dn = IF t.n < C.ld THEN t.n ELSE C.ld],
           t.k \o "@" \o C.in)

Simple(t, S, C) ==
  CASE t.k = "mk" -> Errexit([Record(S, t.m) EXCEPT !.st = t.n], C)
    [] t.k = "P" -> Errexit(Record(S, t.m), C)
    \* Positional parameters belong to the current environment: eval and dot
    \* (without further operands) neither save nor change them, so `set --`
    \* executed by them stays in effect; a function call replaces them by its
    \* arguments and 2.9.5 restores them when the function completes.
    [] t.k = "Q" -> Errexit(Record(S, 1000 * (1 + S.pp) + t.m), C)
    [] t.k = "setpp" -> [S EXCEPT !.pp = t.n, !.st = 0]
    \* options belong to the current environment too (set -e inside eval / a
    \* dot script / a function stays on afterwards; inside a subshell it is lost)
    [] t.k = "sete" -> [S EXCEPT !.e = t.n, !.st = 0]
    [] t.k = "tick" -> Errexit([S EXCEPT !.c = @ + 1, !.st = IF S.c + 1 <= TickLimit THEN 0 ELSE 1], C)
    [] t.k = "trap" -> [S EXCEPT !.st = 0, !.trap = [m |-> t.m, a |-> t.n]]
    [] t.k \in {"brk", "cnt"} -> LoopExit(t, S, C)
    \* XCU return: "If the shell is not currently executing a function or dot
    \* script, the results are unspecified."  Without operand: the current $?.
    [] t.k = "ret" -> IF ~C.infn THEN Abandon(S, "unspec")
                      ELSE Tag([S EXCEPT !.dv = "ret", !.st = IF t.n < 0 THEN S.st ELSE t.n], "ret@" \o C.in)
    \* XCU exit: the current execution environment terminates with n (the
    \* current $? without operand), wherever the command is: inside eval, a
    \* dot script, a function, a loop.
    [] t.k = "exit" -> Tag([S EXCEPT !.dv = "exit", !.st = IF t.n < 0 THEN S.st ELSE t.n, !.xw = "exit",
                                     !.xamb = (t.n >= 0 /\ t.n # S.st)], "exit@" \o C.in)
    [] t.k = "cmd" ->
         IF Fn(S, t.s) # Undef
         THEN Errexit([Frame(Fn(S, t.s), [S EXCEPT !.pp = t.n], C, "fn") EXCEPT !.pp = S.pp], C)
         ELSE Errexit([S EXCEPT !.st = 127], C)    \* 2.8.2: command not found
    \* XCU eval, EXIT STATUS: "If there are no arguments, or only null
    \* arguments, eval shall return a zero exit status"; eval.md: "If there is
    \* no command in the string, the exit status is zero."
    [] t.k = "evalnil" -> Tag([S EXCEPT !.st = 0], "evalnil")
    \* "a non-zero exit status if the concatenation could not be parsed as a
    \* command and the shell is interactive (and therefore did not abort)";
    \* 2.8.1: shell language syntax error, non-interactive shell shall exit.
    [] t.k = "evalsyn" -> Tag(ShellError(S), "evalsyn@" \o C.in)
    \* XCU dot: "return the value of the last command executed, or a zero exit
    \* status if no command is executed".
    [] t.k = "dotnil" -> Tag([S EXCEPT !.st = 0], "dotnil")
    \* "If no readable file is found, a non-interactive shell shall abort".
    [] t.k = "dotmiss" -> Tag(ShellError(S), "dotmiss@" \o C.in)
    [] t.k = "dotsyn" -> Tag(ShellError(S), "dotsyn@" \o C.in)
    \* XCU exec: with a utility operand the shell executes it as in 2.9.1.6
    \* and does not return (the environment's exit status is the utility's; no
    \* EXIT trap: the shell does not terminate, its image is replaced).  "If
    \* the exec command fails, a non-interactive shell shall exit from the
    \* current shell execution environment", status 127 (not found) or 126
    \* (found, cannot be executed) per 2.8.2.  Without operands: status zero.
    [] t.k = "exec" ->
         (CASE t.s = "found" -> Tag([Record(S, t.m) EXCEPT !.st = t.n, !.dv = "exec"], "exec@" \o C.in)
            [] t.s = "missing" -> Tag([S EXCEPT !.st = 127, !.dv = "exit", !.xw = "execfail"], "exec127@" \o C.in)
            [] t.s = "noexec" -> Tag([S EXCEPT !.st = 126, !.dv = "exit", !.xw = "execfail"], "exec126@" \o C.in)
            [] OTHER -> [S EXCEPT !.st = 0])
    \* XCU 2.8.1 (see ErrCats above): the consequence is decided by the
    \* category of the failing command alone.
    [] t.k = "fail" ->
         IF t.s \in ExitCats THEN Tag(ShellError(S), "fail:" \o t.s \o "@" \o C.in)
         ELSE LET S1 == Tag(NewErr(S), "fail:" \o t.s \o "@" \o C.in)
              IN Errexit(IF S.e = 1 /\ C.ig THEN Tag(S1, "fail-soft-exempt") ELSE S1, C)

LeaveLoop(S) == IF S.dn = 1 THEN [S EXCEPT !.dv = "none", !.dn = 0] ELSE [S EXCEPT !.dn = @ - 1]

\* while (2.9.4.3): status of the last compound-list-2 executed, 0 if none.
WLoop(t, S, C, last, lastn) ==
  IF S.fuel = 0 THEN Abandon(S, "div")
  ELSE
  LET C1 == [C EXCEPT !.ld = @ + 1]
      S1 == Ev(t.c[1], [S EXCEPT !.fuel = @ - 1], [C1 EXCEPT !.ig = TRUE])
  IN CASE S1.dv = "brk" ->
            \* break in the condition: see Semantics.tla (status open when a
            \* body with non-zero status was executed before)
            (IF S1.dn = 1
             THEN (IF last # 0 THEN Abandon(S1, "unspec") ELSE [LeaveLoop(S1) EXCEPT !.st = 0])
             ELSE LeaveLoop(S1))
       [] S1.dv = "cnt" -> (IF S1.dn = 1 THEN WLoop(t, LeaveLoop(S1), C, last, lastn)
                            ELSE LeaveLoop(S1))
       [] S1.dv # "none" -> S1
       [] S1.st # 0 -> [S1 EXCEPT !.st = last]
       [] OTHER ->
          (LET S2 == Ev(t.c[2], S1, C1)
           IN CASE S2.dv = "brk" -> LeaveLoop(S2)
                [] S2.dv = "cnt" -> (IF S2.dn = 1 THEN WLoop(t, LeaveLoop(S2), C, S2.st, lastn)
                                     ELSE LeaveLoop(S2))
                [] S2.dv # "none" -> S2
                [] OTHER -> WLoop(t, S2, C, S2.st, S2.st))

\* for (2.9.4.2) over k words: status of the last command executed.
FLoop(t, k, S, C) ==
  IF k = 0 THEN S
  ELSE IF S.fuel = 0 THEN Abandon(S, "div")
  ELSE
  LET S1 == Ev(t.c[1], [S EXCEPT !.fuel = @ - 1], [C EXCEPT !.ld = @ + 1])
  IN CASE S1.dv = "brk" -> LeaveLoop(S1)
       [] S1.dv = "cnt" -> (IF S1.dn = 1 THEN FLoop(t, k - 1, LeaveLoop(S1), C) ELSE LeaveLoop(S1))
       [] S1.dv # "none" -> S1
       [] OTHER -> FLoop(t, k - 1, S1, C)

Ev(t, S, C) ==
  CASE t.k = "seq" ->
         LET S1 == Ev(t.c[1], S, C) IN IF S1.dv # "none" THEN S1 ELSE Ev(t.c[2], S1, C)
    [] t.k \in {"and", "or"} ->
         LET S1 == Ev(t.c[1], S, [C EXCEPT !.ig = TRUE])
         IN IF S1.dv # "none" THEN S1
            ELSE IF (S1.st = 0) = (t.k = "and") THEN Ev(t.c[2], S1, C) ELSE S1
    [] t.k = "not" ->
         LET S1 == Ev(t.c[1], S, [C EXCEPT !.ig = TRUE])
         IN IF S1.dv # "none" THEN S1 ELSE [S1 EXCEPT !.st = IF S1.st = 0 THEN 1 ELSE 0]
    [] t.k = "sub" -> Errexit(Sub(t.c[1], S, C), C)
    [] t.k = "def" -> [S EXCEPT !.fn[t.s] = t.c[1], !.st = 0]
    [] t.k = "if" ->
         LET S1 == Ev(t.c[1], S, [C EXCEPT !.ig = TRUE])
         IN IF S1.dv # "none" THEN S1
            ELSE IF S1.st = 0 THEN Ev(t.c[2], S1, C) ELSE [S1 EXCEPT !.st = 0]
    [] t.k = "ife" ->
         LET S1 == Ev(t.c[1], S, [C EXCEPT !.ig = TRUE])
         IN IF S1.dv # "none" THEN S1
            ELSE IF S1.st = 0 THEN Ev(t.c[2], S1, C) ELSE Ev(t.c[3], S1, C)
    [] t.k = "while" -> WLoop(t, S, C, 0, 0)
    [] t.k = "for" -> IF t.n = 0 THEN [S EXCEPT !.st = 0] ELSE FLoop(t, t.n, S, C)
    \* XCU eval: the string is "parsed ... and executed by the shell in the
    \* current environment": the commands see and change $?, functions, traps,
    \* options; return / break / continue / exit inside act on the function,
    \* dot script, loops and environment the eval command is in.  The exit
    \* status is that of the last command executed.  eval itself is a simple
    \* command: -e applies to its status.
    [] t.k = "eval" -> Errexit(Ev(t.c[1], S, [C EXCEPT !.in = "eval"]), C)
    \* XCU dot: "execute the resulting commands in the current environment";
    \* a frame for return and for the lexical scope of break / continue.
    [] t.k = "dot" -> Errexit(Frame(t.c[1], S, C, "dot"), C)
    [] OTHER -> Simple(t, S, C)

(***************************************************************************)
(* A whole program.  Options of a run: e errexit; t EXIT trap set before   *)
(* the program (0: none, 1: `probe 0`, 2: `probe 0; exit 7`,               *)
(* 3: `probe 0; ! :; exit`).                                               *)
(*   x = "none"  the shell reached the end of its input                    *)
(*       "exit"  it terminated earlier (exit, errexit, shell error)        *)
(*       "exec"  its process image was replaced                            *)
(***************************************************************************)
TrapOf(t) == CASE t = 0 -> NoTrap
               [] t = 1 -> [m |-> 0, a |-> -2]
               [] t = 2 -> [m |-> 0, a |-> 7]
               [] OTHER -> [m |-> 0, a |-> -1]

Run(t, o) ==
  LET S1 == Ev(t, State0(o.e, TrapOf(o.t)), Ctx0)
      S2 == RunExitTrap(S1)
  IN [oc |-> IF S2.dv \in {"unspec", "div"} THEN S2.dv ELSE "ok",
      tr |-> S2.tr, st |-> S2.st, nt |-> S2.nt, fired |-> S2.fired, x |-> S1.dv, tg |-> S2.tg]
=============================================================================
