\* NEGATIVE configuration: the named wrong order "nonatomic_select" replaces the correct
\* protocol; TLC MUST report a deadlock / invariant violation here.
SPECIFICATION Spec
CONSTANTS
  Variant = "nonatomic_select"
  MaxP = 7
  Scripts <- CatNegWait
INVARIANTS NoErr InvReapOnce InvStatusTrue InvNoFgLeft InvJobsSound InvDenotation
