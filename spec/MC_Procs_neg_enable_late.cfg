\* NEGATIVE configuration: the named wrong order "enable_late" replaces the correct
\* protocol; TLC MUST report a deadlock / invariant violation here.
SPECIFICATION Spec
CONSTANTS
  Variant = "enable_late"
  MaxP = 7
  Scripts <- CatNegWait
INVARIANTS NoErr InvReapOnce InvStatusTrue InvNoFgLeft InvJobsSound InvDenotation
