SPECIFICATION Spec
CONSTANTS
  Cfg = "cov"
  Bug = "none"
  Sim = TRUE
INVARIANT TypeOK
INVARIANT InternalInv
INVARIANT Conforms
INVARIANT Emit
