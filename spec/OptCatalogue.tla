---------------------------- MODULE OptCatalogue ----------------------------
(***************************************************************************)
(* C20 phase 2: the option tables of the built-in utilities, transcribed   *)
(* from /repo/docs/src/builtins/<name>.md ("Synopsis" / "Options"), from   *)
(* docs/src/environment/options.md (shell options: `set`, command line of  *)
(* the shell) and docs/src/startup.md -- NOT from the code -- and, for     *)
(* each utility, a catalogue of canonical invocations.  Gen_OptSpell       *)
(* prints, for each catalogue entry, the class Spellings(table, mode, inv) *)
(* of equivalent argument vectors, and for each utility a set of malformed *)
(* vectors (rejected by OptParse!Parse with the table); the harness runs   *)
(* every vector in a fresh simulated shell.                                *)
(*                                                                         *)
(* The script run for a vector v of utility b is                           *)
(*     trap 'snap end' EXIT ; Prelude ; pre ; snap pre ; b v ; probe @st ; *)
(*     post                                                                *)
(* on the fixture described in harness/c20/src/classes.rs (directories     *)
(* /tmp/d, /tmp/d/sub, /tmp/-P, symbolic link /tmp/link -> /tmp/d, script  *)
(* /tmp/s.sh, cwd /tmp, HOME=/home, three lines on standard input).        *)
(***************************************************************************)
EXTENDS OptParse

OS(s, l) == OptSpec(s, Chars(l), FALSE, FALSE)
OSA(s, l) == OptSpec(s, Chars(l), TRUE, FALSE)

Prelude == "v1=one; v2=two; export ex=exported; f() { :; }; g() { :; }; alias al=echo al2=cat"

\* entry: pre / post script text, options (each <<name>> or <<name, arg>>,
\* name = short or long name in the table), operands
CE(pre, post, opts, ops) == [pre |-> pre, post |-> post, opts |-> opts, ops |-> ops]

NoOpts == <<>>

\* ---- tables ----------------------------------------------------------------
T_cd == << OS("L", "logical"), OS("P", "physical"), OS("e", "ensure-pwd") >>
T_command == << OS("p", "path"), OS("v", "identify"), OS("V", "verbose-identify") >>
T_exit == << OS("f", "force") >>
T_return == << OS("n", "no-return") >>
T_jobs == << OS("l", "verbose"), OS("p", "pgid-only") >>
T_pwd == << OS("L", "logical"), OS("P", "physical") >>
T_read == << OSA("d", "delimiter"), OS("r", "raw-mode") >>
T_trap == << OS("p", "print") >>
T_typeset == << OS("g", "global"), OS("r", "readonly"), OS("x", "export"), OS("p", "print"),
                OS("f", "functions"), OS("X", "unexport") >>
T_export == << OS("p", "print") >>
T_readonly == << OS("p", "print") >>
T_ulimit == << OS("S", "soft"), OS("H", "hard"), OS("a", "all"), OS("b", "sbsize"), OS("c", "core"),
               OS("d", "data"), OS("e", "nice"), OS("f", "fsize"), OS("i", "sigpending"),
               OS("k", "kqueues"), OS("l", "memlock"), OS("m", "rss"), OS("n", "nofile"),
               OS("q", "msgqueue"), OS("R", "rttime"), OS("r", "rtprio"), OS("s", "stack"),
               OS("t", "cpu"), OS("u", "nproc"), OS("v", "as"), OS("w", "swap"), OS("x", "locks") >>
T_umask == << OS("S", "symbolic") >>
T_unalias == << OS("a", "all") >>
T_unset == << OS("v", "variables"), OS("f", "functions") >>
T_kill == << OSA("s", ""), OSA("n", ""), OS("l", ""), OS("v", "") >>
T_none == << >>

\* shell options (environment/options.md "Option list"): every option has a long
\* name `x` and its negation `nox`; short names as listed (`+C` etc. mean the
\* short name sets the negated long name).
ShellOptionNames == << "allexport", "clobber", "cmdline", "errexit", "exec", "glob",
                       "hashondefinition", "ignoreeof", "interactive", "log", "login", "monitor",
                       "notify", "pipefail", "portable", "posixlycorrect", "stdin", "unset",
                       "verbose", "vi", "xtrace" >>
ShortOfLong(n) ==
  CASE n = "allexport" -> "a" [] n = "noclobber" -> "C" [] n = "cmdline" -> "c"
    [] n = "errexit" -> "e" [] n = "noexec" -> "n" [] n = "noglob" -> "f"
    [] n = "hashondefinition" -> "h" [] n = "interactive" -> "i" [] n = "login" -> "l"
    [] n = "monitor" -> "m" [] n = "notify" -> "b" [] n = "stdin" -> "s"
    [] n = "nounset" -> "u" [] n = "verbose" -> "v" [] n = "xtrace" -> "x"
    [] OTHER -> ""
T_shellopts ==
  [i \in 1..(2 * Len(ShellOptionNames)) |->
     LET n == IF i <= Len(ShellOptionNames) THEN ShellOptionNames[i]
              ELSE "no" \o ShellOptionNames[i - Len(ShellOptionNames)]
     IN OS(ShortOfLong(n), n)]
\* `set`: the shell options (startup-only ones cannot be changed, but they
\* still are names for the purpose of abbreviation)
\* plus `-o name` (options.md "You can also specify long options with the -o
\* option"): an option with an option-argument
T_set == T_shellopts \o << OSA("o", "") >>
\* command line of the shell: shell options + startup.md ("Options", and the
\* yash-specific -V, --help, --version named under "Compatibility")
T_sh == T_shellopts \o << OSA("o", ""), OSA("", "profile"), OS("", "noprofile"), OSA("", "rcfile"), OS("", "norcfile"),
                          OS("V", "version"), OS("", "help") >>

\* ---- catalogue --------------------------------------------------------------
LoopPre == "for i in 1 2; do for j in a b; do probe $i$j"
LoopPost == "probe after$i$j; done; probe outer$i; done"
FnPre == "fn() { probe in; \"$@\"; probe notreached; }"
FnPost == "probe ret"

\* kinds of malformed vectors that apply: US unknown short, UL unknown long,
\* AM ambiguous abbreviation, MA missing option-argument, UA unexpected
\* option-argument
AllBad == {"US", "UL", "AM", "MA", "UA"}

\* cmd: command line template, @ARGS@ = the argument vector
CBC(b, cmd, table, bad, entries) == [b |-> b, cmd |-> cmd, table |-> table, bad |-> bad, entries |-> entries]
CB(b, table, bad, entries) == CBC(b, b \o " @ARGS@", table, bad, entries)

Catalogue == <<
  CB("cd", T_cd, AllBad, <<
      CE("", "probe $PWD $OLDPWD", NoOpts, <<"/tmp/d">>),
      CE("", "probe $PWD", << <<"P">> >>, <<"/tmp/link">>),
      CE("", "probe $PWD", << <<"L">> >>, <<"/tmp/link">>),
      CE("", "probe $PWD", << <<"L">>, <<"P">> >>, <<"/tmp/link">>),
      CE("", "probe $PWD", << <<"P">>, <<"L">> >>, <<"/tmp/link">>),
      CE("", "probe $PWD", << <<"P">>, <<"e">> >>, <<"/tmp/link">>),
      CE("cd /tmp/d; cd /tmp", "probe $PWD", << <<"P">> >>, <<"-">>),
      CE("", "probe $PWD", NoOpts, <<"-P">>),
      CE("", "probe $PWD", << <<"e">> >>, <<"/tmp/d">>),
      CE("", "probe $PWD", << <<"L">>, <<"e">> >>, <<"/tmp/d">>),
      CE("", "probe $PWD", NoOpts, <<>>) >>),
  CB("command", T_command, AllBad, <<
      CE("", "", << <<"v">> >>, <<"cd">>),
      CE("", "", << <<"V">> >>, <<"f">>),
      CE("", "", << <<"p">> >>, <<"probe", "hi">>),
      CE("", "", << <<"p">>, <<"v">> >>, <<"cd">>),
      CE("", "", NoOpts, <<"probe", "-v", "--">>),
      CE("", "", NoOpts, <<"cd", "-P", "/tmp/link">>) >>),
  CB("exit", T_exit, AllBad, <<
      CE("", "probe notreached", << <<"f">> >>, <<"3">>),
      CE("", "probe notreached", NoOpts, <<"4">>),
      CE("status 5", "probe notreached", NoOpts, <<>>),
      CE("status 5", "probe notreached", << <<"f">> >>, <<>>) >>),
  CBC("return", "fn return @ARGS@", T_return, AllBad, <<
      CE(FnPre, FnPost, << <<"n">> >>, <<"5">>),
      CE(FnPre, FnPost, NoOpts, <<"6">>),
      CE(FnPre, FnPost, NoOpts, <<>>) >>),
  CB("jobs", T_jobs, AllBad, <<
      CE("status 3 &", "", << <<"l">> >>, <<>>),
      CE("status 3 &", "", << <<"p">> >>, <<>>),
      CE("status 3 &", "", NoOpts, <<>>),
      CE("status 3 &", "", << <<"l">> >>, <<"%1">>),
      CE("status 3 &", "", << <<"l">>, <<"p">> >>, <<>>) >>),
  CB("pwd", T_pwd, AllBad, <<
      CE("cd /tmp/link", "", << <<"L">> >>, <<>>),
      CE("cd /tmp/link", "", << <<"P">> >>, <<>>),
      CE("cd /tmp/link", "", << <<"L">>, <<"P">> >>, <<>>),
      CE("cd /tmp/link", "", << <<"P">>, <<"L">> >>, <<>>),
      CE("cd /tmp/link", "", NoOpts, <<>>) >>),
  CB("read", T_read, AllBad, <<
      CE("", "probe \"$a\" \"$b\"", << <<"d", "+">>, <<"r">> >>, <<"a", "b">>),
      CE("", "probe \"$a\" \"$b\"", << <<"r">>, <<"d", "+">> >>, <<"a", "b">>),
      CE("", "probe \"$a\"", << <<"r">> >>, <<"a">>),
      CE("", "probe \"$a\" \"$b\"", << <<"d", "">> >>, <<"a", "b">>),
      CE("", "probe \"$a\"", << <<"d", "-">> >>, <<"a">>),
      CE("", "probe \"$a\"", << <<"d", "--">>, <<"r">> >>, <<"a">>),
      CE("", "probe \"$a\" \"$b\"", NoOpts, <<"a", "b">>) >>),
  CB("trap", T_trap, AllBad, <<
      CE("trap 'probe x' INT USR1", "", << <<"p">> >>, <<>>),
      CE("trap 'probe x' INT USR1", "", << <<"p">> >>, <<"INT">>),
      CE("", "", NoOpts, <<"probe hi", "INT">>),
      CE("trap 'probe x' INT USR1", "", NoOpts, <<"-", "INT">>),
      CE("trap 'probe x' INT USR1", "", NoOpts, <<"", "USR1">>),
      CE("trap 'probe x' INT USR1", "", NoOpts, <<>>) >>),
  CB("type", T_none, AllBad, <<
      CE("", "", NoOpts, <<"cd">>),
      CE("", "", NoOpts, <<"cd", "f", "al">>) >>),
  CB("typeset", T_typeset, AllBad, <<
      CE("", "", << <<"g">> >>, <<"gv=1">>),
      CE("", "", << <<"g">>, <<"x">> >>, <<"gx=2">>),
      CE("", "", << <<"x">>, <<"g">>, <<"r">> >>, <<"gy=3">>),
      CE("", "", << <<"p">> >>, <<"v1">>),
      CE("", "", << <<"p">>, <<"x">> >>, <<>>),
      CE("", "", << <<"f">>, <<"p">> >>, <<"f">>),
      CE("", "", << <<"f">>, <<"r">> >>, <<"f">>),
      CE("", "", NoOpts, <<"lv=4">>) >>),
  CB("export", T_export, AllBad, <<
      CE("", "", << <<"p">> >>, <<>>),
      CE("", "", << <<"p">> >>, <<"ex">>),
      CE("", "", NoOpts, <<"v1">>),
      CE("", "", NoOpts, <<"nv=3", "v2">>) >>),
  CB("readonly", T_readonly, AllBad, <<
      CE("readonly v2", "", << <<"p">> >>, <<>>),
      CE("readonly v2", "", << <<"p">> >>, <<"v2">>),
      CE("", "", NoOpts, <<"v1">>),
      CE("", "", NoOpts, <<"rv=3">>) >>),
  CB("ulimit", T_ulimit, AllBad, <<
      CE("", "", << <<"S">>, <<"f">> >>, <<>>),
      CE("", "", << <<"H">>, <<"n">> >>, <<>>),
      CE("", "", << <<"n">>, <<"H">> >>, <<>>),
      CE("", "", << <<"a">> >>, <<>>),
      CE("", "ulimit -n", << <<"S">>, <<"n">> >>, <<"10">>),
      CE("", "ulimit -f", << <<"f">> >>, <<"unlimited">>),
      CE("", "", NoOpts, <<>>) >>),
  CB("umask", T_umask, AllBad, <<
      CE("", "", << <<"S">> >>, <<>>),
      CE("", "", NoOpts, <<"027">>),
      CE("", "", << <<"S">> >>, <<"027">>),
      CE("", "", NoOpts, <<"-w">>),
      CE("", "", NoOpts, <<>>) >>),
  CB("unalias", T_unalias, AllBad, <<
      CE("", "", << <<"a">> >>, <<>>),
      CE("", "", NoOpts, <<"al">>),
      CE("", "", NoOpts, <<"al", "al2">>) >>),
  CB("unset", T_unset, AllBad, <<
      CE("", "", << <<"v">> >>, <<"v1">>),
      CE("", "", << <<"f">> >>, <<"f">>),
      CE("", "", NoOpts, <<"v1", "v2">>),
      CE("", "", << <<"v">> >>, <<"v1", "f">>),
      CE("", "", << <<"f">> >>, <<"f", "g", "v1">>) >>),
  CB("wait", T_none, AllBad, <<
      CE("status 3 &", "", NoOpts, <<>>),
      CE("status 3 &", "", NoOpts, <<"%1">>),
      CE("", "", NoOpts, <<"123456">>) >>),
  CB("alias", T_none, AllBad, <<
      CE("", "", NoOpts, <<>>),
      CE("", "", NoOpts, <<"x=y">>),
      CE("", "", NoOpts, <<"al", "z=-w">>) >>),
  CB("bg", T_none, AllBad, << CE("", "", NoOpts, <<>>), CE("", "", NoOpts, <<"%1">>) >>),
  CB("fg", T_none, AllBad, << CE("", "", NoOpts, <<>>), CE("", "", NoOpts, <<"%1">>) >>),
  CB("break", T_none, AllBad, <<
      CE(LoopPre, LoopPost, NoOpts, <<>>),
      CE(LoopPre, LoopPost, NoOpts, <<"1">>),
      CE(LoopPre, LoopPost, NoOpts, <<"2">>) >>),
  CB("continue", T_none, AllBad, <<
      CE(LoopPre, LoopPost, NoOpts, <<>>),
      CE(LoopPre, LoopPost, NoOpts, <<"2">>) >>),
  CB("eval", T_none, AllBad, <<
      CE("", "", NoOpts, <<"probe", "x">>),
      CE("", "", NoOpts, <<"v9=1; probe $v9">>),
      CE("", "", NoOpts, <<>>) >>),
  CB("exec", T_none, AllBad, << CE("", "probe still", NoOpts, <<>>) >>),
  CB("shift", T_none, AllBad, <<
      CE("set -- a b c", "probe \"$@\"", NoOpts, <<>>),
      CE("set -- a b c", "probe \"$@\"", NoOpts, <<"2">>) >>),
  CB(".", T_none, AllBad, <<
      CE("", "", NoOpts, <<"/tmp/s.sh">>),
      CE("", "", NoOpts, <<"/tmp/s.sh", "arg", "-x">>) >>),
  CB("source", T_none, AllBad, <<
      CE("", "", NoOpts, <<"/tmp/s.sh">>),
      CE("", "", NoOpts, <<"/tmp/s.sh", "arg", "-x">>) >>),
  CB("times", T_none, AllBad, << CE("", "", NoOpts, <<>>) >>),
  CB("getopts", T_none, AllBad, <<
      CE("", "probe $opt $OPTIND", NoOpts, <<"ab", "opt", "-a">>),
      CE("set -- -b x", "probe $opt $OPTIND", NoOpts, <<"ab", "opt">>) >>),
  \* kill: `-s`/`-n` take the signal; the obsolete `-SIGNAL` form makes every
  \* unknown letter a signal name, which is rejected all the same
  CB("kill", T_kill, {"US", "UL", "MA"}, <<
      CE("", "", << <<"l">> >>, <<>>),
      CE("", "", << <<"v">> >>, <<"1">>),
      CE("", "", << <<"l">>, <<"v">> >>, <<"2", "INT">>),
      CE("", "", << <<"s", "0">> >>, <<"0">>),
      CE("", "", << <<"n", "0">> >>, <<"0">>),
      CE("trap 'probe got' USR1", "", << <<"s", "USR1">> >>, <<"0">>) >>),
  \* set: `-o` alone prints the options, so a missing option-argument is not
  \* malformed there; `+x` forms are outside the generic syntax.  set.md
  \* documents two deviations from the generic conventions, which the catalogue
  \* therefore avoids: `-` is a separator too (so an operand `-` needs `--`), and
  \* a separator without operands clears the positional parameters (so
  \* invocations without operands are not equivalent to their `--` spelling).
  CB("set", T_set, {"US", "UL", "AM", "UA"}, <<
      CE("", "probe \"$@\"", << <<"a">>, <<"e">> >>, <<"x", "y">>),
      CE("", "probe \"$@\"", << <<"u">>, <<"C">>, <<"f">> >>, <<"z">>),
      CE("", "probe \"$@\"", << <<"pipefail">> >>, <<"-a">>),
      CE("", "probe \"$@\"", << <<"noclobber">>, <<"b">> >>, <<"x", "-">>),
      CE("set -- p q", "probe \"$@\"", << <<"nolog">> >>, <<"">>),
      CE("set -- p q", "probe $#", << <<"noglob">>, <<"h">>, <<"v">> >>, <<"--", "r">>),
      CE("", "probe \"$@\"", << <<"a">>, <<"o", "errexit">>, <<"u">> >>, <<"x">>),
      CE("", "probe \"$@\"", << <<"o", "nolog">>, <<"o", "pipefail">> >>, <<"-o">>),
      CE("set -- p q", "probe $#", NoOpts, <<"--", "r">>) >>)
>>

\* the shell's own command line: argv after the command name; `-c` makes the
\* first operand the command string
ShCatalogue == <<
  CE("", "", << <<"c">> >>, <<"snap end">>),
  CE("", "", << <<"e">>, <<"u">>, <<"c">> >>, <<"snap end; probe $0 \"$@\"", "name", "arg1", "-x">>),
  CE("", "", << <<"c">>, <<"a">>, <<"pipefail">> >>, <<"snap end">>),
  CE("", "", << <<"noclobber">>, <<"f">>, <<"c">> >>, <<"snap end">>),
  CE("", "", << <<"s">>, <<"x">> >>, <<"p1", "-p2">>),
  CE("", "", << <<"s">>, <<"norcfile">>, <<"profile", "/tmp/s.sh">> >>, <<>>),
  CE("", "", << <<"v">>, <<"noprofile">> >>, <<"/tmp/s.sh", "a1">>),
  CE("", "", << <<"o", "errexit">>, <<"c">>, <<"o", "nounset">> >>, <<"snap end">>),
  CE("", "", << <<"s">>, <<"profile", "--">>, <<"rcfile", "-s">> >>, <<"--", "x">>),
  CE("", "", NoOpts, <<"/tmp/s.sh", "-a1", "--">>)
>>
ShBad == {"US", "UL", "AM", "UA", "MA"}
=============================================================================
