INIT Init
NEXT Next
