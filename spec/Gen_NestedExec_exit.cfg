SPECIFICATION Spec
CONSTANTS
  Fuel = 24
  TickLimit = 2
  K = 4
  Alphabet <- AlphaExit
  Opts <- OptsTrap
INVARIANT Emit
CHECK_DEADLOCK FALSE
