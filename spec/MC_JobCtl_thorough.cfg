SPECIFICATION Spec
CONSTANTS
  MaxLen = 6
  Modes = {TRUE, FALSE}
  JobIdOps = {"%1", "%2", "%%", "%-", "%hold"}
  PidOps = {"$p1", "$p2", "9999"}
  Sigs = {"TERM", "INT", "STOP", "CONT", "0"}
  JobsOpts = {"", "-l", "-p"}
  KillLNums = {0, 2, 9, 386, 399}
  MonCmds = {0, 1}
  FgSlots = {3}
  StartWith = "none"
VIEW view
INVARIANT TableConsistent
INVARIANT TableMirrorsProcesses
INVARIANT ListingShape
INVARIANT ReportedOnce
INVARIANT EmitState
PROPERTY ReportedThenGone
PROPERTY WaitTrue
PROPERTY NumbersStable
