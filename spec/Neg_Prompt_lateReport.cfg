SPECIFICATION Spec
CONSTANT Fams = {"jobs"}
CONSTANT Deep = 0
CONSTANT Variant = "lateReport"
INVARIANT Refute
