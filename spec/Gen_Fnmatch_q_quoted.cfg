INIT Init
NEXT Next
VIEW view
CONSTANTS
  PNorm <- AlphaQ
  PLit <- LitQ
  PMacro <- NoChars
  PLen = 5
  SAlpha <- StrFull
  SLen = 3
  Kind = "match"
INVARIANT Emit
